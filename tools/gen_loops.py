#!/usr/bin/env python3
"""Translator: extracts the counter-bounded retry loops of the shutdown / read paths from the Rust
source and writes lean/Feox/Gen/Loops.lean (arms in the vocabulary of Feox.Conc.Loops).

* the final flush of `write_buffer_worker` (src/storage/write_buffer.rs): the `loop { match
  flush_worker_shards(..) { arms } }` under `if ctx.shutdown.load(..)`.  Per arm, the top-level
  statements are read in order: `break` (the arm leaves), `X += 1;` (bump), `if X == LIMIT {..
  break; }` (guard), `if <other condition> { .. break; }` (a conditional exit: splits the arm into
  an exiting variant and the rest).  Anything else that could alter control flow (`continue`,
  `return`, a nested loop, a `?`) makes the translator fail loudly.
* `resolve_value` (src/core/store/operations.rs) must be a `for _ in 0..STALE_READ_RETRY_LIMIT`.
"""
import os, re, sys

REPO = os.environ.get("FEOX_REPO", "/repo")
V = os.path.dirname(os.path.dirname(os.path.abspath(__file__)))


def die(msg):
    sys.exit("gen_loops: " + msg)


def strip_comments(src):
    src = re.sub(r'"(\\.|[^"\\])*"', '""', src)
    return re.sub(r"//[^\n]*", "", src)


def block_at(src, open_idx):
    """text between the brace at open_idx and its match (exclusive), and the index after it"""
    assert src[open_idx] == "{"
    d = 0
    for i in range(open_idx, len(src)):
        if src[i] == "{":
            d += 1
        elif src[i] == "}":
            d -= 1
            if d == 0:
                return src[open_idx + 1:i], i + 1
    die("unbalanced braces")


def top_level_items(body):
    """split a block body into top-level statements (ending with `;` or a `{..}` block)"""
    items, cur, d, i = [], "", 0, 0
    while i < len(body):
        ch = body[i]
        cur += ch
        if ch in "{(":
            d += 1
        elif ch in "})":
            d -= 1
            if d == 0 and ch == "}":
                # a block statement ends here unless followed by `else`
                rest = body[i + 1:].lstrip()
                if not rest.startswith("else"):
                    items.append(cur.strip())
                    cur = ""
        elif ch == ";" and d == 0:
            items.append(cur.strip())
            cur = ""
        i += 1
    if cur.strip():
        items.append(cur.strip())
    return [x for x in items if x]


def match_arms(body):
    """[(pattern, arm body text)] of a `match` block body"""
    arms, i = [], 0
    while i < len(body):
        m = re.compile(r"\s*([^=]+?)\s*=>\s*", re.S).match(body, i)
        if not m:
            if body[i:].strip() in ("", ","):
                break
            die("cannot read a match arm at: %r" % body[i:i + 60])
        pat = re.sub(r"\s+", " ", m.group(1).strip())
        j = m.end()
        if body[j] == "{":
            inner, j = block_at(body, j)
            arms.append((pat, inner))
        else:
            k = body.index(",", j)
            arms.append((pat, body[j:k].strip() + ";"))
            j = k
        while j < len(body) and body[j] in ", \n\t":
            j += 1
        i = j
    return arms


def final_flush_arms():
    """the final-flush loop = the last `loop { .. }` of write_buffer_worker that calls flush_worker_shards.
    Its body is walked statement by statement; every way through one iteration becomes an arm:
    `break` ends the path (exits), `c += 1` bumps, `if c == LIMIT { .. break; }` is the guard,
    `if other { .. break; }` and `match .. { arms }` split the path."""
    path = "src/storage/write_buffer.rs"
    src = strip_comments(open(os.path.join(REPO, path)).read())
    f = src.find("fn write_buffer_worker")
    if f < 0:
        die("write_buffer_worker not found in " + path)

    def body_of(name):
        m = re.search(r"\bfn\s+%s\b[^{;]*\{" % re.escape(name), src)
        if not m:
            return None
        return block_at(src, m.end() - 1)[0]

    def loop_in(body):
        hit = None
        for l in re.finditer(r"\bloop\s*\{", body):
            blk, _ = block_at(body, l.end() - 1)
            if "flush_worker_shards(" in blk:
                hit = (l.start(), blk)
        return hit

    # the loop sits in write_buffer_worker itself or in a helper it calls (followed transitively, nearest first):
    # a refactor may move the shutdown drain into a function of its own
    defined = set(re.findall(r"\bfn\s+(\w+)", src))
    queue, seen, fbody, found = ["write_buffer_worker"], set(), None, None
    while queue and found is None:
        name = queue.pop(0)
        if name in seen or name == "flush_worker_shards":
            continue
        seen.add(name)
        body = body_of(name)
        if body is None:
            continue
        hit = loop_in(body)
        if hit is not None:
            fbody, found = body, hit
            break
        queue += [c for c in re.findall(r"\b(\w+)\s*\(", body) if c in defined and c not in seen]
    if found is None:
        die("the shutdown branch (with its final-flush loop) of write_buffer_worker was not found: no `loop { .. flush_worker_shards(..) .. }` in it or in the functions it calls")
    counters = re.findall(r"let\s+mut\s+(\w+)(?:\s*:\s*\w+)?\s*=\s*0(?:_?[ui]\w+)?\s*;", fbody[:found[0]])
    state = {"limit": None}
    arms = []  # (name, exits, bumps, guard)

    def harmless(text, where):
        if re.search(r"\b(continue|return|loop|while|for|break)\b|\?\s*[;)]|\?\s*$", text):
            die("%s: statement not understood: %r" % (where, re.sub(r"\s+", " ", text)[:90]))

    def leaves(inner, where):
        """does this block leave the loop: 'always' (a top-level `break;`), 'maybe' (a nested one), 'no'"""
        items = top_level_items(inner)
        for it in items:
            if re.fullmatch(r"break\s*;?", it):
                return "always"
        if re.search(r"\bbreak\b", inner):
            return "maybe"
        if re.search(r"\b(continue|return|loop|while|for)\b|\?\s*[;)]", inner):
            die("%s: control flow not understood in %r" % (where, re.sub(r"\s+", " ", inner)[:90]))
        return "no"

    def walk(items, name, bumps, guard):
        if not items:
            arms.append((name or "(every round)", False, bumps, guard))
            return
        it, rest = items[0], items[1:]
        if re.fullmatch(r"break\s*;?", it):
            arms.append((name or "(every round)", True, bumps, None))
            return
        m = re.fullmatch(r"(\w+)\s*\+=\s*1\s*;", it)
        if m:
            if m.group(1) not in counters:
                die("`%s += 1`: not a counter initialised to 0 before the loop" % m.group(1))
            if guard is not None:
                die("path `%s` bumps a counter after its limit check" % name)
            return walk(rest, name, bumps + [m.group(1)], guard)
        m = re.match(r"(?:let\s+(?:mut\s+)?\w+(?:\s*:\s*[^=]+?)?\s*=\s*)?match\s+(.*?)\s*\{", it, re.S)
        if m and not it.startswith("match!"):
            # (`let x = match e { arms };` is read like the bare match: an arm either leaves the loop or yields a value)
            mbody, end = block_at(it, it.index("{", m.end() - 1))
            if it[end:].strip(" ;"):
                die("a match used as an expression inside a larger statement: %r" % it[:80])
            for pat, body in match_arms(mbody):
                walk(top_level_items(body) + rest, (name + " / " if name else "") + pat, list(bumps), guard)
            return
        m = re.match(r"if\s+(.*?)\s*\{", it, re.S)
        if m and not it.startswith("if let"):
            inner, end = block_at(it, it.index("{", m.start()))
            cond = re.sub(r"\s+", " ", m.group(1))
            if it[end:].strip():
                die("`if %s .. else`: not understood" % cond)
            lv = leaves(inner, "if " + cond)
            g = re.fullmatch(r"(\w+) (?:==|>=) (\w+)", cond)
            if g and g.group(1) in counters:
                if lv != "always":
                    die("the limit check `if %s` does not leave the loop unconditionally" % cond)
                if guard is not None:
                    die("path `%s` has two limit checks" % name)
                # (a path that checks the limit without having counted this round is emitted as it is:
                #  `Arm.ok` rejects it and the theorem `final_flush_terminates` no longer builds)
                state["limit"] = state["limit"] or g.group(2)
                if state["limit"] != g.group(2):
                    die("two different limits: %s and %s" % (state["limit"], g.group(2)))
                return walk(rest, name, bumps, g.group(1))
            if lv in ("always", "maybe"):
                arms.append(((name + " " if name else "") + "if " + cond, True, list(bumps), None))
            return walk(rest, name, bumps, guard)
        harmless(it, "final-flush loop")
        return walk(rest, name, bumps, guard)

    walk(top_level_items(found[1]), "", [], None)
    if state["limit"] is None:
        die("no `counter == LIMIT` check found in the final-flush loop")
    return counters, state["limit"], arms


def stale_read_loop():
    src = strip_comments(open(os.path.join(REPO, "src/core/store/operations.rs")).read())
    f = src.find("fn resolve_value(")
    if f < 0:
        die("resolve_value not found")
    body, _ = block_at(src, src.index("{", src.index(")", f)))
    m = re.search(r"for\s+_\s+in\s+0\.\.(\w+)\s*\{", body)
    if not m or re.search(r"\bloop\s*\{|\bwhile\b", body):
        die("resolve_value is no longer a `for _ in 0..LIMIT` loop")
    return m.group(1)


def main():
    counters, limit, arms = final_flush_arms()
    stale = stale_read_loop()
    used = [c for c in counters if any(c in a[2] or c == a[3] for a in arms)]
    idx = {c: i for i, c in enumerate(used)}
    out = ["/- generated by tools/gen_loops.py from src/storage/write_buffer.rs (write_buffer_worker, final flush)",
           "   and src/core/store/operations.rs (resolve_value) — do not edit -/",
           "import Feox.Conc.Loops", "import Feox.Gen.Constants", "namespace Feox.Gen", "open Feox.Conc.Loops", "",
           "/-- counters of the final-flush loop, in the order of their declaration -/",
           "def finalFlushCounters : List String := [%s]" % ", ".join('"%s"' % c for c in used), "",
           "/-- the constant the counters are compared with -/",
           "def finalFlushLimit : Nat := %s" % limit, "",
           "def finalFlushArms : List Arm := ["]
    for i, (name, exits, bumps, guard) in enumerate(arms):
        out.append('  ⟨"%s", %s, [%s], %s⟩%s' % (name.replace('"', "'"), "true" if exits else "false", ", ".join(str(idx[b]) for b in bumps),
                                               "some %d" % idx[guard] if guard is not None else "none", "," if i + 1 < len(arms) else ""))
    out += ["]", "", "/-- the bound of the `for` loop of `resolve_value` -/", "def staleReadLoopBound : Nat := %s" % stale, "", "end Feox.Gen", ""]
    p = os.path.join(V, "lean", "Feox", "Gen", "Loops.lean")
    new = "\n".join(out)
    if not os.path.exists(p) or open(p).read() != new:
        open(p, "w").write(new)
    print("gen_loops: final flush: %d arms over counters %s, limit %s; resolve_value: for 0..%s" % (len(arms), used, limit, stale))


if __name__ == "__main__":
    main()
