#!/usr/bin/env python3
"""Translator: extracts the counter-bounded retry loops of the shutdown / read paths from the Rust
source and writes lean/Feox/Gen/Loops.lean (arms in the vocabulary of Feox.Conc.Loops).

* the final flush of `write_buffer_worker` (src/storage/write_buffer.rs): the `loop { match
  flush_worker_shards(..) { arms } }` under `if ctx.shutdown.load(..)`.  Per arm, the top-level
  statements are read in order: `break` (the arm leaves), `X += 1;` (bump), `if X == LIMIT {..
  break; }` (guard), `if <other condition> { .. break; }` (a conditional exit: splits the arm into
  an exiting variant and the rest).  Anything else that could alter control flow (`continue`,
  `return`, a nested loop, a `?`) makes the translator fail loudly.
* `resolve_value` (src/core/store/operations.rs) must be a `for _ in 0..STALE_READ_RETRY_LIMIT`.
"""
import os, re, sys

REPO = os.environ.get("FEOX_REPO", "/repo")
V = os.path.dirname(os.path.dirname(os.path.abspath(__file__)))


def die(msg):
    sys.exit("gen_loops: " + msg)


def strip_comments(src):
    src = re.sub(r'"(\\.|[^"\\])*"', '""', src)
    return re.sub(r"//[^\n]*", "", src)


def block_at(src, open_idx):
    """text between the brace at open_idx and its match (exclusive), and the index after it"""
    assert src[open_idx] == "{"
    d = 0
    for i in range(open_idx, len(src)):
        if src[i] == "{":
            d += 1
        elif src[i] == "}":
            d -= 1
            if d == 0:
                return src[open_idx + 1:i], i + 1
    die("unbalanced braces")


def top_level_items(body):
    """split a block body into top-level statements (ending with `;` or a `{..}` block)"""
    items, cur, d, i = [], "", 0, 0
    while i < len(body):
        ch = body[i]
        cur += ch
        if ch in "{(":
            d += 1
        elif ch in "})":
            d -= 1
            if d == 0 and ch == "}":
                # a block statement ends here unless followed by `else`
                rest = body[i + 1:].lstrip()
                if not rest.startswith("else"):
                    items.append(cur.strip())
                    cur = ""
        elif ch == ";" and d == 0:
            items.append(cur.strip())
            cur = ""
        i += 1
    if cur.strip():
        items.append(cur.strip())
    return [x for x in items if x]


def match_arms(body):
    """[(pattern, arm body text)] of a `match` block body"""
    arms, i = [], 0
    while i < len(body):
        m = re.compile(r"\s*([^=]+?)\s*=>\s*", re.S).match(body, i)
        if not m:
            if body[i:].strip() in ("", ","):
                break
            die("cannot read a match arm at: %r" % body[i:i + 60])
        pat = re.sub(r"\s+", " ", m.group(1).strip())
        j = m.end()
        if body[j] == "{":
            inner, j = block_at(body, j)
            arms.append((pat, inner))
        else:
            k = body.index(",", j)
            arms.append((pat, body[j:k].strip() + ";"))
            j = k
        while j < len(body) and body[j] in ", \n\t":
            j += 1
        i = j
    return arms


def final_flush_arms():
    path = "src/storage/write_buffer.rs"
    src = strip_comments(open(os.path.join(REPO, path)).read())
    f = src.find("fn write_buffer_worker")
    if f < 0:
        die("write_buffer_worker not found in " + path)
    fbody, _ = block_at(src, src.index("{", src.index(")", f)))
    shut = lm = None
    for m in re.finditer(r"if ctx\.shutdown\.load\(Ordering::Acquire\) \{", fbody):
        blk, _ = block_at(fbody, m.end() - 1)
        l = re.search(r"\bloop\s*\{", blk)
        if l:
            shut, lm = blk, l
    if shut is None:
        die("the shutdown branch (with its final-flush loop) of write_buffer_worker was not found")
    pre = shut[:lm.start()]
    counters = re.findall(r"let\s+mut\s+(\w+)\s*=\s*0\s*;", pre)
    loop_body, _ = block_at(shut, lm.end() - 1)
    mm = re.match(r"\s*match\s+flush_worker_shards\([^)]*\)\s*\{", loop_body)
    if not mm:
        die("the final-flush loop is no longer `loop { match flush_worker_shards(..) { .. } }`")
    mbody, after = block_at(loop_body, mm.end() - 1)
    if loop_body[after:].strip():
        die("statements after the match in the final-flush loop: %r" % loop_body[after:].strip()[:80])
    limit = None
    arms = []  # (name, exits, bumps, guard)
    for pat, body in match_arms(mbody):
        bumps, guard, exits = [], None, False
        for it in top_level_items(body):
            if re.fullmatch(r"break\s*;?", it):
                exits = True
                break
            m = re.fullmatch(r"(\w+)\s*\+=\s*1\s*;", it)
            if m:
                if m.group(1) not in counters:
                    die("arm `%s` bumps `%s`, which is not a counter initialised before the loop" % (pat, m.group(1)))
                if guard is not None:
                    die("arm `%s` bumps a counter after its limit check" % pat)
                bumps.append(m.group(1))
                continue
            m = re.match(r"if\s+(.*?)\s*\{", it, re.S)
            if m:
                inner, end = block_at(it, it.index("{", m.start()))
                if it[end:].strip():
                    die("arm `%s`: `if .. else` is not understood: %r" % (pat, it[:80]))
                cond = re.sub(r"\s+", " ", m.group(1))
                leaves = re.search(r"\bbreak\s*;", inner) is not None
                if re.search(r"\b(continue|return|loop|while|for)\b|\?", inner):
                    die("arm `%s`: control flow inside `if %s` is not understood" % (pat, cond))
                if not leaves:
                    continue
                g = re.fullmatch(r"(\w+) == (\w+)", cond)
                if g and g.group(1) in counters:
                    if guard is not None:
                        die("arm `%s` has two limit checks" % pat)
                    guard = g.group(1)
                    limit = limit or g.group(2)
                    if limit != g.group(2):
                        die("two different limits: %s and %s" % (limit, g.group(2)))
                else:
                    # conditional exit: an exiting variant of the arm
                    arms.append(("%s if %s" % (pat, cond), True, list(bumps), None))
                continue
            if re.search(r"\b(continue|return|loop|while|for)\b|\?\s*;", it):
                die("arm `%s`: statement not understood: %r" % (pat, it[:80]))
            # eprintln!, thread::sleep, delay updates: no effect on the loop's control
        arms.append((pat, exits, bumps, None if exits else guard))
    if limit is None:
        die("no `counter == LIMIT` check found in the final-flush loop")
    return counters, limit, arms


def stale_read_loop():
    src = strip_comments(open(os.path.join(REPO, "src/core/store/operations.rs")).read())
    f = src.find("fn resolve_value(")
    if f < 0:
        die("resolve_value not found")
    body, _ = block_at(src, src.index("{", src.index(")", f)))
    m = re.search(r"for\s+_\s+in\s+0\.\.(\w+)\s*\{", body)
    if not m or re.search(r"\bloop\s*\{|\bwhile\b", body):
        die("resolve_value is no longer a `for _ in 0..LIMIT` loop")
    return m.group(1)


def main():
    counters, limit, arms = final_flush_arms()
    stale = stale_read_loop()
    used = [c for c in counters if any(c in a[2] or c == a[3] for a in arms)]
    idx = {c: i for i, c in enumerate(used)}
    out = ["/- generated by tools/gen_loops.py from src/storage/write_buffer.rs (write_buffer_worker, final flush)",
           "   and src/core/store/operations.rs (resolve_value) — do not edit -/",
           "import Feox.Conc.Loops", "import Feox.Gen.Constants", "namespace Feox.Gen", "open Feox.Conc.Loops", "",
           "/-- counters of the final-flush loop, in the order of their declaration -/",
           "def finalFlushCounters : List String := [%s]" % ", ".join('"%s"' % c for c in used), "",
           "/-- the constant the counters are compared with -/",
           "def finalFlushLimit : Nat := %s" % limit, "",
           "def finalFlushArms : List Arm := ["]
    for i, (name, exits, bumps, guard) in enumerate(arms):
        out.append('  ⟨"%s", %s, [%s], %s⟩%s' % (name.replace('"', "'"), "true" if exits else "false", ", ".join(str(idx[b]) for b in bumps),
                                               "some %d" % idx[guard] if guard is not None else "none", "," if i + 1 < len(arms) else ""))
    out += ["]", "", "/-- the bound of the `for` loop of `resolve_value` -/", "def staleReadLoopBound : Nat := %s" % stale, "", "end Feox.Gen", ""]
    p = os.path.join(V, "lean", "Feox", "Gen", "Loops.lean")
    new = "\n".join(out)
    if not os.path.exists(p) or open(p).read() != new:
        open(p, "w").write(new)
    print("gen_loops: final flush: %d arms over counters %s, limit %s; resolve_value: for 0..%s" % (len(arms), used, limit, stale))


if __name__ == "__main__":
    main()
