#!/usr/bin/env python3
"""Writes MANIFEST.json from the registry below (one entry per claimed property)."""
import json, os
V = os.path.dirname(os.path.dirname(os.path.abspath(__file__)))
ALL = ["C%02d" % i for i in range(1, 21)]

CLAIMS = {
 "C06": dict(
  engine="fsm",
  technique="Lean 4 proof (invariant by induction over call lists) on a hand-written model of FreeSpaceManager + differential correspondence check against the real FreeSpaceManager",
  text="Unbounded machine-checked proof in Lean 4: for the executable model Feox.Fsm of src/storage/free_space.rs the invariant "
       "(runs sorted, pairwise disjoint AND non-adjacent, positive, in bounds, total = sum) holds after every sequence of allocate/release calls "
       "(C06.reachable_inv), with exact specifications of allocate (C06.alloc_spec, alloc_fails_iff, no_fit_iff_no_free_range, alloc_prefix_of_run), "
       "release (release_ok_iff, release_spec, release_error_unchanged) and the statistics (stats_canonical: the run list is a function of the free set). "
       "The model is tied to the code on every run by a differential check on the public FreeSpaceManager (exhaustive small-device call trees + random sequences, "
       "result, error kind and all four getters compared after every call). A theorem is the right level because the property is a pure state-machine invariant over all call sequences.",
  note="Trusted: Lean kernel; axioms propext/Classical.choice/Quot.sound only; gen_constants.py; the harness+driver correspondence (differential testing, so the tie is as strong as its generator: distribution in evidence); u64 modelled as Nat (C06.no_overflow covers devices <= MAX_DEVICE_SIZE); BTreeMap assumed to be an ordered map.",
  design="6/C06"),
 "C01": dict(engine="kv", design="6/C01",
  technique="Lean 4 theorems about an executable last-writer-wins reference map (Feox.Kv.Spec) + call-by-call differential check of the real FeoxStore against it in all 24 configurations and storage tiers",
  text="Feox.Kv.Spec is the reference map of the property (LWW by timestamp, lingering expired entries as the code keeps them, saturating arithmetic, the version clock, validation order). Proved for all states and arguments: a write takes effect iff its timestamp is greater than the key's current one and a rejected one changes nothing (write_iff_newer), reads return the latest accepted value (reads_latest), an accepted delete removes the key (delete_effect), and every call that returns an error leaves entries, usage and count untouched so later reads are unchanged (error_preserves_contents / error_preserves_view; only a lazy expiry inside increment is exempt), with doInsert_cases enumerating every outcome. "
       "The tie: the kv engine drives every public method of the real store single-threaded (insert/insert_bytes/TTL variants, get/get_bytes, delete, CAS, increment, insert_if_absent, JSON patch, TTL calls, range, flush, sweeper batch, clean reopen) in {memory-only, persistent} x {cache on/off} x {TTL on/off} x {v1,v2,v3}, and after every call compares result, len() and memory_usage() with the reference; values are read resident, from cache and from disk (tier histogram in evidence). Differences are delta-debugged to a minimal call sequence.",
  note='Trusted: Lean kernel; axioms propext/Classical.choice/Quot.sound; gen_constants.py; the kv harness + driver correspondence (differential, call by call incl. len()/memory_usage()); json-patch, wall clock and key->shard hash enter the model as recorded inputs; concurrency is outside this engine.' + " Partial: tier/cache independence is established by the differential runs (same reference for every tier), not by a refinement theorem about a tiered model; values above 2 blocks and the 1024-entry buffer trigger are not generated in the quick tier."),
 "C11": dict(engine="kv", design="6/C11",
  technique="Lean 4 theorems about expiry in the reference map with the wall clock as explicit input + differential check with a pinned clock (boundary times, sweeper batches, restart)",
  text="Proved on Feox.Kv.Spec for all states/times: once now > expiry no value-reading call returns the value (get_never_after, range_never_after, cas_never_after, patch_never_after, update_ttl_never_after; incr_reinitialises), an unexpired or expiry-less entry is returned and is removed neither by a sweep nor by a reopen (get_never_before, sweep_never_before, survives_restart: value, timestamp and absolute expiry unchanged), expired entries are dropped by a TTL-enabled reopen (restart_drops_expired), the saturating expiry arithmetic (expiry_arith) and that a TTL-only update keeps the value with a strictly newer version (ttl_only_update_keeps_value). Tie: kv engine with the clock hook pinning `now` per call (ns..minutes steps across expiries), explicit sweeper batches through the hook, TTL-only updates of offloaded values, reopen with TTL on/off; image-level no-resurrection is exercised by the fmt engine.",
  note='Trusted: Lean kernel; axioms propext/Classical.choice/Quot.sound; gen_constants.py; the kv harness + driver correspondence (differential, call by call incl. len()/memory_usage()); json-patch, wall clock and key->shard hash enter the model as recorded inputs; concurrency is outside this engine.' + " Partial: sweeper/writer races are outside this engine; the no-resurrection clause for crash images rests on the fmt correspondence (recoverImage), not on a Lean theorem yet."),
 "C12": dict(engine="kv", design="6/C12",
  technique="Lean 4 theorems about the sharded version clock of the reference map + differential check (mixes of automatic and explicit timestamps, restart), known findings F1/F2 listed",
  text="Proved: clockNext is strictly above the shard clock below the maximum and never moves a clock back (next_strict), observe folds an accepted explicit timestamp in (observe_ge, accepted_explicit_insert_observed), with the clock invariant and headroom an automatically timestamped insert/delete/CAS is never rejected as older (auto_*_never_older) and a TTL change always outranks its predecessor (update_ttl_strict), an explicit timestamp carried by a failing insert/delete is never absorbed (failed_explicit_*_not_absorbed: the whole state is unchanged), and a reopen re-establishes 'every recovered timestamp <= its key's new shard clock' under the new handle's shard map (reopen_clock_dominates). Tie: kv engine compares every answer and the shard clock values (through the hook) across auto/past/equal/+1/future explicit timestamps on all operation kinds, flush and reopen.",
  note='Trusted: Lean kernel; axioms propext/Classical.choice/Quot.sound; gen_constants.py; the kv harness + driver correspondence (differential, call by call incl. len()/memory_usage()); json-patch, wall clock and key->shard hash enter the model as recorded inputs; concurrency is outside this engine.' + " The Headroom hypothesis (shard clock < u64::MAX) is what the statement's 'unless pinned at the maximum' becomes; F1 (u64::MAX-1 exhausts a whole clock shard) and F2 (delete timestamps are not recoverable) are known findings, see DESIGN.md section 8; the generator avoids the terminal timestamps."),
 "C13": dict(engine="kv", design="6/C13",
  technique="Lean 4 invariant proof (induction over arbitrary call sequences) of exact accounting on the reference map + differential check of len()/memory_usage() after every call",
  text="Acc(s): keys unique, mem = sum over live entries of (overhead + key length + value length), count = number of live entries. Proved: Acc holds initially and is preserved by every operation with any arguments, succeeding or failing (step_exact), hence in every reachable state after any mix of inserts, growing/shrinking updates, deletes, expiries, flushes and reopens (exact); zero when empty; a write refused for memory changes nothing but possibly the clock (insert_refused_changes_nothing and the *_error_frame lemmas); a reservation never pushes usage above the limit (reserve_within_limit). Tie: the kv engine compares memory_usage() and len() with the model after every single call, including configurations with small memory limits (OutOfMemory paths in the error histogram).",
  note='Trusted: Lean kernel; axioms propext/Classical.choice/Quot.sound; gen_constants.py; the kv harness + driver correspondence (differential, call by call incl. len()/memory_usage()); json-patch, wall clock and key->shard hash enter the model as recorded inputs; concurrency is outside this engine.' + " Partial: the concurrent clause (no interleaving exceeds the limit) is not covered by this engine."),
 "C14": dict(engine="kv", design="6/C14",
  technique="Lean 4 proof that the range scan equals filter-then-take on the sorted index (all key sets, bounds, limits, times) + differential check incl. hash/ordered index agreement",
  text="Proved: rangeScan = take limit (filter (in bounds and not expired) sorted-entries) with current values (range_spec) — so results are strictly ascending in byte order, inside the inclusive bounds, at most limit, the smallest such, skipped expired entries do not consume the limit (range_props), start > end and limit 0 give nothing (range_empty), nothing in range is missing when the limit is large enough (range_complete); byte-lexicographic order is a strict total order (bytesLt_trans/total) and keys stay unique and sorted in every reachable state (reachable_sorted). Tie: kv engine with shared-prefix key sets, empty/0xFF../truncated bounds, limits 0,1,2,3,100,usize::MAX, expired entries inside the window, all tiers; periodic dumps check that the hash index and the ordered index hold the same keys.",
  note='Trusted: Lean kernel; axioms propext/Classical.choice/Quot.sound; gen_constants.py; the kv harness + driver correspondence (differential, call by call incl. len()/memory_usage()); json-patch, wall clock and key->shard hash enter the model as recorded inputs; concurrency is outside this engine.' + " Partial: the concurrent clauses (stable key seen once, deleted-before never seen) are outside this engine."),


 "C15": dict(engine="fmt", design="6/C15",
  technique="Lean 4 theorems about a model of migrate() (read-only recovery of the source + a finite-table proof of the destination-guard automaton) + differential check of the real migrate() with the Lean reader on source and destination files",
  text="Feox.Fmt.migrateModel = read-only recovery of the legacy image (TTL off) + format/key-size/size checks; Feox.Fmt.runGuard = the DestinationGuard automaton (existence check, temporary file, copy, hard-link publication, verification, rollback, drop) with a failure possible at every step and a foreign file possibly appearing at the destination meanwhile. Proved: a read-only open issues no device write for any image (source_untouched, migrate_source_untouched), on success the copied set is exactly the read-only recovery's live set with expired newest generations kept (faithful), current-format sources and unrecoverable v1 keys are refused, ambiguous legacy markers fail without the opt-in, and by a complete finite table (guard_table + allEnvs_complete): an existing destination is never modified, a failed migration leaves neither destination nor temporary file, a foreign file is never removed or replaced, success means our file is published. "
       "Tie: the fmt engine runs the real migrate() on legacy images produced by the real store (clean, damaged, with ambiguous markers; with and without opt-in; onto existing destinations) and the Lean reader recovers both files and requires identical keys, timestamps, absolute expiries and value digests, identical outcome class, record count and destination size.",
  note="Trusted: Lean kernel; axioms propext/Classical.choice/Quot.sound; fmt harness+driver; the file system model is abstract (hard_link atomicity, directory fsync trusted); SourceChanged detection not exercised."),
 "C16": dict(engine="cache", design="6/C16",
  technique="Lean 4 invariant proof of exact cache accounting over all operation sequences + generation-exact hit theorem on a model of ClockCache; differential check of the real ClockCache and of the store with cache on/off",
  text="Feox.Cache models ClockCache (buckets by hash, record-tagged entries with the generation rules of can_replace_generation, CLOCK sweep with reference bits, watermarks, clear). Proved for every sequence of insert/insert_for_record/get/get_for_record/remove/evict/clear/adjust operations and any bucket hash: reported memory = total size of held entries (accounting, via per-operation invariance lemmas incl. the sweep debit lemma sweepBucket_size), a get_for_record hit comes only from an entry tagged with exactly that generation (hit_is_own_generation), a retired generation never replaces a cached one and a live cached generation is displaced only by itself or a strictly newer one (retired_generation_never_replaces, replace_needs_newer), oversized values are never cached. "
       "Tie: the cache engine drives the real ClockCache with 1-3 MB watermarks and compares every answer, cache_memory after every call and the full entry listing (bucket, tag, reference bit, size, evictions) with the model, while an independent oracle checks memory = sum of sizes, no hit after remove, usage <= low after eviction; the kv engine runs every store configuration with cache on and off against one reference map (transparency).",
  note="Trusted: Lean kernel; axioms propext/Classical.choice/Quot.sound; harness+driver correspondence. Partial: store-level transparency and the eviction-target/second-chance clauses are established by the differential runs and harness oracle, not yet by theorems; concurrent interleavings are outside this engine."),
 "C10": dict(
  engine="fmt",
  technique="Lean 4 proofs of codec round trips and layout facts on an independent Lean reader/writer of the documented layout + byte-level differential check of the real store's files and codec functions against it (incl. golden files of the pinned release)",
  text="Machine-checked for all inputs: record encode/parse round trip in v1/v2 (record_roundtrip_unstamped) and v3 (record_roundtrip_stamped) incl. value placement and the read-side identity check, "
       "token never zero / ignores the seq field / stamping idempotent / covers continuation blocks, marker round trip and head/marker/zero-block mutual exclusion, journal checksum independent of its own fields, "
       "slot and metadata-copy alternation, newest-valid metadata selection, and the layout/offset facts re-proved from the regenerated Rust constants (layout_disjoint, meta_offsets). "
       "The Lean model Feox.Fmt is an independent implementation of the documented layout: on every run it reads the files the real store wrote in v1/v2/v3 mode (and the committed golden files) "
       "and must find exactly the store's own live keys, timestamps, expiries, value digests, sectors, free runs and counters, and reproduce recovery's writes byte for byte; the crate's CRC/token/stamp/parse/marker/journal/metadata functions are compared with the model on random and directed inputs. A symmetric encoder+decoder change therefore disagrees with Lean although the crate's own round trip still passes.",
  note="Trusted: Lean kernel; axioms propext/Classical.choice/Quot.sound; gen_constants.py; harness+driver correspondence (differential). Not proved: full journal/metadata decode(encode) round trips (checksum-stamp lemma only) and the write path producing the image (tied by the correspondence runs). O_DIRECT and non-selected CRC hardware paths are never executed here.",
  design="6/C10"),
 "C17": dict(
  engine="fmt",
  technique="Lean 4 proofs about a total model of open/recovery over all byte images (termination, no out-of-range index in the decoders, error kinds, rejected-before-any-write) + differential check of the real open on structure-aware damaged images",
  text="Feox.Fmt.recoverImage models the whole of opening a file (size checks, metadata selection, journal decode and replay, the scan loop branch for branch, expired-winner removal, post-scan retirement) as a total Lean function over arbitrary bytes; "
       "every unchecked slice of the Rust decoders is a checked slice with an explicit panic outcome in the model. Proved for all images: the scan terminates (termination checker), the slot/journal decoders never index out of range (decodeSlot_no_panic, decodeJournal_no_panic, from bounds re-proved against the regenerated constants), "
       "the scan ends only with CorruptedRecord/AmbiguousLegacyTombstone/InvalidArgument/DuplicateKey and never panics on whole-block images (scan_error_kinds, scan_no_panic), and an open rejected for size or metadata reasons has issued no write (invalid_size_rejected, bad_metadata_rejected, fail_kinds_before_io). "
       "Tie: thousands of damaged/forged/random images per run are opened by the real store under catch_unwind and by the model; outcome class, contents, counters, free runs, number of device writes and the bytes of the file afterwards must agree.",
  note="Trusted: as C10. A hang is caught by the harness timeout, not modelled beyond the termination proof of the model; 'a store that opens answers every call' is exercised by get() of every recovered key only. The 16-bit token cannot reject all foreign bytes (the model accepts what the bytes say, like the code).",
  design="6/C17"),
}

NOT_YET = "not claimed yet in this revision: model/proof/correspondence for it is still being built (see DESIGN.md section 9 build order)"

import subprocess
HOOK_COMMITS = subprocess.run(['git','-C','/repo','log','--format=%h %s','8b3c2af..HEAD'],capture_output=True,text=True).stdout.strip().split('\n')

def main():
    checks = []
    for pid in ALL:
        if pid not in CLAIMS:
            continue
        c = CLAIMS[pid]
        checks.append({
            "property_id": pid,
            "quick_cmd": "./check %s quick" % pid,
            "thorough_cmd": "./check %s thorough" % pid,
            "evidence_file": "/verif/evidence/%s.json" % pid,
            "replay_cmd_template": "./check %s --replay {path}" % pid,
            "engine": c["engine"],
            "level_claimed": {"category": "proof", "text": c["text"], "design_ref": "DESIGN.md section " + c["design"]},
            "level_note": c["note"],
            "technique": c["technique"],
        })
    man = {
        "version": 1,
        "setup_cmd": "./setup.sh",
        "hooks": {
            "guard": "--cfg feoxdb_verif (RUSTFLAGS)",
            "enable": "RUSTFLAGS=\"--cfg feoxdb_verif\" cargo build --release --offline (harness crate /verif/harness, path dependency on /repo)",
            "baseline_off_cmd": "cd /repo && cargo test --workspace --no-fail-fast --offline",
            "source_commits": HOOK_COMMITS,
            "add_only": True,
        },
        "engines": [
            {"name": "fsm", "path": "harness/src/bin/fsm.rs + lean/Feox/Fsm", "serves_properties": ["C06"],
             "kind_free_text": "differential correspondence: real FreeSpaceManager vs Lean model through a line protocol"},
            {"name": "kv", "path": "harness/src/bin/kv.rs + lean/Feox/Kv", "serves_properties": ["C01", "C11", "C12", "C13", "C14"],
             "kind_free_text": "differential correspondence: every public FeoxStore method, call by call, vs the Lean reference map"},
            {"name": "cache", "path": "harness/src/bin/cache.rs + lean/Feox/Cache", "serves_properties": ["C16"],
             "kind_free_text": "differential correspondence: real ClockCache vs the Lean cache model"},
            {"name": "fmt", "path": "harness/src/bin/fmt.rs + lean/Feox/Fmt", "serves_properties": ["C10", "C15", "C17"],
             "kind_free_text": "differential correspondence: codec functions and whole-file open/recovery vs the Lean layout model"},
        ],
        "checks": checks,
        "notes": "Every check: regenerate constants from /repo -> lake build the property module (proof obligations) + driver -> #print axioms audit -> cargo build harness against /repo working tree with --cfg feoxdb_verif -> correspondence run -> evidence. See DESIGN.md.",
        "not_applicable": [{"property_id": p, "reason": NOT_YET} for p in ALL if p not in CLAIMS],
    }
    with open(os.path.join(V, "MANIFEST.json"), "w") as f:
        json.dump(man, f, indent=1)
        f.write("\n")

if __name__ == "__main__":
    main()
