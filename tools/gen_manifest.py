#!/usr/bin/env python3
"""Writes MANIFEST.json from the registry below (one entry per claimed property)."""
import json, os
V = os.path.dirname(os.path.dirname(os.path.abspath(__file__)))
ALL = ["C%02d" % i for i in range(1, 21)]

CLAIMS = {
 "C06": dict(
  engine="fsm",
  technique="Lean 4 proof (invariant by induction over call lists) on a hand-written model of FreeSpaceManager + differential correspondence check against the real FreeSpaceManager",
  text="Unbounded machine-checked proof in Lean 4: for the executable model Feox.Fsm of src/storage/free_space.rs the invariant "
       "(runs sorted, pairwise disjoint AND non-adjacent, positive, in bounds, total = sum) holds after every sequence of allocate/release calls "
       "(C06.reachable_inv), with exact specifications of allocate (C06.alloc_spec, alloc_fails_iff, no_fit_iff_no_free_range, alloc_prefix_of_run), "
       "release (release_ok_iff, release_spec, release_error_unchanged) and the statistics (stats_canonical: the run list is a function of the free set). "
       "The model is tied to the code on every run by a differential check on the public FreeSpaceManager (exhaustive small-device call trees + random sequences, "
       "result, error kind and all four getters compared after every call). A theorem is the right level because the property is a pure state-machine invariant over all call sequences.",
  note="Trusted: Lean kernel; axioms propext/Classical.choice/Quot.sound only; gen_constants.py; the harness+driver correspondence (differential testing, so the tie is as strong as its generator: distribution in evidence); u64 modelled as Nat (C06.no_overflow covers devices <= MAX_DEVICE_SIZE); BTreeMap assumed to be an ordered map.",
  design="6/C06"),
 "C10": dict(
  engine="fmt",
  technique="Lean 4 proofs of codec round trips and layout facts on an independent Lean reader/writer of the documented layout + byte-level differential check of the real store's files and codec functions against it (incl. golden files of the pinned release)",
  text="Machine-checked for all inputs: record encode/parse round trip in v1/v2 (record_roundtrip_unstamped) and v3 (record_roundtrip_stamped) incl. value placement and the read-side identity check, "
       "token never zero / ignores the seq field / stamping idempotent / covers continuation blocks, marker round trip and head/marker/zero-block mutual exclusion, journal checksum independent of its own fields, "
       "slot and metadata-copy alternation, newest-valid metadata selection, and the layout/offset facts re-proved from the regenerated Rust constants (layout_disjoint, meta_offsets). "
       "The Lean model Feox.Fmt is an independent implementation of the documented layout: on every run it reads the files the real store wrote in v1/v2/v3 mode (and the committed golden files) "
       "and must find exactly the store's own live keys, timestamps, expiries, value digests, sectors, free runs and counters, and reproduce recovery's writes byte for byte; the crate's CRC/token/stamp/parse/marker/journal/metadata functions are compared with the model on random and directed inputs. A symmetric encoder+decoder change therefore disagrees with Lean although the crate's own round trip still passes.",
  note="Trusted: Lean kernel; axioms propext/Classical.choice/Quot.sound; gen_constants.py; harness+driver correspondence (differential). Not proved: full journal/metadata decode(encode) round trips (checksum-stamp lemma only) and the write path producing the image (tied by the correspondence runs). O_DIRECT and non-selected CRC hardware paths are never executed here.",
  design="6/C10"),
 "C17": dict(
  engine="fmt",
  technique="Lean 4 proofs about a total model of open/recovery over all byte images (termination, no out-of-range index in the decoders, error kinds, rejected-before-any-write) + differential check of the real open on structure-aware damaged images",
  text="Feox.Fmt.recoverImage models the whole of opening a file (size checks, metadata selection, journal decode and replay, the scan loop branch for branch, expired-winner removal, post-scan retirement) as a total Lean function over arbitrary bytes; "
       "every unchecked slice of the Rust decoders is a checked slice with an explicit panic outcome in the model. Proved for all images: the scan terminates (termination checker), the slot/journal decoders never index out of range (decodeSlot_no_panic, decodeJournal_no_panic, from bounds re-proved against the regenerated constants), "
       "the scan ends only with CorruptedRecord/AmbiguousLegacyTombstone/InvalidArgument/DuplicateKey and never panics on whole-block images (scan_error_kinds, scan_no_panic), and an open rejected for size or metadata reasons has issued no write (invalid_size_rejected, bad_metadata_rejected, fail_kinds_before_io). "
       "Tie: thousands of damaged/forged/random images per run are opened by the real store under catch_unwind and by the model; outcome class, contents, counters, free runs, number of device writes and the bytes of the file afterwards must agree.",
  note="Trusted: as C10. A hang is caught by the harness timeout, not modelled beyond the termination proof of the model; 'a store that opens answers every call' is exercised by get() of every recovered key only. The 16-bit token cannot reject all foreign bytes (the model accepts what the bytes say, like the code).",
  design="6/C17"),
}

NOT_YET = "not claimed yet in this revision: model/proof/correspondence for it is still being built (see DESIGN.md section 9 build order)"

import subprocess
HOOK_COMMITS = subprocess.run(['git','-C','/repo','log','--format=%h %s','8b3c2af..HEAD'],capture_output=True,text=True).stdout.strip().split('\n')

def main():
    checks = []
    for pid in ALL:
        if pid not in CLAIMS:
            continue
        c = CLAIMS[pid]
        checks.append({
            "property_id": pid,
            "quick_cmd": "./check %s quick" % pid,
            "thorough_cmd": "./check %s thorough" % pid,
            "evidence_file": "/verif/evidence/%s.json" % pid,
            "replay_cmd_template": "./check %s --replay {path}" % pid,
            "engine": c["engine"],
            "level_claimed": {"category": "proof", "text": c["text"], "design_ref": "DESIGN.md section " + c["design"]},
            "level_note": c["note"],
            "technique": c["technique"],
        })
    man = {
        "version": 1,
        "setup_cmd": "./setup.sh",
        "hooks": {
            "guard": "--cfg feoxdb_verif (RUSTFLAGS)",
            "enable": "RUSTFLAGS=\"--cfg feoxdb_verif\" cargo build --release --offline (harness crate /verif/harness, path dependency on /repo)",
            "baseline_off_cmd": "cd /repo && cargo test --workspace --no-fail-fast --offline",
            "source_commits": HOOK_COMMITS,
            "add_only": True,
        },
        "engines": [
            {"name": "fsm", "path": "harness/src/bin/fsm.rs + lean/Feox/Fsm", "serves_properties": ["C06"],
             "kind_free_text": "differential correspondence: real FreeSpaceManager vs Lean model through a line protocol"},
            {"name": "fmt", "path": "harness/src/bin/fmt.rs + lean/Feox/Fmt", "serves_properties": ["C10", "C17"],
             "kind_free_text": "differential correspondence: codec functions and whole-file open/recovery vs the Lean layout model"},
        ],
        "checks": checks,
        "notes": "Every check: regenerate constants from /repo -> lake build the property module (proof obligations) + driver -> #print axioms audit -> cargo build harness against /repo working tree with --cfg feoxdb_verif -> correspondence run -> evidence. See DESIGN.md.",
        "not_applicable": [{"property_id": p, "reason": NOT_YET} for p in ALL if p not in CLAIMS],
    }
    with open(os.path.join(V, "MANIFEST.json"), "w") as f:
        json.dump(man, f, indent=1)
        f.write("\n")

if __name__ == "__main__":
    main()
