#!/usr/bin/env python3
"""Writes MANIFEST.json from the registry below (one entry per claimed property)."""
import json, os
V = os.path.dirname(os.path.dirname(os.path.abspath(__file__)))
ALL = ["C%02d" % i for i in range(1, 21)]

CLAIMS = {
 "C06": dict(
  engine="fsm",
  technique="Lean 4 proof (invariant by induction over call lists) on a hand-written model of FreeSpaceManager + differential correspondence check against the real FreeSpaceManager",
  text="Unbounded machine-checked proof in Lean 4: for the executable model Feox.Fsm of src/storage/free_space.rs the invariant "
       "(runs sorted, pairwise disjoint AND non-adjacent, positive, in bounds, total = sum) holds after every sequence of allocate/release calls "
       "(C06.reachable_inv), with exact specifications of allocate (C06.alloc_spec, alloc_fails_iff, no_fit_iff_no_free_range, alloc_prefix_of_run), "
       "release (release_ok_iff, release_spec, release_error_unchanged) and the statistics (stats_canonical: the run list is a function of the free set). "
       "The model is tied to the code on every run by a differential check on the public FreeSpaceManager (exhaustive small-device call trees + random sequences, "
       "result, error kind and all four getters compared after every call). A theorem is the right level because the property is a pure state-machine invariant over all call sequences.",
  note="Trusted: Lean kernel; axioms propext/Classical.choice/Quot.sound only; gen_constants.py; the harness+driver correspondence (differential testing, so the tie is as strong as its generator: distribution in evidence); u64 modelled as Nat (C06.no_overflow covers devices <= MAX_DEVICE_SIZE); BTreeMap assumed to be an ordered map.",
  design="6/C06"),
}

NOT_YET = "not claimed yet in this revision: model/proof/correspondence for it is still being built (see DESIGN.md section 9 build order)"

def main():
    checks = []
    for pid in ALL:
        if pid not in CLAIMS:
            continue
        c = CLAIMS[pid]
        checks.append({
            "property_id": pid,
            "quick_cmd": "./check %s quick" % pid,
            "thorough_cmd": "./check %s thorough" % pid,
            "evidence_file": "/verif/evidence/%s.json" % pid,
            "replay_cmd_template": "./check %s --replay {path}" % pid,
            "engine": c["engine"],
            "level_claimed": {"category": "proof", "text": c["text"], "design_ref": "DESIGN.md section " + c["design"]},
            "level_note": c["note"],
            "technique": c["technique"],
        })
    man = {
        "version": 1,
        "setup_cmd": "./setup.sh",
        "hooks": {
            "guard": "--cfg feoxdb_verif (RUSTFLAGS)",
            "enable": "RUSTFLAGS=\"--cfg feoxdb_verif\" cargo build --release --offline (harness crate /verif/harness, path dependency on /repo)",
            "baseline_off_cmd": "cd /repo && cargo test --workspace --no-fail-fast --offline",
            "source_commits": [],
            "add_only": True,
        },
        "engines": [
            {"name": "fsm", "path": "harness/src/bin/fsm.rs + lean/Feox/Fsm", "serves_properties": ["C06"],
             "kind_free_text": "differential correspondence: real FreeSpaceManager vs Lean model through a line protocol"},
        ],
        "checks": checks,
        "notes": "Every check: regenerate constants from /repo -> lake build the property module (proof obligations) + driver -> #print axioms audit -> cargo build harness against /repo working tree with --cfg feoxdb_verif -> correspondence run -> evidence. See DESIGN.md.",
        "not_applicable": [{"property_id": p, "reason": NOT_YET} for p in ALL if p not in CLAIMS],
    }
    with open(os.path.join(V, "MANIFEST.json"), "w") as f:
        json.dump(man, f, indent=1)
        f.write("\n")

if __name__ == "__main__":
    main()
