"""C04 — see DESIGN.md section 6."""
from proto_engine import *
import fmt_engine


def reccut_stage(ctx, cov):
    """recovery restarted on TTL devices with several generations per key: recovery's own write
    trace is cut at every write and the device recovered again (fmt harness section `reccut`)"""
    ok, out = cargo_build(ctx, ["fmt"])
    if not ok:
        return
    quick = ctx.tier == "quick"
    outs = fmt_engine.run_fmt(ctx, ["reccut"], 8 if quick else 16, ["workloads=%d" % (4 if quick else 40), "mutations=6", "big=%d" % (1100 if quick else 1500)])
    kinds = fmt_engine.merge_hist(outs)
    reported = 0
    for o in outs:
        if "crash" in o:
            violation(ctx, "fmt harness (recovery cuts on multi-generation TTL devices) did not finish: " + o["crash"], o["crash"], tag="crash")
            continue
        for l in read_lines(os.path.join(o["dir"], "fmt.oracle")):
            if reported < 2:
                reported += 1
                toks = []
                for t in l.split(" "):
                    if t.startswith("/dev/shm/") and os.path.exists(t):
                        t = keep_file(ctx, t, "reccut%d" % reported)
                    toks.append(t)
                violation(ctx, "recovery is not idempotent / restartable: " + " ".join(toks)[:500], "# %s\n" % " ".join(toks), tag="reccut")
    if not any(k.startswith("reccut-big-image-") and not k.startswith("reccut-big-image-0-") and not k.startswith("reccut-big-image-1-") for k in kinds):
        violation(ctx, "the large-retirement device (more than 1024 separate extents to retire in one recovery) was not produced by the harness", "kinds: %r\n" % kinds, no_input=True, tag="reccut-big")
    gl = gd = 0
    for o in outs:
        if "crash" in o:
            continue
        for op, im, mo in zip(o["ops"], o["impl"], o["model"]):
            if not op.startswith("fmt gens"):
                continue
            gl += 1
            if im != mo:
                gd += 1
                if gd <= 2:
                    violation(ctx, "correspondence: what the real recovery exposes differs from the generation-level model Feox.Proto.Gens.exposed on a multi-generation TTL device",
                              "%s\n# implementation: %s\n# model         : %s\n" % (op, im, mo), no_input=True, tag="gens")
    cov["generation_model_lines"] = gl
    cov["generation_model_differences"] = gd
    n = kinds.get("reccut-restart", 0)
    ctx.log("generation-level model: %d devices compared with the real recovery, %d differing" % (gl, gd))
    ctx.log("recovery-cut stage: %d restarted recoveries on multi-generation TTL devices, %d differing" % (n, reported))
    cov["ttl_recovery_restarts"] = n
    cov["ttl_recovery_cut_histogram"] = {k: v for k, v in kinds.items() if k.startswith("reccut")}

MODULE = "Feox.Props.C04W"
THEOREMS = ['Feox.Fmt.crashed_open_twice_slot0', 'Feox.Fmt.crashed_open_twice_slot1', 'Feox.Fmt.journal_clear_after_replay_slot1', 'Feox.Fmt.journal_clear_after_replay_slot0', 'Feox.Fmt.replayIo_low_blocks', 'Feox.Fmt.not_blank_of_signature', 'Feox.Fmt.reopen_after_crashed_open', 'Feox.Fmt.replayIo_keeps_metadata', 'Feox.Fmt.crashed_open_restores_clean_rep', 'Feox.C04.open_of_clean_device_is_pure', 'Feox.Fmt.recover_clean_image', 'Feox.Fmt.scan_clean_retired', 'Feox.C04.loser_retirement_invisible_on_bytes', 'Feox.Fmt.fold_filter_same', 'Feox.Fmt.winner_filter_same', 'Feox.C04.recovery_retirement_restartable', 'Feox.C04.expired_first_resurrects', 'Feox.C04.recovery_restartable_later', 'Feox.C04.drop_expired_before_selection_resurrects', 'Feox.Proto.Gens.winner_filter_of_winners_kept', 'Feox.Proto.Gens.exposed_filter_of_single', 'Feox.C04.replay_restartable', 'Feox.C04.replay_idempotent', 'Feox.C04.repairs_touch_no_live', 'Feox.C04.loser_retirement_restartable', 'Feox.C04.winner_depends_on_disk_only', 'Feox.Proto.maskRun_idem']


def run(ctx):
    return proto_check(ctx, MODULE, THEOREMS, ['crash'], ['workloads=4', 'budget=8'], ['workloads=20', 'budget=40'], ['C04'], "recovery is not idempotent / restartable", [
        "kernel / file system: a write either fails or lands; a completed fsync makes every earlier write durable; a crash loses or tears (512 B) any subset of the un-synced writes only",
        "TornDetect: a torn journal slot / metadata block fails its checksum or equals the old or the new image (DESIGN.md section 2) — a hypothesis, not an axiom",
        "the abstract disk (Feox.Proto.Disk) is related to bytes by the Lean reader Feox.Fmt.recoverImage, itself compared with the real recovery on every crash image of this run",
        "faults are injected at the I/O hook (synchronous path; io_uring disabled), not in the kernel",
        "recovery cuts on TTL devices with several generations per key (expired / live / no expiry at recovery time, built by copying a real record to a free block): every write of recovery's own trace is a cut, with all issued writes landed or only the fsynced ones plus a random subset; one device per process with more than 1024 separate extents to retire (expired keys interleaved with live ones, the lowest expired winner has an older generation in the last block), cut at every journal write and a sample of the marker writes",
    ], lambda op: op.startswith("fmt recover") or op.startswith("txn "), pre_finish=reccut_stage)
