"""C04 — see DESIGN.md section 6."""
from proto_engine import *
import fmt_engine


def reccut_stage(ctx, cov):
    """recovery restarted on TTL devices with several generations per key: recovery's own write
    trace is cut at every write and the device recovered again (fmt harness section `reccut`)"""
    ok, out = cargo_build(ctx, ["fmt"])
    if not ok:
        return
    quick = ctx.tier == "quick"
    outs = fmt_engine.run_fmt(ctx, ["reccut"], 8 if quick else 16, ["workloads=%d" % (4 if quick else 40), "mutations=6"])
    kinds = fmt_engine.merge_hist(outs)
    reported = 0
    for o in outs:
        if "crash" in o:
            violation(ctx, "fmt harness (recovery cuts on multi-generation TTL devices) did not finish: " + o["crash"], o["crash"], tag="crash")
            continue
        for l in read_lines(os.path.join(o["dir"], "fmt.oracle")):
            if reported < 2:
                reported += 1
                toks = []
                for t in l.split(" "):
                    if t.startswith("/dev/shm/") and os.path.exists(t):
                        t = keep_file(ctx, t, "reccut%d" % reported)
                    toks.append(t)
                violation(ctx, "recovery is not idempotent / restartable: " + " ".join(toks)[:500], "# %s\n" % " ".join(toks), tag="reccut")
    n = kinds.get("reccut-restart", 0)
    ctx.log("recovery-cut stage: %d restarted recoveries on multi-generation TTL devices, %d differing" % (n, reported))
    cov["ttl_recovery_restarts"] = n
    cov["ttl_recovery_cut_histogram"] = {k: v for k, v in kinds.items() if k.startswith("reccut")}

MODULE = "Feox.Props.C04"
THEOREMS = ['Feox.C04.replay_restartable', 'Feox.C04.replay_idempotent', 'Feox.C04.repairs_touch_no_live', 'Feox.C04.loser_retirement_restartable', 'Feox.C04.winner_depends_on_disk_only', 'Feox.Proto.maskRun_idem']


def run(ctx):
    return proto_check(ctx, MODULE, THEOREMS, ['crash'], ['workloads=4', 'budget=8'], ['workloads=20', 'budget=40'], ['C04'], "recovery is not idempotent / restartable", [
        "kernel / file system: a write either fails or lands; a completed fsync makes every earlier write durable; a crash loses or tears (512 B) any subset of the un-synced writes only",
        "TornDetect: a torn journal slot / metadata block fails its checksum or equals the old or the new image (DESIGN.md section 2) — a hypothesis, not an axiom",
        "the abstract disk (Feox.Proto.Disk) is related to bytes by the Lean reader Feox.Fmt.recoverImage, itself compared with the real recovery on every crash image of this run",
        "faults are injected at the I/O hook (synchronous path; io_uring disabled), not in the kernel",
        "recovery cuts on TTL devices with several generations per key (expired / live / no expiry at recovery time, built by copying a real record to a free block): every write of recovery's own trace is a cut, with all issued writes landed or only the fsynced ones plus a random subset",
    ], lambda op: op.startswith("fmt recover"), pre_finish=reccut_stage)
