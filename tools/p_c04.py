"""C04 — see DESIGN.md section 6."""
from proto_engine import *

MODULE = "Feox.Props.C04"
THEOREMS = ['Feox.C04.replay_restartable', 'Feox.C04.replay_idempotent', 'Feox.C04.repairs_touch_no_live', 'Feox.C04.loser_retirement_restartable', 'Feox.C04.winner_depends_on_disk_only', 'Feox.Proto.maskRun_idem']


def run(ctx):
    return proto_check(ctx, MODULE, THEOREMS, ['crash'], ['workloads=4', 'budget=8'], ['workloads=20', 'budget=40'], ['C04'], "recovery is not idempotent / restartable", [
        "kernel / file system: a write either fails or lands; a completed fsync makes every earlier write durable; a crash loses or tears (512 B) any subset of the un-synced writes only",
        "TornDetect: a torn journal slot / metadata block fails its checksum or equals the old or the new image (DESIGN.md section 2) — a hypothesis, not an axiom",
        "the abstract disk (Feox.Proto.Disk) is related to bytes by the Lean reader Feox.Fmt.recoverImage, itself compared with the real recovery on every crash image of this run",
        "faults are injected at the I/O hook (synchronous path; io_uring disabled), not in the kernel",
    ], lambda op: op.startswith("fmt recover"))
