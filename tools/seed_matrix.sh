#!/bin/bash
# seed_matrix.sh: applies every seeded change to /repo in turn, runs the quick check of its
# property (plus any extra ones named in seeded/<id>/also), undoes it, and records the outcome.
cd /verif
OUT=seeded/MATRIX.txt
[ -n "$START" ] || : > $OUT
git -C /repo status --short | grep -q . && { echo "/repo not clean"; exit 1; }
for d in seeded/*-*/; do
  id=$(basename $d); prop=${id%%-*}
  [ -n "$START" ] && [[ "$id" < "$START" ]] && continue
  if ! git -C /repo apply --check $PWD/$d/patch.diff 2>/dev/null; then echo "$id: patch does not apply" >> $OUT; continue; fi
  git -C /repo apply $PWD/$d/patch.diff
  for p in $prop $(cat $d/also 2>/dev/null); do
    r=$(./check $p quick 2>&1 | grep -E "^(OK|VIOLATION)" | head -1 | cut -c1-220)
    echo "$id: check $p -> $r" >> $OUT
  done
  [ -f $d/neutralised ] && echo "$id: NOTE $(cat $d/neutralised)" >> $OUT
  git -C /repo checkout -- .
done
# behaviour-preserving changes (seeded/neutral/<name>/patch.diff): every listed check must stay quiet
while read -r line; do
  n=${line%%:*}; d=seeded/neutral/$n
  [ -f $d/patch.diff ] || continue
  if ! git -C /repo apply --check $PWD/$d/patch.diff 2>/dev/null; then echo "neutral $n: patch does not apply" >> $OUT; continue; fi
  git -C /repo apply $PWD/$d/patch.diff
  for p in ${line#*:}; do
    r=$(./check $p quick 2>&1 | grep -E "^(OK|VIOLATION)" | head -1 | cut -c1-220)
    echo "neutral $n: check $p -> $r" >> $OUT
  done
  git -C /repo checkout -- .
done < seeded/neutral/checks.txt
git -C /repo status --short
# the translators ran on the changed trees: bring the generated Lean files back to /repo's own state
python3 tools/gen_constants.py > /dev/null; python3 tools/gen_locks.py > /dev/null; python3 tools/gen_loops.py > /dev/null; python3 tools/gen_epoch.py > /dev/null; python3 tools/gen_unsafe.py > /dev/null
cat $OUT
