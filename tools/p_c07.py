"""C07 — see DESIGN.md section 6."""
from conc_engine import *

MODULE = "Feox.Props.C07"
THEOREMS = ['Feox.C07.linearizable', 'Feox.C07.linearization_points', 'Feox.C07.state_changes_only_at_commits', 'Feox.C07.real_time_order',
            'Feox.C07.refusal_is_permitted', 'Feox.C07.never_lands_on_newer', 'Feox.C07.incr_adds',
            'Feox.C07.if_absent_single_winner', 'Feox.C07.cas_success_changes_generation',
            'Feox.Conc.step_sim', 'Feox.Conc.reachable_inv', 'Feox.Conc.replay_linUpTo', 'Feox.Conc.linUpTo_perm']

ASSUME = [
    "guard atomicity: everything a call does while it holds the bucket entry of its key (hash_table.entry) is one atomic step with respect to other calls on that key (scc::HashMap entry locking); atomics are sequentially consistent at the granularity of the modelled accesses",
    "the model is per key, TTL off; values are read from the generation (the persistent read path is C08's subject)",
    "the scheduler of the tie interleaves at the hooked scheduling points only; races inside a guarded step are not produced by it - they are probed by the free-running histories, which are judged by a brute-force linearizability search against the specification (a search, not a proof)",
]


def run(ctx):
    if ctx.replay:
        bad = conc_replay(ctx, ctx.replay)
        return 1 if bad else 0
    return conc_check(ctx, MODULE, THEOREMS, ['C07'], "concurrent history", ASSUME, extra_quick=('cases=150', 'exhaust=4', 'cap=300'), extra_thorough=('cases=4000', 'exhaust=60', 'cap=3000'), pre_finish=stress_stage)
