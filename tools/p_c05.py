"""C05 — see DESIGN.md section 6."""
from proto_engine import *
import kv_engine

MODULE = "Feox.Props.C05W"
THEOREMS = ['Feox.Fmt.crashed_front_write_space_safe', 'Feox.Fmt.recover_crashed_image_space', 'Feox.C05.released_space_is_reusable_on_bytes', 'Feox.C05.device_partitioned_by_index', 'Feox.Fmt.repTiled_sound', 'Feox.Fmt.tileOf_sound', 'Feox.Fmt.repB_sound', 'Feox.C05.accept_part', 'Feox.C05.accepted_trace_part', 'Feox.C05.partition_after_any_history', 'Feox.C05.apply_part', 'Feox.C05.release_valid', 'Feox.C05.partition', 'Feox.C05.extents_disjoint_in_bounds', 'Feox.C05.no_cross_damage', 'Feox.C05.empty_is_fresh', 'Feox.C05.no_leak', 'Feox.Proto.TiledBy.partition', 'Feox.Proto.TiledBy.recs']


def leftover_partition_stage(ctx, cov):
    """the ownership partition right after a recovery of what a crash between a replacement's commit and the old
    extent's retirement leaves (two intact generations of a key, in either order on the device): judged on the real
    store's own report alone - the extents of the keys it indexed and the free runs it rebuilt must tile the data area,
    and the usage counter must be the live total"""
    import fmt_engine, re
    ok, out = cargo_build(ctx, ["fmt"])
    if not ok:
        return
    outs = fmt_engine.run_fmt(ctx, ["dupgen"], 6, ["workloads=%d" % (4 if ctx.tier == "quick" else 60), "mutations=8"])
    n = bad = 0
    for o in outs:
        if "crash" in o:
            violation(ctx, "fmt harness (two-generation devices) did not finish: " + o["crash"], o["crash"], tag="crash")
            continue
        for op, im in zip(o["ops"], o["impl"]):
            if not op.startswith("fmt recover") or not im.startswith("ok "):
                continue
            m = re.search(r"^ok v=(\d+) .* disk=(\d+) .*live=\[([^\]]*)\] free=\[([^\]]*)\]", im)
            path = op.split(" ")[2]
            if not m or not os.path.exists(path):
                continue
            n += 1
            v, disk = int(m.group(1)), int(m.group(2))
            blocks = os.path.getsize(path) // 4096
            hdr = 22 if v == 1 else 30
            owner, why = {}, None
            total = 0
            for t in [t for t in m.group(3).split(",") if t]:
                f = t.split(":")
                k, vlen, sec = len(f[0]) // 2, int(f[3]), int(f[4])
                nb = max(1, -(-(hdr + k + vlen) // 4096))
                total += nb
                for b in range(sec, sec + nb):
                    if b < 16 or b >= blocks:
                        why = why or "the extent of key %s leaves the data area (block %d)" % (f[0][:24], b)
                    elif b in owner:
                        why = why or "block %d belongs to two live extents" % b
                    owner[b] = f[0]
            free = set()
            for t in [t for t in m.group(4).split(",") if t and t != "-"]:   # (an empty free list is printed as `-`)
                a, c = [int(x) for x in t.split(":")]
                for b in range(a, a + c):
                    if b in owner or b in free or b < 16 or b >= blocks:
                        why = why or "free run %d+%d overlaps a live extent / another run or leaves the data area at block %d" % (a, c, b)
                    free.add(b)
            lost = [b for b in range(16, blocks) if b not in owner and b not in free]
            if lost:
                why = why or "%d data blocks are neither live nor free (leaked), first %d" % (len(lost), lost[0])
            if disk != total * 4096:
                why = why or "disk usage counter %d != live total %d" % (disk, total * 4096)
            if why:
                bad += 1
                if bad <= 2:
                    kept = fmt_engine.save_case(ctx, op, "leftover%d" % bad)
                    violation(ctx, "after recovering a device that holds two intact generations of a key: " + why,
                              "# image (as it was before the open): see the path in the line below\n%s\n# the store's own report: %s\n" % (kept, im[:900]), tag="leftover")
    fmt_engine.rep_lines(ctx, outs, cov, "after recovering a device that holds two intact generations of a key")
    ctx.log("leftover partition stage: %d recovered two-generation devices, %d with a broken partition" % (n, bad))
    cov["two_generation_devices_partitioned"] = n
    cov["two_generation_partition_failures"] = bad


def run(ctx):
    return proto_check(ctx, MODULE, THEOREMS, ['partition', 'crash'], ['partitions=4', 'workloads=1', 'budget=6'], ['partitions=40', 'workloads=6', 'budget=20'], ['C05'], "block ownership / counters / reuse", [
        "kernel / file system: a write either fails or lands; a completed fsync makes every earlier write durable; a crash loses or tears (512 B) any subset of the un-synced writes only",
        "TornDetect: a torn journal slot / metadata block fails its checksum or equals the old or the new image (DESIGN.md section 2) — a hypothesis, not an axiom",
        "the abstract disk (Feox.Proto.Disk) is related to bytes by the Lean reader Feox.Fmt.recoverImage, itself compared with the real recovery on every crash image of this run",
        "faults are injected at the I/O hook (synchronous path; io_uring disabled), not in the kernel",
        "recovered two-generation devices (fmt harness, built from real devices by copying a record with another timestamp / expiry / length, in either order): the partition is computed from the real store's own report (indexed extents, rebuilt free runs, usage counter)",
        "the standing invariants (ownership partition, counters, MarkOK after every acknowledged flush and reopen) are also evaluated by the kv harness on every store configuration and format version",
    ], lambda op: op.startswith("fmt recover") or op.startswith("space "), pre_finish=lambda c, cov: (kv_engine.inv_stage(c, cov), leftover_partition_stage(c, cov)))
