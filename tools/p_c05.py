"""C05 — see DESIGN.md section 6."""
from proto_engine import *
import kv_engine

MODULE = "Feox.Props.C05"
THEOREMS = ['Feox.C05.accept_part', 'Feox.C05.accepted_trace_part', 'Feox.C05.partition_after_any_history', 'Feox.C05.apply_part', 'Feox.C05.release_valid', 'Feox.C05.partition', 'Feox.C05.extents_disjoint_in_bounds', 'Feox.C05.no_cross_damage', 'Feox.C05.empty_is_fresh', 'Feox.C05.no_leak', 'Feox.Proto.TiledBy.partition', 'Feox.Proto.TiledBy.recs']


def run(ctx):
    return proto_check(ctx, MODULE, THEOREMS, ['partition', 'crash'], ['partitions=4', 'workloads=1', 'budget=6'], ['partitions=40', 'workloads=6', 'budget=20'], ['C05'], "block ownership / counters / reuse", [
        "kernel / file system: a write either fails or lands; a completed fsync makes every earlier write durable; a crash loses or tears (512 B) any subset of the un-synced writes only",
        "TornDetect: a torn journal slot / metadata block fails its checksum or equals the old or the new image (DESIGN.md section 2) — a hypothesis, not an axiom",
        "the abstract disk (Feox.Proto.Disk) is related to bytes by the Lean reader Feox.Fmt.recoverImage, itself compared with the real recovery on every crash image of this run",
        "faults are injected at the I/O hook (synchronous path; io_uring disabled), not in the kernel",
        "the standing invariants (ownership partition, counters, MarkOK after every acknowledged flush and reopen) are also evaluated by the kv harness on every store configuration and format version",
    ], lambda op: op.startswith("fmt recover") or op.startswith("space "), pre_finish=lambda c, cov: kv_engine.inv_stage(c, cov))
