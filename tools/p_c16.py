"""C16 — the read cache is transparent and its accounting exact."""
import json, os, subprocess, hashlib
from concurrent.futures import ThreadPoolExecutor
from checklib import *
import kv_engine

MODULE = "Feox.Cache.Evict"   # imports Feox.Props.C16 and adds the eviction-target theorem
THEOREMS = [
    "Feox.C16.ttl_change_carries_the_value", "Feox.C16.loose_pick_resurrects", "Feox.Kv.TtlCarry.step_inv", "Feox.Kv.TtlCarry.step_value",
    "Feox.C16.accounting", "Feox.C16.hit_is_own_generation", "Feox.C16.large_values_rejected",
    "Feox.C16.retired_generation_never_replaces", "Feox.C16.replace_needs_newer", "Feox.C16.sweepBucket_size",
    "Feox.C16.insert_inv", "Feox.C16.get_inv", "Feox.C16.remove_inv", "Feox.C16.evict_inv", "Feox.C16.clear_inv",
    "Feox.C16.adjust_inv", "Feox.C16.real_bucket_count_positive", "Feox.C16.second_chance", "Feox.C16.evicted_was_unreferenced", "Feox.C16.evict_reaches_low", "Feox.C16.full_pass", "Feox.C16.sweepBucket_full",
    "Feox.C16.cache_moves_invisible", "Feox.C16.cached_value_is_current",
]


def run_cache(ctx, procs, cases):
    def one(i):
        d = os.path.join(ctx.scratch, "cache%d" % i)
        os.makedirs(d, exist_ok=True)
        r = subprocess.run([harness_bin("cache"), "--seed", str(ctx.seed * 1000 + i), "--tier", ctx.tier, "--out", d, "cases=%d" % cases],
                           stdout=subprocess.PIPE, stderr=subprocess.PIPE, timeout=3000)
        if r.returncode != 0:
            return {"crash": "exit %d: %s" % (r.returncode, r.stderr.decode(errors="replace")[-800:])}
        run_driver(os.path.join(d, "cache.ops"), os.path.join(d, "cache.model"))
        return {"ops": read_lines(os.path.join(d, "cache.ops")), "impl": read_lines(os.path.join(d, "cache.impl")),
                "model": read_lines(os.path.join(d, "cache.model")), "oracle": read_lines(os.path.join(d, "cache.oracle")),
                "meta": json.load(open(os.path.join(d, "cache.meta.json")))}
    with ThreadPoolExecutor(max_workers=procs) as ex:
        return list(ex.map(one, range(procs)))


def case_of(ops, n):
    s = n
    while s > 0 and not ops[s].startswith("cache new"):
        s -= 1
    return ops[s:n + 1]


def run(ctx):
    pr = prove(ctx, MODULE, THEOREMS)
    ok, out = cargo_build(ctx, ["cache", "kv"])
    cov0 = lambda extra: proof_coverage(pr, "cd lean && lake build %s feoxdrv && #print axioms audit" % MODULE, TRUSTED_COMMON, extra)
    if not ok:
        violation(ctx, "harness does not build against /repo's working tree", out[-3000:], no_input=True, tag="build")
        return finish(ctx, "proof", cov0({"explanation": "harness build failed"}), [])
    for f in pr["failures"]:
        violation(ctx, "proof obligation not discharged: " + f, "theorem/obligation that no longer checks: %s\n" % f, no_input=True, tag="proof")
    outs = run_cache(ctx, 6 if ctx.tier == "quick" else 16, 6 if ctx.tier == "quick" else 60)
    lines = diffs = reported = 0
    hist = {}
    samples = []
    distinct = set()
    for o in outs:
        if "crash" in o:
            violation(ctx, "cache harness crashed (a panic inside ClockCache aborts it): " + o["crash"], o["crash"], tag="crash")
            continue
        lines += len(o["ops"])
        for k, v in o["meta"]["ops"].items():
            hist[k] = hist.get(k, 0) + v
        for l in o["oracle"][:2]:
            if reported < 3:
                reported += 1
                import re
                if l.startswith("fillrace="):
                    violation(ctx, "cache property fails on the implementation under concurrent fills: " + l,
                              "# re-run: harness/target/release/cache --seed %d --tier %s --out DIR cases=0\n# %s\n" % (ctx.seed * 1000 + outs.index(o), ctx.tier, l), tag="fillrace")
                    continue
                n = int(re.search(r"line=(\d+)", l).group(1))
                case = case_of(o["ops"], min(n, len(o["ops"]) - 1))
                violation(ctx, "cache property fails on the implementation: " + l, "".join(x + "\n" for x in case) + "# " + l + "\n")
        for i, (a, b, c) in enumerate(zip(o["ops"], o["impl"], o["model"])):
            distinct.add(hashlib.sha1((a + b).encode()).digest())
            if b != c:
                diffs += 1
                if reported < 3 and not o["oracle"]:
                    reported += 1
                    case = case_of(o["ops"], i)
                    violation(ctx, "correspondence stream 'cache' no longer checks: ClockCache and Feox.Cache disagree "
                              "(no accounting / remove-then-hit / eviction-target failure observed on the implementation in this run)",
                              "".join(x + "\n" for x in case) + "# impl : %s\n# model: %s\n" % (b, c), no_input=True)
                break
        if not samples:
            samples = [o["ops"][200:230]]
    ctx.log("cache: %d lines, %d differing streams" % (lines, diffs))
    # store level: every kv configuration (cache on and off) against the same reference map
    kouts = kv_engine.run_kv(ctx, 6 if ctx.tier == "quick" else 16, 6 if ctx.tier == "quick" else 60)
    klines = kcases = kdiffs = 0
    for o in kouts:
        if "crash" in o:
            violation(ctx, "kv harness crashed: " + o["crash"], o["crash"], tag="crash")
            continue
        klines += len(o["ops"])
        for case in kv_engine.split_cases(o["ops"], o["impl"], o["model"]):
            kcases += 1
            idx = kv_engine.first_mismatch(case)
            if idx is not None:
                kdiffs += 1
                if reported < 3 and "cache=1" in case["ops"][0]:
                    reported += 1
                    small, r = kv_engine.shrink_case(ctx, case, idx)
                    txt = "".join(l + "\n" for l in (r[0] if r else small))
                    if r:
                        txt += "# implementation:\n" + "".join("# " + l + "\n" for l in r[1]) + "# reference:\n" + "".join("# " + l + "\n" for l in r[2])
                    violation(ctx, "with the read cache enabled a call returns something else than the reference map (cache transparency)", txt)
    ctx.log("kv (cache on/off): %d lines, %d cases, %d with a difference" % (klines, kcases, kdiffs))
    tcov = {}
    # readers parked inside their device read while the key is replaced / deleted, cache on: afterwards the cache copy
    # of the indexed generation must equal its device copy and the key must read as the new value
    import conc_engine
    ok2, _ = cargo_build(ctx, ["conc"])
    if ok2:
        routs = conc_engine.run_conc(ctx, 4, ["cases=0", "races=%d" % (10 if ctx.tier == "quick" else 150)])
        nr = 0
        for o in routs:
            if "crash" in o:
                violation(ctx, "conc harness did not finish: " + o["crash"], o["crash"], tag="crash")
                continue
            for f in o["fails"]:
                if f["prop"] == "C16":
                    nr += 1
                    if nr <= 2:
                        violation(ctx, "read cache under a read / replace race: " + f["what"], "# re-run: harness/target/release/conc --seed %d cases=0 races=...\n# %s\n" % (ctx.seed * 1000 + routs.index(o), f["what"]), tag="race")
        tcov["cache_race_failures"] = nr
    kv_engine.tier_stage(ctx, kouts, tcov)
    kv_engine.inv_stage(ctx, tcov, kouts)
    cov = cov0({
        "evaluations": lines + klines, "distinct_nontrivial": len(distinct),
        "rule": "cache engine: random insert / insert_for_record / get / get_for_record / remove / remove_for_record / evict / clear / adjust sequences on the real ClockCache "
                "with 1-3 MB watermarks, 1 B..800 KB values, generations that are retired (refcount 0) or dropped (Weak dead) while cached; every answer, cache_memory after every call, "
                "and the full entry listing (bucket, key, tag, reference bit, size, eviction count) compared with Feox.Cache; independently the harness checks reported memory = sum of held sizes, "
                "no hit after an explicit remove, usage <= low watermark after an eviction. kv engine: all store configurations incl. cache on/off against the same reference. Distinct = SHA-1 of (op, answer).",
        "samples": samples, "cache_op_histogram": hist, "cache_stream_differences": diffs, "kv_cases": kcases, "kv_cases_with_difference": kdiffs,
        "traces_validated_against_impl": len(outs) + kcases,
    })
    cov.update(tcov)
    return finish(ctx, "proof", cov, [
        "store-level transparency: Feox.Kv.Tiers proves that a cache entry tagged with the indexed generation holds that generation's value in every reachable state and that cache fill / eviction are invisible to reads (C16.cache_moves_invisible); the real store is tied to that model as a monitor (verif_tiers after every call: the cache copy of a generation equals its resident / device copy, observed moves are moves of the model) and by the kv differential runs with the cache on and off against one reference map",
        "`eviction reaches the low watermark` is proved for the model's single-threaded evict (evict_reaches_low: two full passes of the hand suffice, MAX_SCANS = 3) and checked on the implementation by the harness oracle; concurrent gets that re-set reference bits during an eviction are outside the model",
        "the bucket hash is abstract in the theorems (any hash); the driver instantiates it with murmur3_32, itself compared with the crate's",
        "concurrent readers/writers are outside this engine",
    ])
