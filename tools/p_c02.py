"""C02 — see DESIGN.md section 6."""
from proto_engine import *

MODULE = "Feox.Props.C02W"
THEOREMS = ['Feox.Fmt.acknowledged_key_found_after_crashed_open', 'Feox.Fmt.unretired_key_found_after_crashed_retirement', 'Feox.Fmt.findLive_fold_of_nodup', 'Feox.Fmt.recover_crashed_front_write', 'Feox.Fmt.span_avoids_front_alloc', 'Feox.Fmt.recover_crashed_write', 'Feox.Fmt.recover_crashed_retirement', 'Feox.Fmt.survivors_of_retirement', 'Feox.Fmt.span_avoids_retired', 'Feox.Fmt.crashed_open_end_to_end_slot1', 'Feox.Fmt.crashed_open_end_to_end_slot0', 'Feox.Fmt.journal_area_eq', 'Feox.Fmt.recover_crashed_device_journalled', 'Feox.Fmt.coalesceExtents_spec', 'Feox.Fmt.replayIo_ok', 'Feox.Fmt.recover_crashed_device', 'Feox.Fmt.marksClean_replayed', 'Feox.Fmt.recover_crashed_image', 'Feox.C02.acknowledged_record_survives_crash', 'Feox.Fmt.replay_io_on_bytes', 'Feox.C02.ack_durable', 'Feox.C02.acked_delete_gone', 'Feox.C02.acked_value_is_the_only_durable', 'Feox.C02.ack_needs_drained', 'Feox.C02.retire_needs_successor', 'Feox.Proto.Dur.step_inv', 'Feox.Proto.Dur.run_inv', 'Feox.Proto.scan_tiled']


def run(ctx):
    return proto_check(ctx, MODULE, THEOREMS, ['crash', 'hazard'], ['workloads=4', 'budget=8', 'hazards=3', 'cflush=2'], ['workloads=20', 'budget=40', 'hazards=20', 'cflush=30'], ['C02'], "acknowledged data did not survive a crash", [
        "kernel / file system: a write either fails or lands; a completed fsync makes every earlier write durable; a crash loses or tears (512 B) any subset of the un-synced writes only",
        "TornDetect: a torn journal slot / metadata block fails its checksum or equals the old or the new image (DESIGN.md section 2) — a hypothesis, not an axiom",
        "the abstract disk (Feox.Proto.Disk) is related to bytes by the Lean reader Feox.Fmt.recoverImage, itself compared with the real recovery on every crash image of this run",
        "faults are injected at the I/O hook (synchronous path; io_uring disabled), not in the kernel",
    ], lambda op: op.startswith("dur ") or op.startswith("txn "), pre_finish=lambda c, cov: __import__("kv_engine").inv_stage(c, cov))
