#!/usr/bin/env python3
"""Translator: regenerate lean/Feox/Gen/Constants.lean from /repo's current source.

Parses `const NAME: T = <expr>;` items (integer expressions over other constants,
`as` casts, `1 << n`, `a * b`, `a - (b + c)`, `!X`, byte-string literals) in the files
listed in FILES.  Every constant named in WANT must be found and evaluated; an
expression this script cannot parse makes it fail loudly (exit 2) rather than guess.
The Lean models import *all* their numbers from the generated file, so layout,
size-bound and no-overflow theorems are re-checked against what the code says now.
"""
import ast, os, re, sys, hashlib

REPO = os.environ.get("FEOX_REPO", "/repo")
OUT = os.path.join(os.path.dirname(os.path.abspath(__file__)), "..", "lean", "Feox", "Gen", "Constants.lean")

FILES = [
    "src/constants.rs",
    "src/storage/allocation_journal.rs",
    "src/storage/metadata.rs",
    "src/storage/seq_token.rs",
    "src/storage/write_buffer.rs",
    "src/storage/io.rs",
    "src/core/record.rs",
    "src/core/cache.rs",
    "src/core/store/mod.rs",
    "src/core/store/recovery.rs",
    "src/core/store/persistence.rs",
    "src/core/store/range.rs",
    "src/core/store/migration.rs",
    "src/utils/hash.rs",
]

# (rust name, lean name).  Prefix keeps per-file private names apart.
WANT = {
    "src/constants.rs": [
        "KB", "MB", "GB", "MAX_KEY_SIZE", "MAX_VALUE_SIZE", "DEFAULT_MAX_MEMORY", "PAGE_SIZE",
        "CACHE_BUCKETS", "FEOX_BLOCK_SIZE", "SECTOR_SIZE", "SECTOR_HEADER_SIZE", "SECTOR_MARKER",
        "STALE_READ_RETRY_LIMIT", "DELETION_MARKER", "DELETION_MARKER_SIZE", "RETIREMENT_PENDING",
        "RETIREMENT_COMPLETE", "WRITE_ENTRY_RETRY_ALARM", "MAX_RECOVERABLE_KEY_SIZE_V1",
        "MAX_RECOVERABLE_KEY_SIZE", "FEOX_SIGNATURE", "FEOX_SIGNATURE_SIZE", "FEOX_METADATA_BLOCK",
        "FEOX_METADATA_BACKUP_BLOCK", "FEOX_METADATA_SIZE", "FEOX_DATA_START_BLOCK",
        "FEOX_WRITE_BUFFER_SIZE", "WRITE_BUFFER_SIZE", "WRITE_BUFFER_WORKER_RATIO",
        "CACHE_HIGH_WATERMARK_MB", "CACHE_LOW_WATERMARK_MB", "CACHE_MAX_SIZE",
        "CACHE_CLOCK_HAND_ADVANCE", "MAX_DEVICE_SIZE", "DEFAULT_DEVICE_SIZE", "IOURING_MAX_BATCH",
    ],
    "src/storage/allocation_journal.rs": [
        "ALLOCATION_JOURNAL_START_BLOCK", "ALLOCATION_JOURNAL_SLOT_BLOCKS", "ALLOCATION_JOURNAL_SLOTS",
        "ALLOCATION_JOURNAL_MAX_ENTRIES", "JOURNAL_MAGIC", "JOURNAL_VERSION", "FULL_SLOT_CHECKSUM_VERSION",
        "JOURNAL_CLEAR", "JOURNAL_ACTIVE", "JOURNAL_HEADER_SIZE", "JOURNAL_ENTRY_SIZE", "JOURNAL_SLOT_SIZE",
        "ALLOCATION_JOURNAL_BLOCKS",
    ],
    "src/storage/metadata.rs": [
        "METADATA_VERSION", "METADATA_ENCODED_SIZE", "VERSION_OFFSET", "TOTAL_RECORDS_OFFSET",
        "TOTAL_SIZE_OFFSET", "DEVICE_SIZE_OFFSET", "BLOCK_SIZE_OFFSET", "FRAGMENTATION_OFFSET",
        "CREATION_TIME_OFFSET", "LAST_UPDATE_TIME_OFFSET", "RESERVED_OFFSET", "RESERVED_SIZE",
        "CHECKSUM_MAGIC", "CHECKSUM_OFFSET", "CHECKSUM_COMPLEMENT_OFFSET", "CHECKSUM_DATA_OFFSET",
        "GENERATION_OFFSET",
    ],
    "src/storage/seq_token.rs": ["SEQ_TOKEN_MIN_VERSION", "CRC32C_POLY"],
    "src/storage/write_buffer.rs": [
        "DELETE_MARKER_DURABLE", "RESERVATION_DIRTY", "RESERVATION_QUARANTINED", "RESERVATION_FLAGS",
        "FINAL_FLUSH_RETRY_LIMIT",
    ],
    "src/storage/io.rs": ["RETIREMENT_WRITE_BLOCKS"],
    "src/core/record.rs": ["EXTENT_RETIRED", "EXTENT_READERS"],
    "src/core/cache.rs": ["MAX_SCANS"],
    "src/core/store/mod.rs": ["VERSION_CLOCK_SHARDS"],
    "src/core/store/recovery.rs": ["RECOVERY_SCAN_BLOCKS", "RECOVERY_EXPIRED_BATCH"],
    "src/core/store/persistence.rs": ["ZERO_SCAN_BLOCKS"],
    "src/core/store/range.rs": ["RANGE_PREALLOC_LIMIT", "RANGE_REPIN_INTERVAL"],
    "src/core/store/migration.rs": ["MIGRATION_SCAN_RECORDS", "MIGRATION_FLUSH_RECORDS",
                                    "MIGRATION_FLUSH_BYTES", "TEMP_CREATE_ATTEMPTS"],
    "src/utils/hash.rs": ["C1", "C2", "R1", "R2", "M", "N"],
}

LEAN_PREFIX = {"src/utils/hash.rs": "MURMUR_"}

BITS = {"u8": 8, "u16": 16, "u32": 32, "u64": 64, "usize": 64, "i32": 32, "i64": 64}

CONST_RE = re.compile(
    r"(?:pub(?:\([a-z]+\))?\s+)?const\s+([A-Z][A-Z0-9_]*)\s*:\s*([^=]+?)\s*=\s*(.*?);", re.S)


class Fail(Exception):
    pass


def parse_bytes_literal(s):
    # b"..." with \0, \xNN, \\, \" escapes
    body = s[2:-1]
    out = []
    i = 0
    while i < len(body):
        c = body[i]
        if c == "\\":
            n = body[i + 1]
            if n == "0":
                out.append(0); i += 2
            elif n == "x":
                out.append(int(body[i + 2:i + 4], 16)); i += 4
            elif n == "n":
                out.append(10); i += 2
            elif n == "\\":
                out.append(92); i += 2
            elif n == '"':
                out.append(34); i += 2
            else:
                raise Fail("escape \\%s" % n)
        else:
            out.append(ord(c)); i += 1
    return out


def eval_expr(expr, ty, env):
    expr = expr.strip()
    if expr.startswith('b"'):
        return parse_bytes_literal(expr)
    m = re.fullmatch(r"Duration::from_(millis|secs)\((.*)\)", expr)
    if m:
        v = eval_expr(m.group(2), "u64", env)
        return v * (1 if m.group(1) == "millis" else 1000)
    # `NAME.len()` of a byte-string constant, `size_of::<T>()` of a primitive
    def _len(m):
        v = env.get(m.group(1))
        if not isinstance(v, list):
            raise Fail("%s.len(): %s is not a byte-string constant" % (m.group(1), m.group(1)))
        return str(len(v))
    expr = re.sub(r"\b([A-Z][A-Z0-9_]*)\.len\(\)", _len, expr)
    expr = re.sub(r"\b(?:(?:std|core)::)?(?:mem::)?size_of::<(u8|u16|u32|u64|usize|i32|i64)>\(\)", lambda m: str(BITS[m.group(1)] // 8), expr)
    # strip casts and integer suffixes, translate `!X`
    e = re.sub(r"\bas\s+(u8|u16|u32|u64|usize|i32|i64)\b", "", expr)
    e = re.sub(r"\b(0x[0-9A-Fa-f_]+|[0-9][0-9_]*)(u8|u16|u32|u64|usize|i32|i64)\b", r"\1", e)
    e = e.replace("_", "_")
    e = re.sub(r"(?<![A-Za-z0-9])([0-9][0-9_]*)", lambda m: m.group(1).replace("_", ""), e)
    e = re.sub(r"0x([0-9A-Fa-f_]+)", lambda m: "0x" + m.group(1).replace("_", ""), e)
    e = e.replace("!", "~")
    try:
        tree = ast.parse(e, mode="eval")
    except SyntaxError as ex:
        raise Fail("cannot parse %r (%s)" % (expr, ex))
    bits = BITS.get(ty.strip(), 64)

    def ev(n):
        if isinstance(n, ast.Expression):
            return ev(n.body)
        if isinstance(n, ast.Constant) and isinstance(n.value, int):
            return n.value
        if isinstance(n, ast.Name):
            if n.id not in env:
                raise Fail("unknown constant %s in %r" % (n.id, expr))
            v = env[n.id]
            if not isinstance(v, int):
                raise Fail("non-integer %s in %r" % (n.id, expr))
            return v
        if isinstance(n, ast.BinOp):
            a, b = ev(n.left), ev(n.right)
            if isinstance(n.op, ast.Add): return a + b
            if isinstance(n.op, ast.Sub):
                if a < b: raise Fail("underflow in %r" % expr)
                return a - b
            if isinstance(n.op, ast.Mult): return a * b
            if isinstance(n.op, ast.FloorDiv) or isinstance(n.op, ast.Div): return a // b
            if isinstance(n.op, ast.LShift): return a << b
            if isinstance(n.op, ast.RShift): return a >> b
            if isinstance(n.op, ast.BitOr): return a | b
            if isinstance(n.op, ast.BitAnd): return a & b
            if isinstance(n.op, ast.BitXor): return a ^ b
            raise Fail("operator in %r" % expr)
        if isinstance(n, ast.UnaryOp) and isinstance(n.op, ast.Invert):
            return (~ev(n.operand)) & ((1 << bits) - 1)
        raise Fail("unsupported expression %r" % expr)

    v = ev(tree)
    if v >= (1 << bits):
        raise Fail("%r overflows %s" % (expr, ty))
    return v


def previous_values():
    """name -> value of the last generated file (the fallback for a constant that cannot be located)"""
    prev = {}
    try:
        for l in open(OUT):
            m = re.match(r"def (\w+) : Nat := (\d+)", l)
            if m:
                prev[m.group(1)] = int(m.group(2))
            m = re.match(r"def (\w+) : List UInt8 := \[(.*)\]", l)
            if m:
                prev[m.group(1)] = [int(x) for x in m.group(2).split(",") if x.strip()]
    except OSError:
        pass
    return prev


def tokens(name):
    return set(t for t in name.split("_") if t)


def main():
    lines = []
    digest = hashlib.sha256()
    base_env = {}
    out_items = []
    found_by_file = {}
    problems = {}          # wanted name -> why its own definition could not be evaluated
    for f in FILES:
        path = os.path.join(REPO, f)
        try:
            src = open(path).read()
        except OSError as ex:
            print("gen_constants: cannot read %s: %s" % (path, ex), file=sys.stderr)
            found_by_file[f] = {}
            continue
        digest.update(src.encode())
        # drop line comments
        src_nc = re.sub(r"//[^\n]*", "", src)
        env = dict(base_env)
        found = {}
        for m in CONST_RE.finditer(src_nc):
            name, ty, expr = m.group(1), m.group(2), m.group(3)
            if "{" in expr or "[" in expr.replace("[0;", "[0;") and "table" in expr:
                continue
            try:
                v = eval_expr(expr, ty, env)
            except Fail as ex:
                problems[(f, name)] = str(ex)
                continue
            except Exception as ex:      # an expression of a kind this reader was never meant for
                problems[(f, name)] = "%s: %s" % (type(ex).__name__, ex)
                continue
            env[name] = v
            found[name] = v
        if f == "src/constants.rs":
            base_env = dict(env)
        found_by_file[f] = found
    prev = previous_values()
    wanted_everywhere = set(n for ns in WANT.values() for n in ns)
    notes, missing = [], {}
    for f in FILES:
        for name in WANT.get(f, []):
            lean = LEAN_PREFIX.get(f, "") + name
            if name in found_by_file.get(f, {}):
                out_items.append((f, lean, found_by_file[f][name]))
                continue
            # moved to another file?
            elsewhere = [g for g in FILES if g != f and name in found_by_file.get(g, {}) and name not in WANT.get(g, [])]
            if len(elsewhere) == 1:
                notes.append("%s: now defined in %s (was %s)" % (name, elsewhere[0], f))
                out_items.append((f, lean, found_by_file[elsewhere[0]][name]))
                continue
            # renamed?  exactly one constant of the same file that this translator does not already know, with the
            # previous value and a name sharing a word with the old one
            why = problems.get((f, name), "not found")
            if (f, name) not in problems and lean in prev:
                cands = [n for n, v in found_by_file.get(f, {}).items()
                         if n not in wanted_everywhere and v == prev[lean] and (tokens(n) & tokens(name)) - {"MAX", "MIN", "SIZE", "OFFSET"}]
                if len(cands) == 1:
                    notes.append("%s: now called %s in %s (same value %s)" % (name, cands[0], f, prev[lean] if not isinstance(prev[lean], list) else "bytes"))
                    out_items.append((f, lean, prev[lean]))
                    continue
            if lean in prev:
                missing[lean] = "%s: %s: %s; the model keeps the last translated value" % (f, name, why)
                out_items.append((f, lean, prev[lean]))
            else:
                print("gen_constants: %s: constant %s: %s (and no earlier value to fall back on)" % (f, name, why), file=sys.stderr)
                return 2

    lines.append("/-! GENERATED by tools/gen_constants.py from /repo's current source — do not edit.")
    lines.append("Every model takes its numbers from here. -/")
    lines.append("namespace Feox.Gen")
    last = None
    for f, name, v in out_items:
        if f != last:
            lines.append("")
            lines.append("-- " + f)
            last = f
        if isinstance(v, list):
            lines.append("def %s : List UInt8 := [%s]" % (name, ", ".join(str(b) for b in v)))
        else:
            lines.append("def %s : Nat := %d" % (name, v))
    lines.append("")
    lines.append("end Feox.Gen")
    text = "\n".join(lines) + "\n"
    os.makedirs(os.path.dirname(OUT), exist_ok=True)
    old = None
    try:
        old = open(OUT).read()
    except OSError:
        pass
    if old != text:
        with open(OUT, "w") as fh:
            fh.write(text)
    import json
    side = os.path.join(os.path.dirname(OUT), "constants_status.json")
    status = json.dumps({"missing": missing, "notes": notes}, indent=1, sort_keys=True) + "\n"
    try:
        same = open(side).read() == status
    except OSError:
        same = False
    if not same:
        open(side, "w").write(status)
    print("gen_constants: %d constants, source sha256 %s%s" % (
        len(out_items), digest.hexdigest()[:16], "" if old == text else " (file updated)"))
    for n in notes:
        print("gen_constants: note: " + n)
    for k, v in missing.items():
        print("gen_constants: MISSING %s — %s" % (k, v))
    return 0


if __name__ == "__main__":
    sys.exit(main())
