"""Shared runner for the `proto` engine (C02, C03, C04, C05, C09, C19): crash-image exploration,
fault injection, partition checks and write-behind probes on the real store, with the Lean
acceptors (Dur.step?, Shards) and the Lean reader (Fmt.recoverImage) run on the same traces."""
import json, os, subprocess, hashlib, shutil
from concurrent.futures import ThreadPoolExecutor
from checklib import *


def run_proto(ctx, procs, sections, extra):
    def one(i):
        d = os.path.join(ctx.scratch, "proto%d" % i)
        os.makedirs(d, exist_ok=True)
        cmd = [harness_bin("proto"), "--seed", str(ctx.seed * 1000 + i), "--tier", ctx.tier, "--out", d] + sections + extra
        # vary the shard / worker count the store builds (num_cpus / 2): 1..8, powers of two and not
        cpus = [2, 4, 6, 8, 10, 12, 14, 16][(i * 3) % 8] if "writebehind" in sections else [2, 4, 8, 16][i % 4]
        cmd = ["taskset", "-c", "0-%d" % (cpus - 1)] + cmd
        try:
            r = subprocess.run(cmd, stdout=subprocess.PIPE, stderr=subprocess.PIPE, timeout=1500)
        except subprocess.TimeoutExpired:
            return {"dir": d, "crash": "TIMEOUT after 1500 s (a call, flush or drop did not terminate)"}
        if r.returncode != 0:
            return {"dir": d, "crash": "exit %d: %s" % (r.returncode, r.stderr.decode(errors="replace")[-800:])}
        rc, err = run_driver(os.path.join(d, "proto.ops"), os.path.join(d, "proto.model"))
        fails = []
        for l in read_lines(os.path.join(d, "proto.failures")):
            parts = l.split("\t")
            if len(parts) >= 3:
                fails.append({"prop": parts[0], "what": parts[1], "replay": parts[2]})
        return {"dir": d, "ops": read_lines(os.path.join(d, "proto.ops")), "impl": read_lines(os.path.join(d, "proto.impl")),
                "model": read_lines(os.path.join(d, "proto.model")), "fails": fails,
                "meta": json.load(open(os.path.join(d, "proto.meta.json")))}
    with ThreadPoolExecutor(max_workers=procs) as ex:
        return list(ex.map(one, range(procs)))


def keep_file(ctx, path, tag):
    if not path or path == "-" or not os.path.exists(path):
        return "-"
    dst = os.path.join(VERIF, "replay", "%s_%s_%s" % (ctx.prop, tag, os.path.basename(path)))
    shutil.copyfile(path, dst)
    return dst


def norm(line):
    # the implementation side of a crash-image line does not count recovery's writes
    import re
    return re.sub(r" writes=\S+", "", line)


def proto_check(ctx, module, theorems, sections, extra_quick, extra_thorough, props, what, assumptions, lean_relevant, pre_finish=None):
    """props: property ids whose implementation-level failures this check reports;
    lean_relevant(op_line) -> bool: which Lean-side lines belong to this property"""
    pr = prove(ctx, module, theorems)
    ok, out = cargo_build(ctx, ["proto"])
    cov0 = lambda extra: proof_coverage(pr, "cd lean && lake build %s feoxdrv && #print axioms audit" % module, TRUSTED_COMMON, extra)
    if not ok:
        violation(ctx, "harness does not build against /repo's working tree", out[-3000:], no_input=True, tag="build")
        return finish(ctx, "proof", cov0({"explanation": "harness build failed"}), [])
    for f in pr["failures"]:
        violation(ctx, "proof obligation not discharged: " + f, "theorem/obligation that no longer checks: %s\n" % f, no_input=True, tag="proof")
    procs = 12 if ctx.tier == "quick" else 16
    outs = run_proto(ctx, procs, sections, extra_quick if ctx.tier == "quick" else extra_thorough)
    images = lines = diffs = reported = nfail = 0
    kinds = {}
    samples = []
    latency = 0
    distinct = set()
    # implementation-level failures first (they are the failing inputs), the Lean-side differences after
    for o in outs:
        if "crash" in o:
            continue
        for f in o["fails"]:
            if f["prop"] in props:
                nfail += 1
                if reported < 3:
                    reported += 1
                    kept = keep_file(ctx, f["replay"], "img%d" % reported)
                    violation(ctx, "%s: %s" % (what, f["what"]), "# %s\n# image / script kept at: %s\n# re-run: harness/target/release/proto --seed %d %s\n" % (
                        f["what"], kept, ctx.seed * 1000 + outs.index(o), " ".join(sections)))
    lean_reported = 0
    for o in outs:
        if "crash" in o:
            violation(ctx, "proto harness did not finish: " + o["crash"], o["crash"], tag="crash")
            continue
        m = o["meta"]
        images += m["images"]
        latency = max(latency, m.get("max_durability_latency_ms", 0))
        for k, v in m["kinds"].items():
            kinds[k] = kinds.get(k, 0) + v
        if not samples and m.get("samples"):
            samples = m["samples"][:2]
        lines += len(o["ops"])
        for idx, (op, im, mo) in enumerate(zip(o["ops"], o["impl"], o["model"])):
            distinct.add(hashlib.sha1((op.split(" /dev/shm")[0] + im).encode()).digest())
            if norm(im) != norm(mo) and lean_relevant(op):
                diffs += 1
                if lean_reported < 2:
                    lean_reported += 1
                    if op.startswith("dur "):
                        # find the key's whole event block
                        s = idx
                        while s > 0 and o["ops"][s] != "dur new":
                            s -= 1
                        blk = o["ops"][s:idx + 1]
                        violation(ctx, "trace validation: the durability machine Feox.Proto.Dur rejects an event the implementation performed (%s) — "
                                  "acknowledgement / retirement / publication order differs from the protocol the C02/C09 theorems are about" % op,
                                  "".join(l + "\n" for l in blk), no_input=(nfail == 0))
                    elif op.startswith("space "):
                        s0 = idx
                        while s0 > 0 and not o["ops"][s0].startswith("space new"):
                            s0 -= 1
                        blk = [l for l in o["ops"][s0:idx + 1] if l.startswith("space ")]
                        violation(ctx, "trace validation: the allocation / publication / release events of the running store are not a run of the bookkeeping model "
                                  "(Feox.C05.accept: `%s` answered `%s`, expected `%s`) — an extent handed out where the model's allocator would not, a release that is not a union of held extents, "
                                  "or a different free list at the acknowledged flush" % (op, mo[:200], im[:120]),
                                  "".join(l + "\n" for l in blk) + "# model: %s\n# store: %s\n" % (mo, im), no_input=(nfail == 0))
                    elif op.startswith("txn "):
                        s0 = idx
                        while s0 > 0 and not (o["ops"][s0].startswith("txn new") or o["ops"][s0].startswith("txn resume")):
                            s0 -= 1
                        blk = [l for l in o["ops"][s0:idx + 1] if l.startswith("txn ")]
                        violation(ctx, "trace validation: the device trace breaks the journal discipline (Feox.Proto.Txn.step? rejects `%s`: %s) — a data-area write "
                                  "outside a durably journalled run, or a journal rewrite over un-synced writes; Txn.crash_view no longer covers the crash images of this trace" % (op, mo),
                                  "".join(l + "\n" for l in blk) + "# verdict: %s\n" % mo, no_input=(nfail == 0))
                    else:
                        kept = []
                        for t in op.split(" "):
                            if t.startswith("/dev/shm/"):
                                kept.append(keep_file(ctx, t, "lean%d" % reported))
                        violation(ctx, "correspondence: the Lean reader and the real recovery disagree on a crash image",
                                  "%s\n# kept: %s\n# implementation: %s\n# model: %s\n" % (op, kept, im[:400], mo[:400]), no_input=(nfail == 0))
    if not samples:
        for o in outs:
            if "crash" in o:
                continue
            block = ["%s | impl: %s | model: %s" % (a.split(" /dev/shm")[0][:160], b[:120], c[:120]) for a, b, c in zip(o["ops"], o["impl"], o["model"]) if lean_relevant(a)][:10]
            if block:
                samples = [block]
                break
    ctx.log("proto: %d images, %d Lean lines, %d implementation-level failures for %s, %d Lean-side differences" % (images, lines, nfail, props, diffs))
    cov = cov0({
        "evaluations": images + lines, "distinct_nontrivial": len(distinct),
        "rule": "workloads (2-5 keys, 1-3 block values incl. embedded marker/head images, inserts/updates/deletes/flushes, background flusher running) on 24-56 block devices "
                "with the device-I/O observer recording every write and fsync; crash images = prefixes of the device trace x {all un-synced writes applied, all lost, random subset, "
                "one torn at 512-byte granularity, only the last}; each image is opened by the real recovery and checked against the per-key history window "
                "[last acknowledged .. latest begun], reopened again, and recovery's own writes are cut and recovered again; every image also goes to the Lean reader; the per-key "
                "accept/durable/retire/skip/ack events go to the Lean acceptor; fault plans fail single/paired/persistent write and fsync calls before or after the bytes land; "
                "partition runs check ownership and counters at every acknowledged flush on 20-40 block devices. Distinct = SHA-1 of (line, answer).",
        "samples": samples, "images": images, "lean_lines": lines, "kind_histogram": kinds, "implementation_failures": nfail,
        "lean_differences": diffs, "max_durability_latency_ms": latency, "traces_validated_against_impl": kinds.get("crash-workload", 0) + kinds.get("fault-run", 0) + kinds.get("writebehind-run", 0) + kinds.get("partition-run", 0),
    })
    if pre_finish:
        pre_finish(ctx, cov)
    return finish(ctx, "proof", cov, assumptions)
