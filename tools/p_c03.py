"""C03 — see DESIGN.md section 6."""
from proto_engine import *

MODULE = "Feox.Props.C03"
THEOREMS = ['Feox.C03.allocation_from_the_front_keeps_spans', 'Feox.C03.interleaved_batches_lose_a_record', 'Feox.C03.every_crash_point', 'Feox.C03.clear_journal_is_quiescent', 'Feox.C03.view_single_run', 'Feox.Proto.Txn.step_inv', 'Feox.Proto.Txn.crash_view', 'Feox.C03.recover_ok', 'Feox.C03.recovered_complete', 'Feox.C03.write_txn_crash_safe', 'Feox.C03.write_txn_commit', 'Feox.C03.retire_txn_crash_safe', 'Feox.C03.before_intent', 'Feox.Proto.TiledBy.skip', 'Feox.Proto.TiledBy.mask', 'Feox.Proto.TiledBy.fill', 'Feox.Proto.maskRun_ignores']


def run(ctx):
    return proto_check(ctx, MODULE, THEOREMS, ['crash', 'hazard'], ['workloads=4', 'budget=8', 'hazards=3'], ['workloads=20', 'budget=60', 'hazards=20'], ['C03'], "a crash image does not reopen to authentic, untorn, recent contents", [
        "kernel / file system: a write either fails or lands; a completed fsync makes every earlier write durable; a crash loses or tears (512 B) any subset of the un-synced writes only",
        "TornDetect: a torn journal slot / metadata block fails its checksum or equals the old or the new image (DESIGN.md section 2) — a hypothesis, not an axiom",
        "the abstract disk (Feox.Proto.Disk) is related to bytes by the Lean reader Feox.Fmt.recoverImage, itself compared with the real recovery on every crash image of this run",
        "faults are injected at the I/O hook (synchronous path; io_uring disabled), not in the kernel",
    ], lambda op: op.startswith("fmt recover") or op.startswith("txn "))
