"""C03 — see DESIGN.md section 6."""
from proto_engine import *
import fmt_engine, re


def leftover_stage(ctx, cov):
    """what a crash between a replacement's commit and the old extent's retirement leaves: devices holding two intact
    generations of a key - the older one also as a multi-block extent above a newer single-block one, with tail blocks
    that look like block heads (a record stamped for that block under a foreign key, a marker, the record's own head).
    Nothing is torn on such a device: the real store must open it, and expose only keys whose records the scan can
    reach (the Lean reader Feox.Fmt.recoverImage is the reference for which those are)."""
    ok, out = cargo_build(ctx, ["fmt"])
    if not ok:
        return
    outs = fmt_engine.run_fmt(ctx, ["dupgen"], 6, ["workloads=%d" % (5 if ctx.tier == "quick" else 60), "mutations=8"])
    kinds = fmt_engine.merge_hist(outs)
    n = bad = 0
    live = lambda l: {t.split(":")[0]: t for t in (re.search(r"live=\[([^\]]*)\]", l).group(1).split(",") if re.search(r"live=\[([^\]]*)\]", l) else []) if t}
    for o in outs:
        if "crash" in o:
            violation(ctx, "fmt harness (two-generation crash leftovers) did not finish: " + o["crash"], o["crash"], tag="crash")
            continue
        for op, im, mo in zip(o["ops"], o["impl"], o["model"]):
            if "dev" not in op or not op.startswith("fmt recover"):
                continue
            n += 1
            if im == mo:
                continue
            bad += 1
            if bad > 2:
                continue
            kept = fmt_engine.save_case(ctx, op, "leftover%d" % bad)
            body = "# image (as it was before the open): see the path in the line below\n%s\n# implementation: %s\n# Lean reader   : %s\n" % (kept, im[:600], mo[:600])
            if mo.startswith("ok") and not im.startswith("ok"):
                violation(ctx, "a device that holds two intact generations of a key (nothing torn) does not reopen: %s" % im[:80], body, tag="leftover")
            elif mo.startswith("ok") and im.startswith("ok") and [k for k in live(im) if k not in live(mo)]:
                violation(ctx, "reopening a device that holds two intact generations of a key exposes key %s, which no reachable record of the device carries (bytes inside a superseded value were read as a record)" % [k for k in live(im) if k not in live(mo)][0], body, tag="leftover")
            else:
                violation(ctx, "correspondence: the real recovery and the Lean reader disagree on a two-generation device", body, no_input=True, tag="leftover")
    fmt_engine.rep_lines(ctx, outs, cov, "after recovering a device that holds two intact generations of a key")
    ctx.log("leftover stage: %d two-generation devices, %d differences" % (n, bad))
    cov["two_generation_devices"] = n
    cov["two_generation_device_differences"] = bad
    cov["multiblock_loser_above_newer"] = kinds.get("dup-generation-multiblock-loser-above", 0)

MODULE = "Feox.Props.C03W"
THEOREMS = ['Feox.Fmt.acknowledged_key_found_after_crashed_open', 'Feox.Fmt.unretired_key_found_after_crashed_retirement', 'Feox.Fmt.findLive_fold_of_nodup', 'Feox.Fmt.crashed_open_restores_clean_rep', 'Feox.Fmt.recover_crashed_front_write', 'Feox.Fmt.span_avoids_front_alloc', 'Feox.Fmt.recover_crashed_write', 'Feox.Fmt.recover_crashed_retirement', 'Feox.Fmt.survivors_of_retirement', 'Feox.Fmt.span_avoids_retired', 'Feox.Fmt.journalled_extents_aligned', 'Feox.Fmt.tiled_aligned_of_rec', 'Feox.Fmt.crashed_open_end_to_end_slot1', 'Feox.Fmt.crashed_open_end_to_end_slot0', 'Feox.Fmt.journal_area_eq', 'Feox.Fmt.removeExpired_none', 'Feox.Fmt.no_expired_of_records', 'Feox.Fmt.recover_crashed_device_journalled', 'Feox.Fmt.coalesceExtents_spec', 'Feox.Fmt.replayIo_ok', 'Feox.Fmt.recover_crashed_device', 'Feox.Fmt.marksClean_replayed', 'Feox.Fmt.recover_crashed_image', 'Feox.Fmt.decodeJournal_reads_newer_slot1', 'Feox.Fmt.decodeJournal_reads_newer_slot0', 'Feox.Fmt.decodeJournal_torn_slot1_keeps_slot0', 'Feox.Fmt.decodeJournal_torn_slot0_keeps_slot1', 'Feox.C03.crashed_open_replays_then_scans', 'Feox.Fmt.replay_open_on_bytes', 'Feox.Fmt.replayIo_shape', 'Feox.Fmt.blockAt_retireAll', 'Feox.Fmt.replay_runs_on_bytes', 'Feox.Proto.Slots.alternating_crash', 'Feox.Proto.Slots.same_slot_torn_goes_back', 'Feox.C03.batch_commit_on_bytes', 'Feox.Fmt.commit_batch', 'Feox.C03.acknowledged_record_survives_crash', 'Feox.Fmt.replay_io_on_bytes', 'Feox.Fmt.blockAt_retireWrites', 'Feox.C03.recovery_of_tiled_image_succeeds', 'Feox.Fmt.scan_rep_tiled_ok', 'Feox.Fmt.recStep_ok', 'Feox.C03.crash_during_write_on_bytes', 'Feox.C03.crash_during_retirement_on_bytes', 'Feox.Fmt.replay_on_bytes', 'Feox.C03.write_commit_on_bytes', 'Feox.C03.retirement_on_bytes', 'Feox.Fmt.commit_record', 'Feox.Fmt.retire_region', 'Feox.Fmt.holds_after_write', 'Feox.C03.byte_scan_of_tiled', 'Feox.Fmt.scan_rep_tiled', 'Feox.Fmt.scan_step_rec', 'Feox.Fmt.scan_step_mark', 'Feox.Fmt.scan_step_free', 'Feox.C03.allocation_from_the_front_keeps_spans', 'Feox.C03.interleaved_batches_lose_a_record', 'Feox.C03.every_crash_point', 'Feox.C03.clear_journal_is_quiescent', 'Feox.C03.view_single_run', 'Feox.Proto.Txn.step_inv', 'Feox.Proto.Txn.crash_view', 'Feox.C03.recover_ok', 'Feox.C03.recovered_complete', 'Feox.C03.write_txn_crash_safe', 'Feox.C03.write_txn_commit', 'Feox.C03.retire_txn_crash_safe', 'Feox.C03.before_intent', 'Feox.Proto.TiledBy.skip', 'Feox.Proto.TiledBy.mask', 'Feox.Proto.TiledBy.fill', 'Feox.Proto.maskRun_ignores']


def run(ctx):
    return proto_check(ctx, MODULE, THEOREMS, ['crash', 'hazard'], ['workloads=4', 'budget=8', 'hazards=3'], ['workloads=20', 'budget=60', 'hazards=20'], ['C03'], "a crash image does not reopen to authentic, untorn, recent contents", [
        "kernel / file system: a write either fails or lands; a completed fsync makes every earlier write durable; a crash loses or tears (512 B) any subset of the un-synced writes only",
        "TornDetect: a torn journal slot / metadata block fails its checksum or equals the old or the new image (DESIGN.md section 2) — a hypothesis, not an axiom",
        "the abstract disk (Feox.Proto.Disk) is related to bytes by the Lean reader Feox.Fmt.recoverImage, itself compared with the real recovery on every crash image of this run",
        "faults are injected at the I/O hook (synchronous path; io_uring disabled), not in the kernel",
        "crash leftovers with two intact generations of a key are built from real devices by copying a record (new timestamp / expiry / length, token re-stamped); the multi-block superseded generation gets tail blocks that look like block heads and a token re-stamped over the whole extent",
    ], lambda op: op.startswith("fmt recover") or op.startswith("txn "), pre_finish=leftover_stage)
