"""C20 — see DESIGN.md section 6."""
import subprocess
from concurrent.futures import ThreadPoolExecutor
from conc_engine import *

MODULE = "Feox.Props.C20"
THEOREMS = ['Feox.C20.inflight_never_freed', 'Feox.C20.held_is_leaked', 'Feox.C20.unheld_is_released',
            'Feox.C20.mark_complete_counts_once', 'Feox.C20.bit_is_last_mark', 'Feox.C20.extent_pin_guard_balanced',
            'Feox.Conc.InFlight.good_step', 'Feox.Conc.InFlight.good_run',
            'Feox.C20.tree_slot_no_use_after_free', 'Feox.C20.tree_slot_load_tied_to_guard', 'Feox.C20.immediate_destruction_is_unsafe', 'Feox.Conc.Epoch.step_inv', 'Feox.C20.unsafe_sites_audited']

ASSUME = [
    "tools/gen_unsafe.py (translator, regenerated on this run) lists the functions of src/ that contain `unsafe` blocks, the `unsafe fn`s and the `unsafe impl`s; Feox.C20.unsafe_sites_audited compares the list with the audited inventory (a new site, or more blocks in a site, breaks it; edits inside an audited block are not looked at)",
    "machine-level memory safety of the compiled unsafe blocks (AlignedBuffer, io_uring submission, the crossbeam-epoch library itself) is outside the Lean model: the theorems cover the ownership protocols those blocks rely on",
    "tools/gen_epoch.py (translator, regenerated on this run) reads the guard and the disposal of the replaced object in TreeSlot::store and the lifetime signature of TreeSlot::load; crossbeam-epoch's guarantee (an object handed to defer_destroy under a pinned guard is destroyed only after every guard pinned at that moment is dropped or repinned) and the borrow checker's enforcement of the 'g lifetime are taken as given",
    "AddressSanitizer (std not instrumented) is a search tool over the schedules, races, fault plans and crash workloads of the other engines; a clean run is not a proof",
    "the O_DIRECT / AlignedBuffer and io_uring paths are not executed in this sandbox (no O_DIRECT; the ring is disabled for determinism)",
]

RULE = ("inflight: protocol-shaped (push all, submit in order with failed pushes, completions incl. duplicates and foreign indices, early drop) and arbitrary call sequences on the real InFlightBuffers "
        "behind drop-recording payloads, every mark_complete result and the released/leaked set at drop compared with the Lean model; "
        "asan: the conc (schedules, pin words, read/retirement races, scheduled and free-running range scans / reads racing with overwrites, CAS, TTL updates, deletes and re-creations of the scanned keys, contention workloads, in-flight sets) and proto (crash, fault, partition, write-behind workloads) harness binaries rebuilt with -Zsanitizer=address and re-run on this run's seeds; "
        "an AddressSanitizer report or abnormal termination is a failing input. Distinct = SHA-1 of (line, answer).")


def asan_runs(ctx, quick):
    ok, out = cargo_build_asan(ctx, ["conc", "proto"])
    if not ok:
        return None, ["asan build failed: " + out[-1500:]]
    jobs = []
    n = 6 if quick else 16
    for i in range(n):
        d = os.path.join(ctx.scratch, "asan%d" % i)
        os.makedirs(d, exist_ok=True)
        seed = str(ctx.seed * 1000 + 500 + i)
        if i % 2 == 0:
            jobs.append((d, [asan_bin("conc"), "--seed", seed, "--out", d, "cases=%d" % (60 if quick else 1500), "words=20", "races=%d" % (4 if quick else 60), "inflight=%d" % (50 if quick else 2000), "directio=%d" % (4 if quick else 60),
                             "scans=%d" % (10 if quick else 200), "scanrace=%d" % (6 if quick else 80), "contend=%d" % (2 if quick else 30), "readflush=%d" % (3 if quick else 80)]))
        else:
            jobs.append((d, [asan_bin("proto"), "--seed", seed, "--out", d, "crash", "fault", "partition", "writebehind", "workloads=%d" % (2 if quick else 12), "budget=%d" % (6 if quick else 30),
                             "faults=1", "partitions=%d" % (2 if quick else 12), "wb=1", "lean=0"]))
    def one(j):
        d, cmd = j
        try:
            r = subprocess.run(cmd, stdout=subprocess.PIPE, stderr=subprocess.PIPE, timeout=3000,
                               env=dict(os.environ, ASAN_OPTIONS="detect_leaks=0:abort_on_error=0:halt_on_error=1"))
        except subprocess.TimeoutExpired:
            return (cmd, "timeout", "")
        err = r.stderr.decode(errors="replace")
        if "AddressSanitizer" in err or r.returncode != 0:
            return (cmd, "exit %d" % r.returncode, err[-4000:])
        return None
    with ThreadPoolExecutor(max_workers=8) as ex:
        res = [x for x in ex.map(one, jobs) if x]
    return len(jobs), res


def run(ctx):
    from checklib import sh, VERIF
    r = sh(["python3", os.path.join(VERIF, "tools", "gen_epoch.py")])
    ctx.log(r.stdout.strip() or r.stderr.strip())
    if r.returncode != 0:
        violation(ctx, "the reclamation translator could not read TreeSlot: " + ((r.stdout or "") + (r.stderr or ""))[-400:],
                  "# translator tools/gen_epoch.py failed; theorem Feox.C20.tree_slot_no_use_after_free cannot be re-checked\n" + (r.stdout or "") + (r.stderr or ""), no_input=True, tag="epoch")
    r = sh(["python3", os.path.join(VERIF, "tools", "gen_unsafe.py")])
    ctx.log(r.stdout.strip() or r.stderr.strip())
    if r.returncode != 0:
        violation(ctx, "the unsafe-inventory translator failed: " + ((r.stdout or "") + (r.stderr or ""))[-400:],
                  "# translator tools/gen_unsafe.py failed; theorem Feox.C20.unsafe_sites_audited cannot be re-checked\n" + (r.stdout or "") + (r.stderr or ""), no_input=True, tag="unsafe")
    quick = ctx.tier == "quick"
    extra = ('cases=0', 'inflight=%d' % (400 if quick else 20000), 'scanrace=%d' % (4 if quick else 100), 'readflush=%d' % (3 if quick else 100), 'directio=%d' % (6 if quick else 200))
    def hook(ctx2, cov):
        pass
    # the in-flight differential goes through the shared runner; asan on top
    n, bad = asan_runs(ctx, quick)
    for b in bad:
        if isinstance(b, str):
            violation(ctx, "AddressSanitizer build of the harness failed", b, no_input=True, tag="asan")
        else:
            cmd, what, err = b
            violation(ctx, "memory-safety report / abnormal termination under AddressSanitizer (%s): %s" % (what, " ".join(cmd[:4])),
                      "# re-run: ASAN_OPTIONS=detect_leaks=0 %s\n%s" % (" ".join(cmd), err), tag="asan")
    ctx.asan_runs = n or 0
    return conc_check(ctx, MODULE, THEOREMS, ['C20'], "memory safety", ASSUME, extra_quick=extra, extra_thorough=extra, rule=RULE)
