#!/bin/bash
# take_seed.sh <Cxx> <round> [extra checks...]: confirm a sub-agent's change in its scratch worktree
# (/tmp/seed<round>/<Cxx>), keep it as /verif/seeded/<Cxx>-<round>, run the property's quick check on /repo
# with the change applied, undo it, regenerate the translated Lean files.
P=$1; R=$2; shift 2
W=/tmp/seed$R/$P
D=/verif/seeded/$P-$R
[ -f $W/seeded/patch.diff ] || { echo "no patch in $W/seeded"; exit 2; }
bash /verif/tools/confirm_seed.sh $W $P > /tmp/seed$R/$P.confirm 2>&1
mkdir -p $D
cp $W/seeded/* $D/ 2>/dev/null
cat $D/confirm.txt
git -C /repo status --short | grep -q . && { echo "/repo not clean"; exit 1; }
git -C /repo apply --check $D/patch.diff || { echo "patch does not apply to /repo"; exit 1; }
git -C /repo apply $D/patch.diff
cd /verif
for p in $P "$@"; do
  ./check $p quick > /tmp/seed$R/$P.check_$p.log 2>&1
  echo "$P-$R: check $p -> $(grep -E '^(OK|VIOLATION)' /tmp/seed$R/$P.check_$p.log | head -2 | cut -c1-300 | tr '\n' ' ')"
done
git -C /repo checkout -- .
for g in constants locks loops epoch unsafe; do python3 tools/gen_$g.py > /dev/null; done
git -C /repo status --short
