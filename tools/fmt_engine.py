"""Shared runner for the `fmt` correspondence engine (C10, C17, and the image-level parts of
C03/C04/C11/C15): parallel harness processes, driver, line-by-line comparison."""
import json, os, shutil, subprocess, hashlib
from concurrent.futures import ThreadPoolExecutor
from checklib import *


def run_fmt(ctx, sections, procs, extra_args=None):
    """run `procs` harness processes with different seeds; returns list of
    dicts(dir, ops, impl, model, meta)"""
    outs = []

    def one(i):
        d = os.path.join(ctx.scratch, "fmt%d" % i)
        os.makedirs(d, exist_ok=True)
        cmd = [harness_bin("fmt"), "--seed", str(ctx.seed * 1000 + i), "--tier", ctx.tier, "--out", d] + sections + (extra_args or [])
        try:
            r = subprocess.run(cmd, stdout=subprocess.PIPE, stderr=subprocess.PIPE, timeout=400 if ctx.tier == "quick" else 3000)
        except subprocess.TimeoutExpired:
            return {"dir": d, "crash": "TIMEOUT: a call of the store (workload, flush, open or close) did not return in the single-threaded fmt harness"}
        if r.returncode != 0:
            msg = "exit %d: %s" % (r.returncode, r.stderr.decode(errors="replace")[-800:])
            img = os.path.join(d, "hang_image.feox")
            if os.path.exists(img):
                kept = os.path.join(VERIF, "replay", "%s_hang_seed%d.feox" % (ctx.prop, ctx.seed * 1000 + i))
                shutil.copyfile(img, kept)
                msg += "\n# the image the open did not return on: %s" % kept
            return {"dir": d, "crash": msg}
        rc, err = run_driver(os.path.join(d, "fmt.ops"), os.path.join(d, "fmt.model"))
        res = {"dir": d, "ops": read_lines(os.path.join(d, "fmt.ops")), "impl": read_lines(os.path.join(d, "fmt.impl")),
               "model": read_lines(os.path.join(d, "fmt.model")), "meta": json.load(open(os.path.join(d, "fmt.meta.json")))}
        if rc != 0:
            res["crash"] = "driver exit %d: %s" % (rc, err[-500:])
        return res

    with ThreadPoolExecutor(max_workers=procs) as ex:
        outs = list(ex.map(one, range(procs)))
    return outs


def save_case(ctx, op_line, tag):
    """copy the blobs an op line refers to into replay/ and rewrite the paths"""
    dst = os.path.join(VERIF, "replay", "%s_%s_files" % (ctx.prop, tag))
    os.makedirs(dst, exist_ok=True)
    toks = op_line.split(" ")
    for i, t in enumerate(toks):
        if t.startswith("/dev/shm/") and os.path.exists(t):
            n = os.path.join(dst, os.path.basename(t))
            shutil.copyfile(t, n)
            toks[i] = n
    return " ".join(toks)


def classify(op, impl, model):
    """(is_property_failure_on_impl, description)"""
    if op.startswith("fmt repfile") and impl != model:
        return True, "a device file the store flushed and closed does not represent a tiling of its data area by exactly the store's own index (Fmt.repTiledB; by Fmt.repTiled_sound a recovery would not find exactly these records): " + model[:160]
    if op.startswith("fmt reptiled") and impl != model:
        return True, "the device as a successful recovery leaves it does not represent a tiling of its data area by exactly the recovered index (Fmt.repTiledB): " + model[:160]
    if impl.startswith("panic"):
        return True, "the implementation panicked: " + impl[:120]
    if "FILE-MODIFIED" in impl:
        return True, "a rejected open modified the file"
    if impl.startswith("err InvalidDevice") or impl.startswith("err InvalidMetadata"):
        if "body=same" not in impl:
            return True, "an open rejected for size/metadata reasons changed the file: " + impl[:120]
    return False, ""


def merge_hist(outs):
    h = {}
    for o in outs:
        for k, v in o.get("meta", {}).get("kinds", {}).items():
            h[k] = h.get(k, 0) + v
    return h


def distinct_nontrivial(outs, pred):
    seen = set()
    for o in outs:
        for op, im in zip(o.get("ops", []), o.get("impl", [])):
            if pred(op, im):
                # images are referenced by path; hash the answer too so distinct images count once each
                seen.add(hashlib.sha1((op.split(" /dev/shm")[0] + "|" + im).encode()).digest())
    return len(seen)


def rep_lines(ctx, outs, cov, what_for):
    """judge the `repfile` / `reptiled` lines of fmt runs: the device file as the real store left it (after a flush and
    a clean close, or after a successful recovery with its repairs) must represent a tiling of its data area by exactly
    the store's own index (Lean decision Fmt.repTiledB; Fmt.repTiled_sound says what a `true` means for the recovery
    scan).  A `rt=0` is a property-level failure with the file as the failing input: a stale but valid record left on the
    device (it resurfaces once its successor is gone), a live record under a marker's span, a block owned twice."""
    n = bad = 0
    for o in outs:
        if "crash" in o:
            continue
        for op, im, mo in zip(o.get("ops", []), o.get("impl", []), o.get("model", [])):
            if not (op.startswith("fmt repfile") or op.startswith("fmt reptiled")):
                continue
            n += 1
            if im == mo:
                continue
            bad += 1
            if bad <= 2:
                kept = save_case(ctx, op, "rep%d" % bad)
                _, why = classify(op, im, mo)
                violation(ctx, "%s: %s" % (what_for, why), "%s\n# expected: %s\n# Lean decision on the file: %s\n" % (kept[:3000], im, mo), tag="rep")
    cov["device_files_checked_for_tiling_by_index"] = cov.get("device_files_checked_for_tiling_by_index", 0) + n
    cov["device_files_not_tiled_by_index"] = cov.get("device_files_not_tiled_by_index", 0) + bad
    ctx.log("tiling-by-index stage: %d device files, %d not tiled by the store's own index" % (n, bad))
