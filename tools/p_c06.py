"""C06 — the free-space allocator never double-allocates, loses or fragments space."""
import json, os, shutil
from checklib import *

MODULE = "Feox.Props.C06"
THEOREMS = [
    "Feox.C06.init_inv",
    "Feox.C06.alloc_spec",
    "Feox.C06.alloc_fails_iff",
    "Feox.C06.alloc_error_unchanged",
    "Feox.C06.alloc_prefix_of_run",
    "Feox.C06.release_ok_iff",
    "Feox.C06.release_spec",
    "Feox.C06.release_error_unchanged",
    "Feox.C06.stats_canonical",
    "Feox.C06.stats_total",
    "Feox.C06.stats_largest",
    "Feox.C06.reachable_inv",
    "Feox.C06.no_overflow",
]


def split_cases(lines):
    cases, cur = [], []
    for l in lines:
        if l == "fsm new" and cur:
            cases.append(cur); cur = []
        cur.append(l)
    if cur:
        cases.append(cur)
    return cases


def run_ops(ctx, ops_lines, tag):
    """run implementation (replay mode) and model on the given op lines; return
    (impl lines, model lines, oracle lines)"""
    d = os.path.join(ctx.scratch, tag)
    os.makedirs(d, exist_ok=True)
    p = os.path.join(d, "in.ops")
    open(p, "w").write("".join(l + "\n" for l in ops_lines))
    r = sh([harness_bin("fsm"), "--replay", p, "--out", d], timeout=600)
    run_driver(os.path.join(d, "fsm.ops"), os.path.join(d, "fsm.model"))
    return (read_lines(os.path.join(d, "fsm.impl")), read_lines(os.path.join(d, "fsm.model")),
            read_lines(os.path.join(d, "fsm.oracle")))


def run(ctx):
    pr = prove(ctx, MODULE, THEOREMS)
    ok, out = cargo_build(ctx, ["fsm"])
    if not ok:
        violation(ctx, "harness does not build against /repo's working tree (public FreeSpaceManager API changed?)",
                  out[-3000:], no_input=True, tag="build")
        return finish(ctx, "proof", proof_coverage(pr, "lake build %s" % MODULE, TRUSTED_COMMON,
                      {"explanation": "harness build failed"}), [])
    for f in pr["failures"]:
        violation(ctx, "proof obligation not discharged: " + f,
                  "theorem/obligation that no longer checks: %s\n" % f, no_input=True, tag="proof")

    outdir = os.path.join(ctx.scratch, "gen")
    if ctx.replay:
        ops = [l for l in read_lines(ctx.replay) if not l.startswith("#")]
        imp, mod, orc = run_ops(ctx, ops, "replay")
        for a, b, c in zip(ops, imp, mod):
            print("%-28s impl: %-60s model: %s" % (a, b, c))
        for o in orc:
            print("ORACLE: " + o)
        bad = bool(orc) or imp != mod
        if bad:
            violation(ctx, "replay reproduces: " + (orc[0] if orc else "model/implementation disagreement"),
                      "".join(l + "\n" for l in ops), no_input=not orc, tag="replay")
        return finish(ctx, "proof", proof_coverage(pr, "lake build %s" % MODULE, TRUSTED_COMMON,
                      {"explanation": "replay run"}), [])

    # corpus of minimised past disagreements first
    corpus_dir = os.path.join(VERIF, "corpus", "fsm")
    corpus_n = 0
    if os.path.isdir(corpus_dir):
        for f in sorted(os.listdir(corpus_dir)):
            ops = [l for l in read_lines(os.path.join(corpus_dir, f)) if not l.startswith("#")]
            imp, mod, orc = run_ops(ctx, ops, "corpus")
            corpus_n += 1
            if orc:
                violation(ctx, "corpus case %s: %s" % (f, orc[0]), "".join(l + "\n" for l in ops), tag="corpus")
            elif imp != mod:
                violation(ctx, "corpus case %s: model/implementation disagreement (correspondence stream fsm)" % f,
                          "".join(l + "\n" for l in ops), no_input=True, tag="corpus")

    r = sh([harness_bin("fsm"), "--seed", str(ctx.seed), "--tier", ctx.tier, "--out", outdir], timeout=3000)
    if r.returncode != 0:
        violation(ctx, "harness crashed (exit %d): %s" % (r.returncode, r.stdout[-500:]),
                  "harness fsm --seed %d --tier %s\n%s" % (ctx.seed, ctx.tier, r.stdout[-3000:]), tag="crash")
        return finish(ctx, "proof", proof_coverage(pr, "lake build %s" % MODULE, TRUSTED_COMMON, {}), [])
    meta = json.load(open(os.path.join(outdir, "fsm.meta.json")))
    rc, err = run_driver(os.path.join(outdir, "fsm.ops"), os.path.join(outdir, "fsm.model"))
    ops = read_lines(os.path.join(outdir, "fsm.ops"))
    d = first_diff(os.path.join(outdir, "fsm.impl"), os.path.join(outdir, "fsm.model"))
    oracle = read_lines(os.path.join(outdir, "fsm.oracle"))
    ctx.log("fsm: %d lines, %d cases, oracle failures %d, first diff %s" % (
        meta["lines"], meta["cases"], len(oracle), d))

    def case_of_line(n):
        # walk back to the case start
        s = n
        while s > 0 and ops[s] != "fsm new":
            s -= 1
        e = n + 1
        while e < len(ops) and ops[e] != "fsm new":
            e += 1
        return ops[s:e], n - s

    if oracle:
        # the property itself fails on the implementation: shrink on the oracle verdict
        import re as _re
        ln = int(_re.search(r"line=(\d+)", oracle[0]).group(1))
        case, _ = case_of_line(max(ln - 1, 0))
        def still(c):
            return bool(run_ops(ctx, c, "shr")[2])
        small = ddmin(case, still, keep=2)
        imp, mod, orc = run_ops(ctx, small, "shr")
        txt = "".join(l + "\n" for l in small) + "# implementation answers:\n" + "".join("# " + l + "\n" for l in imp) \
            + "# property failures:\n" + "".join("# " + l + "\n" for l in orc)
        violation(ctx, "allocator property fails on the implementation: " + (orc[0] if orc else oracle[0]), txt)
    elif d is not None:
        case, off = case_of_line(d)
        def still(c):
            i, m, o = run_ops(ctx, c, "shr")
            return i != m or bool(o)
        small = ddmin(case[:off + 1], still, keep=2)
        imp, mod, orc = run_ops(ctx, small, "shr")
        txt = "".join(l + "\n" for l in small) + "# implementation answers:\n" + "".join("# " + l + "\n" for l in imp) \
            + "# model answers:\n" + "".join("# " + l + "\n" for l in mod)
        if orc:
            violation(ctx, "allocator property fails on the implementation: " + orc[0], txt)
        else:
            violation(ctx, "correspondence stream 'fsm' no longer checks: Feox.Fsm model and FreeSpaceManager disagree "
                      "(theorems C06.* are about the model; no property failure found by the bitmap oracle on the "
                      "shrunk case and its neighbourhood)", txt, no_input=True)

    import hashlib
    cases = split_cases(ops)
    distinct = set()
    for c in cases:
        if len(c) >= 3:
            distinct.add(hashlib.sha1("\n".join(c).encode()).digest())
    sample_case = max(cases[-50:], key=len) if cases else []
    cov = proof_coverage(pr, "cd lean && lake build %s feoxdrv && lake env lean <#print axioms audit>" % MODULE,
        TRUSTED_COMMON + ["bitmap oracle in harness/src/bin/fsm.rs (only used to search for a failing input)"], {
        "evaluations": meta["lines"],
        "distinct_nontrivial": len(distinct),
        "rule": "call sequences on the public FreeSpaceManager: exhaustive over a small alphabet on 3-5 block data areas "
                "(every path a case), then random mostly-valid sequences on 17..4096-block devices; a case is "
                "non-trivial if it has at least one call after initialisation; distinct by SHA-1 of its op lines",
        "samples": [sample_case[:40]],
        "cases": meta["cases"],
        "exhaustive_paths": meta["exhaustive_paths"],
        "call_histogram": meta["calls"],
        "corpus_cases": corpus_n,
        "traces_validated_against_impl": meta["cases"],
        "oracle_failures": len(oracle),
        "first_model_impl_difference": d,
    })
    return finish(ctx, "proof", cov, [
        "u64 arithmetic modelled as Nat; C06.no_overflow covers devices up to MAX_DEVICE_SIZE",
        "BTreeMap behaves as an ordered map (by_start ascending, by_size (size,start)-ascending)",
        "the model/implementation tie is differential testing over the generated call sequences",
    ])
