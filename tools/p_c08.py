"""C08 — see DESIGN.md section 6."""
from conc_engine import *

MODULE = "Feox.Props.C08W"
THEOREMS = ['Feox.C08.device_read_returns_written_value', 'Feox.Fmt.extentBytes_of_holds', 'Feox.C08.pread_sees_data', 'Feox.C08.no_overwrite_while_pinned', 'Feox.C08.retired_refuses_and_stays',
            'Feox.C08.mark_needs_cleared', 'Feox.C08.identity_check_sound', 'Feox.C08.marker_fails_identity_check',
            'Feox.C08.zeros_fail_identity_check', 'Feox.Conc.Pin.step_inv', 'Feox.Conc.Pin.run_inv']

ASSUME = [
    "the extent word is one atomic (AcqRel read-modify-writes); the retirer is serialised (one retirement pass at a time); a device read and the marker / record writes of one extent are additionally separated by the DiskIO RwLock, which the model does not rely on",
    "the race runs park ONE reader (at the hooked points before the pin and between pin and pread) while the unhooked writer and the background flusher run freely; which values may be returned is judged by the harness oracle, not by the model",
    "the 16-bit identity token / (key, length, timestamp) check cannot distinguish two generations of one key with equal length and timestamp; the theorem states what the check guarantees",
]

RULE = ("word: random walks (5-60 steps) of reader (acquire, pread, release) and retirer (set bit, check, mark, recheck, reuse) protocol steps on the real Record::extent_state through the hook accessors, "
        "the word (reader count, retired bit) and every acquire / check outcome compared with the Lean Pin automaton after each step; "
        "race: a persistent store of 30-44 blocks (cache on/off, 1-3 block values), the victim key durable and not resident, one reader (get, get_bytes, compare_and_swap) parked by the scheduling hook either before taking its pin or holding it (in a quarter of the cases on a deferred TTL-only generation made by update_ttl, whose bytes live in the predecessor's extent, with a flush publishing it meanwhile), "
        "while the key is updated or deleted, filler keys written, the flusher retires and reuses blocks; checked: no device write lands in a pinned extent (I/O observer), the retirement is actually postponed by the pin (hook event), "
        "the read returns the old value, the new value, not-found after a delete or StaleExtent - nothing else, every other key is intact, flush() terminates. Distinct = SHA-1 of (line, answer).")


def run(ctx):
    return conc_check(ctx, MODULE, THEOREMS, ['C08'], "read racing with retirement / reuse", ASSUME,
                      extra_quick=('cases=0', 'words=150', 'races=12', 'readflush=3', 'overfull=4', 'ttlchain=6'), extra_thorough=('cases=0', 'words=3000', 'races=200', 'readflush=100', 'overfull=60', 'ttlchain=150'), rule=RULE, pre_finish=lambda c, cov: __import__('kv_engine').genuine_stage(c, cov))
