"""C19 — see DESIGN.md section 6."""
from proto_engine import *

MODULE = "Feox.Props.C19"
THEOREMS = ['Feox.C19.ownership_partition', 'Feox.C19.every_worker_owns_a_shard', 'Feox.C19.tick_wakes_every_owner', 'Feox.C19.tick_wakes_retirer', 'Feox.C19.unwoken_worker_has_nothing', 'Feox.C19.geometry', 'Feox.C19.real_geometry_partition',
            'Feox.C19.wstep_inv', 'Feox.C19.process_drains', 'Feox.C19.marked_shard_has_a_request']


def run(ctx):
    return proto_check(ctx, MODULE, THEOREMS, ['writebehind'], ['wb=6'], ['wb=12'], ['C19'], "write-behind durability without explicit flush", [
        "kernel / file system: a write either fails or lands; a completed fsync makes every earlier write durable; a crash loses or tears (512 B) any subset of the un-synced writes only",
        "TornDetect: a torn journal slot / metadata block fails its checksum or equals the old or the new image (DESIGN.md section 2) — a hypothesis, not an axiom",
        "the abstract disk (Feox.Proto.Disk) is related to bytes by the Lean reader Feox.Fmt.recoverImage, itself compared with the real recovery on every crash image of this run",
        "faults are injected at the I/O hook (synchronous path; io_uring disabled), not in the kernel",
    ], lambda op: op.startswith("shards "))
