"""C10 — the device file follows the documented v1/v2/v3 layout and stays compatible."""
import os
from checklib import *
from fmt_engine import *

MODULE = "Feox.Props.C10W"
THEOREMS = ['Feox.Fmt.decodeJournal_reads_newer_slot1', 'Feox.Fmt.decodeJournal_reads_newer_slot0', 'Feox.Fmt.decodeJournal_torn_slot1_keeps_slot0', 'Feox.Fmt.decodeJournal_torn_slot0_keeps_slot1', 
    "Feox.C10.clean_file_reads_back_as_its_index", "Feox.Fmt.openCleanB_sound", "Feox.Fmt.recover_clean_image", "Feox.Fmt.commit_record", "Feox.Fmt.toBlocks_chunks", "Feox.C10.written_record_is_accepted", "Feox.C10.written_marker_is_accepted", "Feox.C10.blank_block_is_free", "Feox.Fmt.encodeExtent_shape", "Feox.Fmt.chunks_flatten",
    "Feox.C10.reader_finds_exactly_the_index",
    "Feox.C10.blank_data_area_represents_free",
    "Feox.Fmt.repTiled_sound",
    "Feox.C10.metadata_roundtrip", "Feox.C10.metadata_image_size", "Feox.C10.journal_roundtrip", "Feox.C10.journal_clear_roundtrip", "Feox.C10.journal_slot_selection",
    "Feox.C10.layout_disjoint", "Feox.C10.meta_offsets", "Feox.C10.token_nonzero",
    "Feox.C10.token_ignores_seq_field", "Feox.C10.token_covers_tails", "Feox.C10.parse_layout",
    "Feox.C10.record_roundtrip_unstamped", "Feox.C10.record_roundtrip_stamped",
    "Feox.C10.token_stamp_idempotent", "Feox.C10.marker_roundtrip", "Feox.C10.marker_not_head",
    "Feox.C10.head_not_marker", "Feox.C10.zero_is_neither", "Feox.C10.meta_alternates_by_parity",
    "Feox.C10.meta_select_newest_valid", "Feox.C10.journal_checksum_stamp", "Feox.C10.journal_slots_alternate",
    "Feox.Fmt.crc32c_append",
]

RELEVANT = lambda kind: not kind.startswith("recover-mut") and not kind.startswith("recover-random")


def run(ctx):
    pr = prove(ctx, MODULE, THEOREMS)
    ok, out = cargo_build(ctx, ["fmt"])
    cov0 = lambda extra: proof_coverage(pr, "cd lean && lake build %s feoxdrv && #print axioms audit" % MODULE, TRUSTED_COMMON, extra)
    if not ok:
        violation(ctx, "harness does not build against /repo's working tree", out[-3000:], no_input=True, tag="build")
        return finish(ctx, "proof", cov0({"explanation": "harness build failed"}), [])
    for f in pr["failures"]:
        violation(ctx, "proof obligation not discharged: " + f, "theorem/obligation that no longer checks: %s\n" % f, no_input=True, tag="proof")
    if ctx.replay:
        return replay(ctx, pr, cov0)
    procs = 8 if ctx.tier == "quick" else 16
    wl = 6 if ctx.tier == "quick" else 40
    outs = run_fmt(ctx, ["codec", "golden", "recover"], procs, ["workloads=%d" % wl, "mutations=2", "scale=%d" % (1 if ctx.tier == "quick" else 5)])
    lines = 0
    diffs = 0
    reported = 0
    samples = []
    for o in outs:
        if "crash" in o:
            violation(ctx, "fmt harness/driver crashed: " + o["crash"], o["crash"], tag="crash")
            continue
        for l in read_lines(os.path.join(o["dir"], "fmt.oracle")):
            if l.startswith("clockfloor"):
                continue
            if reported < 3:
                if l.startswith("cleanclose"):
                    import re
                    from proto_engine import keep_file
                    m = re.search(r"(/dev/shm/\S+\.image)", l)
                    if m and os.path.exists(m.group(1)):
                        l = l.replace(m.group(1), keep_file(ctx, m.group(1), "cleanclose%d" % reported))
                    violation(ctx, "a device file the store itself wrote and closed does not follow the format its own reader accepts: " + l, "# %s\n" % l, tag="cleanclose")
                else:
                    violation(ctx, "released-format compatibility fails on the implementation: " + l,
                              "# golden corpus /verif/golden opened with the current code\n# %s\n" % l, tag="golden")
                reported += 1
        lines += len(o["ops"])
        if len(o["impl"]) != len(o["model"]):
            violation(ctx, "driver produced %d lines for %d ops" % (len(o["model"]), len(o["ops"])), "", no_input=True, tag="len")
        for op, im, mo in zip(o["ops"], o["impl"], o["model"]):
            if im != mo:
                diffs += 1
                if reported < 3:
                    reported += 1
                    bad, why = classify(op, im, mo)
                    op2 = save_case(ctx, op, "case%d" % reported)
                    txt = "%s\n# implementation: %s\n# model (independent reader/writer of the documented layout): %s\n" % (op2, im, mo)
                    violation(ctx, "the bytes the implementation reads/writes differ from the documented layout "
                              "(Lean Fmt model = independent reader; correspondence stream 'fmt')" + (": " + why if bad else ""), txt)
        if not samples and o["ops"]:
            samples = [{"op": o["ops"][0][:300], "answer": o["impl"][0][:300]}, {"op": o["ops"][-1][:300], "answer": o["impl"][-1][:600]}]
    hist = merge_hist(outs)
    dn = distinct_nontrivial(outs, lambda op, im: True)
    ctx.log("fmt: %d lines, %d differences" % (lines, diffs))
    cov = cov0({
        "evaluations": lines, "distinct_nontrivial": dn,
        "rule": "codec lines: random + boundary inputs to crc/token/stamp/parse/marker/journal/metadata functions (incl. inputs whose CRC folds to 0); "
                "recover lines: device files written by the real store in v1/v2/v3 mode (random workloads, values containing marker/head look-alikes, "
                "multi-block values, maximal keys), cleanly closed, read by the Lean model and compared with the store's own view (keys, timestamps, "
                "expiries, value digests, sectors, free runs, counters, byte digest of journal+data area); golden files of the pinned release. "
                "Distinct = SHA-1 of (op, answer).",
        "samples": samples, "kind_histogram": hist, "differences": diffs,
        "traces_validated_against_impl": lines,
        "device_files_checked_for_tiling_by_index": sum(1 for o in outs for op in o.get("ops", []) if op.startswith("fmt repfile") or op.startswith("fmt reptiled")),
    })
    # legacy-format devices opened read-write keep their own record layout: extent arithmetic of the writer on v1 / v2
    # devices (standing invariants of the kv harness, findings tagged C10)
    import kv_engine
    kv_engine.inv_stage(ctx, cov)
    # … and of the running store with background workers: the crash workloads of the proto harness (slow workers,
    # deletes chasing in-flight writes) evaluate the standing invariants at every acknowledged flush; a complete,
    # valid record of a key the store does not have is something an independent reader of the file finds (C10)
    import proto_engine
    ok2, _ = cargo_build(ctx, ["proto"])
    if ok2:
        pouts = proto_engine.run_proto(ctx, 6 if ctx.tier == "quick" else 12, ["crash"], ["workloads=%d" % (4 if ctx.tier == "quick" else 20), "budget=0", "lean=0"])
        nfail = 0
        for o in pouts:
            for f in o.get("fails", []):
                if f["prop"] == "C10":
                    nfail += 1
                    if nfail <= 2:
                        violation(ctx, "the device file after an acknowledged flush of a running store: " + f["what"], "# re-run: harness/target/release/proto --seed %d crash workloads=4 budget=0 lean=0\n# %s\n" % (ctx.seed * 1000 + pouts.index(o), f["what"]), tag="ghost")
        cov["running_store_flush_points_judged"] = sum(o.get("meta", {}).get("kinds", {}).get("crash-workload", 0) for o in pouts)
        cov["running_store_ghost_records"] = nfail
        ctx.log("running-store stage: %d crash workloads, %d ghost-record findings" % (cov["running_store_flush_points_judged"], nfail))
    return finish(ctx, "proof", cov, [
        "CRC-32C hardware paths (SSE4.2 / ARM) are exercised only as this machine selects them",
        "O_DIRECT I/O paths never execute in this sandbox (/.dockerenv present)",
        "metadata creation/update times are not compared",
        "the flush-image clause rests on the correspondence runs (store dump vs Lean reader), not on a theorem about the write path",
    ])


def replay(ctx, pr, cov0):
    ops = [l for l in read_lines(ctx.replay) if not l.startswith("#") and l.strip()]
    d = os.path.join(ctx.scratch, "replay")
    os.makedirs(d, exist_ok=True)
    p = os.path.join(d, "in.ops")
    open(p, "w").write("".join(l + "\n" for l in ops))
    run_driver(p, os.path.join(d, "out.model"))
    for a, b in zip(ops, read_lines(os.path.join(d, "out.model"))):
        print(a); print("  model: " + b)
    print("(the implementation side of a fmt case is re-run by `harness/target/release/fmt`; the stored answer is in the replay file)")
    return finish(ctx, "proof", cov0({"explanation": "replay run"}), [])
