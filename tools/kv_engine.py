"""Shared runner for the `kv` correspondence engine (C01, C11, C12, C13, C14, C16)."""
import json, os, subprocess, hashlib
from concurrent.futures import ThreadPoolExecutor
from checklib import *


def split_cases(ops, impl, model):
    cases, cur = [], None
    for i, l in enumerate(ops):
        if l.startswith("kv cfg "):
            if cur:
                cases.append(cur)
            cur = {"start": i, "ops": [], "impl": [], "model": []}
        if cur is not None:
            cur["ops"].append(l)
            cur["impl"].append(impl[i] if i < len(impl) else "<missing>")
            cur["model"].append(model[i] if i < len(model) else "<missing>")
    if cur:
        cases.append(cur)
    return cases


def run_kv(ctx, procs, cases_per_proc, extra=None):
    def one(i):
        d = os.path.join(ctx.scratch, "kv%d" % i)
        os.makedirs(d, exist_ok=True)
        cmd = [harness_bin("kv"), "--seed", str(ctx.seed * 1000 + i), "--tier", ctx.tier, "--out", d, "cases=%d" % cases_per_proc] + (extra or [])
        try:
            r = subprocess.run(cmd, stdout=subprocess.PIPE, stderr=subprocess.PIPE, timeout=300 if ctx.tier == "quick" else 3000)
        except subprocess.TimeoutExpired:
            # a sequential call that never returns (the harness normally needs seconds): said with the calls issued so far
            tail = read_lines(os.path.join(d, "kv.ops"))[-12:] if os.path.exists(os.path.join(d, "kv.ops")) else []
            return {"dir": d, "crash": "TIMEOUT: a call of the store did not return (single-threaded harness, no other caller); last calls written: " + " ; ".join(x[:80] for x in tail)}
        if r.returncode != 0:
            return {"dir": d, "crash": "exit %d: %s" % (r.returncode, r.stderr.decode(errors="replace")[-800:])}
        rc, err = run_driver(os.path.join(d, "kv.ops"), os.path.join(d, "kv.model"))
        res = {"dir": d, "ops": read_lines(os.path.join(d, "kv.ops")), "impl": read_lines(os.path.join(d, "kv.impl")),
               "model": read_lines(os.path.join(d, "kv.model")), "meta": json.load(open(os.path.join(d, "kv.meta.json")))}
        if rc != 0:
            res["crash"] = "driver exit %d: %s" % (rc, err[-500:])
        return res
    with ThreadPoolExecutor(max_workers=procs) as ex:
        return list(ex.map(one, range(procs)))


def replay_case(ctx, op_lines, tag="shr"):
    """re-execute a case (implementation + model); returns (ops, impl, model) as re-emitted"""
    d = os.path.join(ctx.scratch, tag)
    os.makedirs(d, exist_ok=True)
    p = os.path.join(d, "in.ops")
    open(p, "w").write("".join(l + "\n" for l in op_lines))
    r = subprocess.run([harness_bin("kv"), "--replay", p, "--out", d], stdout=subprocess.PIPE, stderr=subprocess.PIPE, timeout=600)
    if r.returncode != 0:
        return None
    run_driver(os.path.join(d, "kv.ops"), os.path.join(d, "kv.model"))
    return read_lines(os.path.join(d, "kv.ops")), read_lines(os.path.join(d, "kv.impl")), read_lines(os.path.join(d, "kv.model"))


def first_mismatch(case):
    for i, (a, b) in enumerate(zip(case["impl"], case["model"])):
        if a != b:
            return i
    return None


def shrink_case(ctx, case, idx):
    """delta-debug the op lines of a case up to the first differing line"""
    lines = case["ops"][:idx + 1]

    def still(c):
        r = replay_case(ctx, c)
        if r is None:
            return True   # crashes count
        _, im, mo = r
        return im != mo
    small = ddmin(lines, still, keep=1, budget=150)
    r = replay_case(ctx, small)
    return small, r


def merge(outs, key):
    h = {}
    for o in outs:
        for k, v in o.get("meta", {}).get(key, {}).items():
            h[k] = h.get(k, 0) + v
    return h


def kv_check(ctx, module, theorems, relevant, what, assumptions, procs=None, cases=None, oracle=None, pre_finish=None, tiers=False):
    """generic flow for the kv-based properties.
    relevant(op_line) -> bool : which differing lines are this property's business
    oracle(op_line, impl_line, model_line) -> str|None : property failure visible on the implementation alone"""
    pr = prove(ctx, module, theorems)
    ok, out = cargo_build(ctx, ["kv"])
    cov0 = lambda extra: proof_coverage(pr, "cd lean && lake build %s feoxdrv && #print axioms audit" % module, TRUSTED_COMMON, extra)
    if not ok:
        violation(ctx, "harness does not build against /repo's working tree", out[-3000:], no_input=True, tag="build")
        return finish(ctx, "proof", cov0({"explanation": "harness build failed"}), [])
    for f in pr["failures"]:
        violation(ctx, "proof obligation not discharged: " + f, "theorem/obligation that no longer checks: %s\n" % f, no_input=True, tag="proof")
    if ctx.replay:
        ops = [l for l in read_lines(ctx.replay) if not l.startswith("#") and l.strip()]
        r = replay_case(ctx, ops, "replay")
        if r:
            for a, b, c in zip(*r):
                print("%s\n    impl : %s\n    model: %s" % (a[:160], b[:200], c[:200]))
            if r[1] != r[2]:
                violation(ctx, "replay reproduces a model/implementation difference", "".join(l + "\n" for l in ops), tag="replay")
        return finish(ctx, "proof", cov0({"explanation": "replay run"}), [])
    procs = procs or (10 if ctx.tier == "quick" else 16)
    cases = cases or (8 if ctx.tier == "quick" else 120)
    # corpus first
    corpus_dir = os.path.join(VERIF, "corpus", "kv")
    corpus_n = 0
    if os.path.isdir(corpus_dir):
        for f in sorted(os.listdir(corpus_dir)):
            ops = [l for l in read_lines(os.path.join(corpus_dir, f)) if not l.startswith("#") and l.strip()]
            r = replay_case(ctx, ops, "corpus")
            corpus_n += 1
            if r and r[1] != r[2]:
                violation(ctx, "corpus case %s: model/implementation difference" % f, "".join(l + "\n" for l in ops), tag="corpus")
    # known findings of this property: replay each recorded history on the real code
    for kf in load_known().get("findings", []):
        if kf.get("property") != ctx.prop:
            continue
        ops = [l for l in read_lines(os.path.join(VERIF, kf["replay"])) if not l.startswith("#") and l.strip()]
        r = replay_case(ctx, ops, "known")
        if r is None:
            continue
        sig = kf["signature"]
        ans = r[1][sig["line"]] if sig["line"] < len(r[1]) else ""
        if ans.startswith(sig["answer_prefix"]):
            ctx.known.append("%s %s [replay %s; implementation and reference model agree: %s]" % (kf["id"], kf["history"], kf["replay"], r[1] == r[2]))
        else:
            # the listed history no longer ends the way the finding says (repaired upstream, or the replay file no longer
            # lines up with the harness): said aloud, so that a silent disappearance is not mistaken for a clean bill
            ctx.log("known finding %s is NOT reproduced by %s on this tree (answer at line %d: `%s`, expected to start with `%s`)" % (kf["id"], kf["replay"], sig["line"], ans[:60], sig["answer_prefix"]))
            ctx.known_missing = getattr(ctx, "known_missing", []) + [kf["id"]]
    outs = run_kv(ctx, procs, cases)
    lines = ncases = diffs = reported = 0
    samples = []
    distinct = set()
    for o in outs:
        if "crash" in o:
            violation(ctx, "kv harness/driver crashed (a panic inside the store aborts the harness): " + o["crash"], o["crash"], tag="crash")
            continue
        lines += len(o["ops"])
        for case in split_cases(o["ops"], o["impl"], o["model"]):
            ncases += 1
            if len(case["ops"]) > 3:
                distinct.add(hashlib.sha1("\n".join(x.split(" | ")[0] for x in case["impl"]).encode()).digest())
            idx = first_mismatch(case)
            if idx is None:
                continue
            diffs += 1
            if case["ops"][idx].startswith("kv panicked"):
                if reported < 3:
                    reported += 1
                    small, r = shrink_case(ctx, case, idx)
                    txt = "".join(l + "\n" for l in (r[0] if r else small))
                    violation(ctx, what + ": the store panicked inside %s (shrunk call sequence; the reference map defines an answer for every call)" % case["ops"][idx].split(" ")[2].replace("_", " "), txt, tag="panic")
                continue
            if not relevant(case["ops"][idx]):
                ctx.notes.append("difference outside this property's operations at: " + case["ops"][idx][:80])
                # still a broken correspondence for the shared model: report once, without an input claim
                if reported < 2:
                    reported += 1
                    violation(ctx, "correspondence stream 'kv' no longer checks (difference on an operation this property's theorems do not speak about): "
                              + case["ops"][idx][:60], "\n".join(case["ops"][:idx + 1]) + "\n# impl : %s\n# model: %s\n" % (case["impl"][idx], case["model"][idx]),
                              no_input=True, tag="other")
                continue
            if reported < 3:
                reported += 1
                small, r = shrink_case(ctx, case, idx)
                txt = "".join(l + "\n" for l in (r[0] if r else small))
                if r:
                    txt += "# implementation answers:\n" + "".join("# " + l + "\n" for l in r[1]) + "# reference (Lean Kv.Spec) answers:\n" + "".join("# " + l + "\n" for l in r[2])
                why = oracle(case["ops"][idx], case["impl"][idx], case["model"][idx]) if oracle else None
                violation(ctx, (what + ": " + (why or "the implementation's answer differs from the reference map's on a shrunk call sequence")), txt)
        if not samples and o["ops"]:
            c = split_cases(o["ops"], o["impl"], o["model"])
            if c:
                samples = [[x[:160] for x in c[0]["ops"][:25]]]
    ctx.log("kv: %d lines, %d cases, %d cases with a difference" % (lines, ncases, diffs))
    cov = cov0({
        "evaluations": lines, "distinct_nontrivial": len(distinct),
        "rule": "single-threaded call sequences (5..400 calls over 2..7 keys with shared prefixes; values 1 B..2 blocks, counters, JSON documents; "
                "automatic / past / equal / +1 / future explicit timestamps; TTLs 0,1,..,u64::MAX; wall clock pinned per call and advanced by ns..seconds) "
                "over every public method, in all of {memory-only, persistent} x {cache on, off} x {TTL on, off} x {v1, v2, v3}, with flush, sweeper batches and clean "
                "reopen placed at random; after every call result + len() + memory_usage() are compared with the Lean reference, periodically the full dump "
                "(keys, timestamps, expiries, value digests, hash/ordered index agreement) and the shard clocks. A case is non-trivial with > 3 lines; distinct by SHA-1 of the implementation's answers.",
        "samples": samples, "cases": ncases, "op_histogram": merge(outs, "ops"), "error_histogram": merge(outs, "errors"),
        "read_tier_histogram": merge(outs, "read_tiers"), "cases_with_difference": diffs, "corpus_cases": corpus_n,
        "traces_validated_against_impl": ncases,
    })
    inv_stage(ctx, cov, outs)
    if tiers:
        tier_stage(ctx, outs, cov)
    if pre_finish:
        pre_finish(ctx, cov)
    return finish(ctx, "proof", cov, assumptions)


def inv_stage(ctx, cov, outs=None, procs=8, cases=None):
    """the standing invariants of a store at rest (harness lib `inv`: index agreement, len / memory accounting,
    clock floor, tier copies after every call; ownership partition, counters and MarkOK after every acknowledged
    flush and reopen), evaluated by the kv harness on every configuration; findings that name this property are
    failing inputs of it"""
    if outs is None:
        ok, out = cargo_build(ctx, ["kv"])
        if not ok:
            return
        outs = run_kv(ctx, procs, cases or (20 if ctx.tier == "quick" else 150))
    n = 0
    for o in outs:
        if "crash" in o:
            continue
        for l in read_lines(os.path.join(o["dir"], "kv.inv.fail")):
            props, _, what = l.partition("\t")
            if ctx.prop not in props.split(","):
                continue
            n += 1
            if n <= 2:
                m = None
                import re
                mm = re.search(r"case (\d+) after call (\d+)", what)
                case_ops = []
                if mm:
                    cs = split_cases(o["ops"], o["impl"], o["model"])
                    ci = int(mm.group(1)) - 1
                    if ci < len(cs):
                        case_ops = cs[ci]["ops"][:int(mm.group(2)) + 1]
                violation(ctx, "a standing invariant of the store fails at rest: " + what, "".join(x + "\n" for x in case_ops) + "# %s\n" % what, tag="inv")
    cov["invariant_findings"] = n
    ctx.log("standing invariants: %d findings for %s" % (n, ctx.prop))


def genuine_stage(ctx, cov, procs=8, cases=None):
    """C08 without a race: in a single-threaded run nothing is "being rewritten" while a read runs, so a value-reading
    call must never answer StaleExtent, and what it returns must be the key's own bytes (the reference map's value).
    Every difference of that kind on the call-by-call kv runs (all formats, block-exact record sizes, retirements next to
    live records) is a failing input of C08: a retirement / reuse that reaches into a neighbour's extent shows here."""
    ok, out = cargo_build(ctx, ["kv"])
    if not ok:
        return
    outs = run_kv(ctx, procs, cases or (20 if ctx.tier == "quick" else 150))
    n = reads = 0
    READS = ("kv get", "kv range", "kv cas", "kv inc", "kv patch")
    for o in outs:
        if "crash" in o:
            continue
        for case in split_cases(o["ops"], o["impl"], o["model"]):
            for i, (op, im, mo) in enumerate(zip(case["ops"], case["impl"], case["model"])):
                if not op.startswith(READS):
                    continue
                reads += 1
                if im == mo:
                    continue
                stale = "StaleExtent" in im and "StaleExtent" not in mo
                other = im.startswith("ok") and mo.startswith("ok") and im.split(" | ")[0] != mo.split(" | ")[0] and op.startswith(("kv get", "kv range"))
                if not (stale or other):
                    continue
                n += 1
                if n <= 2:
                    small, r = shrink_case(ctx, case, i)
                    txt = "".join(l + "\n" for l in (r[0] if r else small))
                    if r:
                        txt += "# implementation answers:\n" + "".join("# " + l + "\n" for l in r[1]) + "# reference (Lean Kv.Spec) answers:\n" + "".join("# " + l + "\n" for l in r[2])
                    violation(ctx, "a read with no concurrent writer " + ("answers StaleExtent (nothing is being rewritten: the key's extent was overwritten or handed to someone else)" if stale else "returns bytes that are not the key's current value") + ": " + im[:80], txt, tag="genuine")
                break
    cov["sequential_reads_judged"] = reads
    cov["sequential_reads_not_genuine"] = n
    ctx.log("sequential genuine-read stage: %d value-reading calls, %d not genuine" % (reads, n))


def tier_stage(ctx, outs, cov):
    """the tier automaton Feox.Kv.Tiers as a monitor: after every call the harness reports, per key, where
    the current generation's bytes are (resident / device / cache entry of that generation); consecutive
    observations must be connected by the model's tier moves, and all copies of a generation must agree"""
    n = bad = copies = 0
    for o in outs:
        if "crash" in o:
            continue
        p = os.path.join(o["dir"], "kv.tiers.ops")
        if not os.path.exists(p):
            continue
        rc, err = run_driver(p, os.path.join(o["dir"], "kv.tiers.model"))
        ops, mo = read_lines(p), read_lines(os.path.join(o["dir"], "kv.tiers.model"))
        if rc != 0 or len(ops) != len(mo):
            violation(ctx, "tier monitor: driver failed on the observation stream", "%s\n" % err[-500:], no_input=True, tag="tiers")
            continue
        at = None
        for a, b in zip(ops, mo):
            if a.startswith("tier at "):
                at = a.split(" ")[2:4]
                continue
            n += 1
            if b != "ok":
                bad += 1
                if bad <= 2:
                    case_ops = []
                    cs = split_cases(o["ops"], o["impl"], o["model"])
                    if at and int(at[0]) - 1 < len(cs):
                        case_ops = cs[int(at[0]) - 1]["ops"][:int(at[1]) + 1]
                    violation(ctx, "a value moved between storage tiers in a way the tier model cannot: observation `%s` after call %s of case %s is %s" % (a, at[1] if at else "?", at[0] if at else "?", b),
                              "".join(l + "\n" for l in case_ops) + "# observation (key index, generation, resident, on device, cached): %s\n# Feox.Kv.Tiers verdict: %s\n" % (a, b), tag="tiers")
        for l in read_lines(os.path.join(o["dir"], "kv.tiers.fail")):
            copies += 1
            if copies <= 2:
                violation(ctx, "two copies of one generation differ: " + l, "# %s\n# re-run: harness/target/release/kv --seed %d --tier %s cases=...\n" % (l, ctx.seed * 1000 + outs.index(o), ctx.tier), tag="tiers")
    ctx.log("tier monitor: %d observations, %d unreachable, %d disagreeing copies" % (n, bad, copies))
    cov["tier_observations"] = n
    cov["tier_unreachable"] = bad
    cov["tier_copy_disagreements"] = copies
