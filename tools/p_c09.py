"""C09 — see DESIGN.md section 6."""
from proto_engine import *

MODULE = "Feox.Props.C09W"
THEOREMS = ['Feox.C09.failed_write_keeps_durable_records_on_bytes', 'Feox.Fmt.recover_crashed_front_write', 'Feox.Fmt.recover_crashed_retirement', 'Feox.C09.device_recovers_flush_succeeds', 'Feox.Proto.Dur.flush_can_complete', 'Feox.Proto.Dur.step_inv2', 'Feox.C09.ack_implies_durable', 'Feox.C09.failure_never_destroys_durable', 'Feox.C09.failed_write_cleanup_safe', 'Feox.C09.inv_under_faults']


def run(ctx):
    return proto_check(ctx, MODULE, THEOREMS, ['fault'], ['faults=2'], ['faults=10'], ['C09'], "I/O failure handling", [
        "kernel / file system: a write either fails or lands; a completed fsync makes every earlier write durable; a crash loses or tears (512 B) any subset of the un-synced writes only",
        "TornDetect: a torn journal slot / metadata block fails its checksum or equals the old or the new image (DESIGN.md section 2) — a hypothesis, not an axiom",
        "the abstract disk (Feox.Proto.Disk) is related to bytes by the Lean reader Feox.Fmt.recoverImage, itself compared with the real recovery on every crash image of this run",
        "faults are injected at the I/O hook (synchronous path; io_uring disabled), not in the kernel",
    ], lambda op: op.startswith("dur "))
