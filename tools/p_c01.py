"""C01 — see DESIGN.md section 6."""
from kv_engine import *

MODULE = "Feox.Props.C01"
THEOREMS = ['Feox.C01.write_iff_newer', 'Feox.C01.reads_latest', 'Feox.C01.delete_effect', 'Feox.C01.error_preserves_contents', 'Feox.C01.error_preserves_view', 'Feox.Kv.doInsert_cases', 'Feox.Kv.step_acc',
            'Feox.C01.tiers_invisible', 'Feox.C01.reads_from_any_tier', 'Feox.Kv.Tiers.step_inv', 'Feox.Kv.Tiers.read_abs', 'Feox.Kv.Tiers.reach_available', 'Feox.Kv.Tiers.reach_cached_on_disk', 'Feox.Kv.Tiers.reach_monotone', 'Feox.Kv.Tiers.step_obs']


def run(ctx):
    return kv_check(ctx, MODULE, THEOREMS, lambda op: True, "sequential API vs last-writer-wins reference", [
        "the reference map is Lean Feox.Kv.Spec; its agreement with the real store is differential testing over the generated sequences",
        "json-patch/serde_json results, the wall clock and the key->clock-shard hash are inputs of the model (recorded per call by the harness)",
        "disk reads are assumed faithful here (C05/C10 cover the bytes); concurrency is outside this engine (Conc engine)",
        "tier model Feox.Kv.Tiers: generations, resident bytes, extents and generation-tagged cache entries with the moves flush / offload / cache fill / eviction / retirement; tied to the code as a monitor over the hook verif_tiers after every call (the observed moves must be moves of the model, all copies of a generation must agree); a TTL-only generation borrowing its predecessor's extent is observed as 'on device'",
    ], tiers=True)
