"""C13 — see DESIGN.md section 6."""
from kv_engine import *
import conc_engine
import fmt_engine, re

MODULE = "Feox.Props.C13W"
THEOREMS = ['Feox.C13.recovery_counters_exact', 'Feox.Fmt.scan_acct', 'Feox.Fmt.insertLive_replace', 'Feox.C13.step_exact', 'Feox.C13.exact', 'Feox.C13.zero_when_empty', 'Feox.C13.insert_refused_changes_nothing', 'Feox.C13.reserve_within_limit', 'Feox.Kv.sweepAll_acc', 'Feox.Kv.doReopen_acc',
            'Feox.C13.limit_never_exceeded_concurrently', 'Feox.C13.concurrent_counter_exact', 'Feox.Conc.Reserve.step_inv', 'Feox.C13.check_then_add_exceeds', 'Feox.C13.rebase_without_recheck_exceeds']


def recovery_stage(ctx, cov):
    """accounting after recovery: devices holding two generations of a key with different value
    lengths (and ordinary ones) are opened by the real store; memory_usage() and len() must equal
    the footprints / number of the records the store itself lists as live (oracle on the
    implementation alone) and the Lean reader's figures"""
    ok, out = cargo_build(ctx, ["fmt"])
    if not ok:
        return
    outs = fmt_engine.run_fmt(ctx, ["dupgen"], 6, ["workloads=%d" % (4 if ctx.tier == "quick" else 60), "mutations=8"])
    n = bad = diff = 0
    for o in outs:
        if "crash" in o:
            violation(ctx, "fmt harness (multi-generation images) did not finish: " + o["crash"], o["crash"], tag="crash")
            continue
        for op, im, mo in zip(o["ops"], o["impl"], o["model"]):
            if not op.startswith("fmt recover") or not im.startswith("ok "):
                continue
            n += 1
            recsize = int(op.split(" ")[-1])
            m = re.search(r" n=(\d+) mem=(\d+) .*live=\[([^\]]*)\]", im)
            if not m:
                continue
            lives = [t.split(":") for t in m.group(3).split(",") if t]
            want = sum(recsize + len(t[0]) // 2 + int(t[3]) for t in lives)
            if int(m.group(2)) != want or int(m.group(1)) != len(lives):
                bad += 1
                if bad <= 2:
                    kept = fmt_engine.save_case(ctx, op, "recacc%d" % bad)
                    violation(ctx, "after recovery memory_usage() = %s but the live records add up to %d (len() = %s, %d live records)" % (m.group(2), want, m.group(1), len(lives)),
                              "# image (as it was before the open): see the path in the line below\n%s\n# implementation: %s\n# Lean reader   : %s\n" % (kept, im[:500], mo[:500]), tag="recacc")
            elif re.findall(r" (n=\d+ mem=\d+)", im) != re.findall(r" (n=\d+ mem=\d+)", mo):
                diff += 1
    ctx.log("recovery accounting stage: %d recovered images, %d oracle failures, %d differences to the Lean reader" % (n, bad, diff))
    cov["recovered_images"] = n
    cov["recovery_accounting_failures"] = bad
    conc_engine.accounting_stage(ctx, cov)


def run(ctx):
    return kv_check(ctx, MODULE, THEOREMS, lambda op: True, "memory accounting (len / memory_usage after every call)", [
        "the reference map is Lean Feox.Kv.Spec; its agreement with the real store is differential testing over the generated sequences",
        "json-patch/serde_json results, the wall clock and the key->clock-shard hash are inputs of the model (recorded per call by the harness)",
        "disk reads are assumed faithful here (C05/C10 cover the bytes)",
        "concurrent clause: checked on the scheduled interleavings of the conc engine only (harness oracle usage = sum of live footprints whenever all threads are parked or idle, and agreement with the Lean Conc system's figures); the bound 'usage never exceeds the limit under any interleaving' is proved on a model of the reservation loop (Feox.Conc.Reserve: load, weak compare-exchange with spurious failures, release; any threads, any order) whose sequential behaviour is tied by the kv engine's OutOfMemory paths; the real loop is exercised by free-running writers (3-8 threads on disjoint keys against a limit that holds a handful of records, a sampler on memory_usage(): no sample above the limit, a refused write leaves its key as it was, final usage = what the admitted writes add up to) - judged by that oracle, not step by step against the model",
    ], pre_finish=recovery_stage)
