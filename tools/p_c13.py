"""C13 — see DESIGN.md section 6."""
from kv_engine import *
import conc_engine

MODULE = "Feox.Props.C13"
THEOREMS = ['Feox.C13.step_exact', 'Feox.C13.exact', 'Feox.C13.zero_when_empty', 'Feox.C13.insert_refused_changes_nothing', 'Feox.C13.reserve_within_limit', 'Feox.Kv.sweepAll_acc', 'Feox.Kv.doReopen_acc',
            'Feox.C13.limit_never_exceeded_concurrently', 'Feox.C13.concurrent_counter_exact', 'Feox.Conc.Reserve.step_inv']


def run(ctx):
    return kv_check(ctx, MODULE, THEOREMS, lambda op: True, "memory accounting (len / memory_usage after every call)", [
        "the reference map is Lean Feox.Kv.Spec; its agreement with the real store is differential testing over the generated sequences",
        "json-patch/serde_json results, the wall clock and the key->clock-shard hash are inputs of the model (recorded per call by the harness)",
        "disk reads are assumed faithful here (C05/C10 cover the bytes)",
        "concurrent clause: checked on the scheduled interleavings of the conc engine only (harness oracle usage = sum of live footprints whenever all threads are parked or idle, and agreement with the Lean Conc system's figures); the bound 'usage never exceeds the limit under any interleaving' is proved on a model of the reservation loop (Feox.Conc.Reserve: load, weak compare-exchange with spurious failures, release; any threads, any order) whose sequential behaviour is tied by the kv engine's OutOfMemory paths - the loop itself is not driven concurrently against the model",
    ], pre_finish=conc_engine.accounting_stage)
