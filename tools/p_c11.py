"""C11 — see DESIGN.md section 6."""
from kv_engine import *

MODULE = "Feox.Props.C11"
THEOREMS = ['Feox.C11.get_never_after', 'Feox.C11.range_never_after', 'Feox.C11.cas_never_after', 'Feox.C11.update_ttl_never_after', 'Feox.C11.patch_never_after', 'Feox.C11.incr_reinitialises', 'Feox.C11.get_never_before', 'Feox.C11.sweep_never_before', 'Feox.C11.survives_restart', 'Feox.C11.restart_drops_expired', 'Feox.C11.expiry_arith', 'Feox.C11.ttl_only_update_keeps_value']


def run(ctx):
    return kv_check(ctx, MODULE, THEOREMS, lambda op: any(op.startswith("kv "+x) for x in ("ins","get","cas","inc","patch","ttl?","uttl","range","sweep","reopen","dump")), "expiry semantics", [
        "the reference map is Lean Feox.Kv.Spec; its agreement with the real store is differential testing over the generated sequences",
        "json-patch/serde_json results, the wall clock and the key->clock-shard hash are inputs of the model (recorded per call by the harness)",
        "disk reads are assumed faithful here (C05/C10 cover the bytes); concurrency is outside this engine (Conc engine)",
    ])
