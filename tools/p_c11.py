"""C11 — see DESIGN.md section 6."""
from kv_engine import *
import fmt_engine
import conc_engine

MODULE = "Feox.Props.C11W"
THEOREMS = ['Feox.Fmt.removeExpired_none', 'Feox.Fmt.no_expired_of_records', 'Feox.C11.recovered_entry_is_a_newest_generation', 'Feox.Fmt.winner_newest', 'Feox.Fmt.findLive_fold', 'Feox.C11.expiry_survives_restart_on_bytes', 'Feox.Fmt.findLive_fold_unique', 'Feox.C11.sweeper_removes_only_expired_current', 'Feox.C11.sweeper_needs_identity_check', 'Feox.Conc.Sweep.step_inv', 'Feox.C11.get_never_after', 'Feox.C11.range_never_after', 'Feox.C11.cas_never_after', 'Feox.C11.update_ttl_never_after', 'Feox.C11.patch_never_after', 'Feox.C11.incr_reinitialises', 'Feox.C11.get_never_before', 'Feox.C11.sweep_never_before', 'Feox.C11.survives_restart', 'Feox.C11.restart_drops_expired', 'Feox.C11.expiry_arith', 'Feox.C11.ttl_only_update_keeps_value',
            'Feox.C11.recovery_keeps_newest', 'Feox.C11.recovery_no_resurrection', 'Feox.Fmt.scan_dominates']


def image_stage(ctx, cov):
    """no resurrection at image level: devices holding two generations of a key (newer/older,
    below/above, expired/live/no expiry at recovery time) are recovered by the real store and by
    the Lean reader; an older generation surfacing where the reader says absent is the violation"""
    ok, out = cargo_build(ctx, ["fmt"])
    if not ok:
        return
    outs = fmt_engine.run_fmt(ctx, ["dupgen"], 6, ["workloads=%d" % (4 if ctx.tier == "quick" else 60), "mutations=8"])
    n = bad = 0
    for o in outs:
        if "crash" in o:
            violation(ctx, "fmt harness (multi-generation images) did not finish: " + o["crash"], o["crash"], tag="crash")
            continue
        for op, im, mo in zip(o["ops"], o["impl"], o["model"]):
            if "dev" not in op or not op.startswith("fmt recover"):
                continue
            n += 1
            if im != mo:
                bad += 1
                if bad <= 2:
                    kept = fmt_engine.save_case(ctx, op, "dupgen%d" % bad)
                    import re
                    keys = lambda l: {t.split(":")[0]: t for t in (re.search(r"live=\[([^\]]*)\]", l).group(1).split(",") if re.search(r"live=\[([^\]]*)\]", l) else []) if t}
                    ki, km = keys(im), keys(mo)
                    extra = [k for k in ki if k not in km]
                    older = [k for k in ki if k in km and ki[k] != km[k]]
                    if extra or older:
                        violation(ctx, "recovery of a device with two generations of a key returns %s although the newest generation of that key on the device says otherwise (Lean reader: %s)" % (
                            "key %s" % extra[0] if extra else "generation %s" % ki[older[0]], "absent" if extra else km[older[0]]),
                            "# image (as it was before the open): see the path in the line below\n%s\n# implementation: %s\n# Lean reader   : %s\n" % (kept, im[:600], mo[:600]), tag="dupgen")
                    else:
                        violation(ctx, "correspondence: the real recovery and the Lean reader disagree on a multi-generation image", "%s\n# implementation: %s\n# Lean reader   : %s\n" % (kept, im[:600], mo[:600]), no_input=True, tag="dupgen")
    ctx.log("image stage: %d multi-generation images, %d differences" % (n, bad))
    cov["multi_generation_images"] = n
    cov["multi_generation_image_differences"] = bad


def run(ctx):
    return kv_check(ctx, MODULE, THEOREMS, lambda op: any(op.startswith("kv "+x) for x in ("ins","get","cas","inc","patch","ttl?","uttl","range","sweep","reopen","dump")), "expiry semantics", [
        "the reference map is Lean Feox.Kv.Spec; its agreement with the real store is differential testing over the generated sequences",
        "json-patch/serde_json results, the wall clock and the key->clock-shard hash are inputs of the model (recorded per call by the harness)",
        "disk reads are assumed faithful here (C05/C10 cover the bytes); concurrency is outside this engine (Conc engine)",
        "sweeper vs writers: Feox.Conc.Sweep models the lock-free sample, the clock and the guarded removal; the real sweeper is parked at the hook point sweep_sampled (between sample and removal) while the key is re-written, TTL-updated, persisted or deleted",
        "no resurrection on crash images: multi-generation images are built by copying a real record to a free block with another timestamp / expiry and re-stamping its token; the Lean reader Feox.Fmt.recoverImage is the reference",
    ], pre_finish=lambda c, cov: (image_stage(c, cov), conc_engine.sweep_stage(c, cov)))
