#!/usr/bin/env python3
"""Translator: extracts the lock-nesting relation of the flush / retirement / shutdown paths from
the Rust source and writes lean/Feox/Gen/Locks.lean.

For every function of the listed files it follows guard lifetimes (a `let g = x.write();` guard
lives to the end of its block or an explicit `drop(g)`; an acquisition inside a larger expression
is a statement temporary) and records an edge A -> B whenever lock B is acquired - directly or
by a callee, transitively - while A is held.  Fails loudly on an acquisition whose receiver it
cannot classify, so that new locks cannot slip past the model."""
import os, re, sys

REPO = os.environ.get("FEOX_REPO", "/repo")
V = os.path.dirname(os.path.dirname(os.path.abspath(__file__)))
FILES = ["src/storage/write_buffer.rs", "src/core/store/persistence.rs", "src/core/store/range.rs", "src/core/store/operations.rs", "src/core/store/atomic.rs", "src/core/store/ttl.rs", "src/core/store/json_patch.rs"]

CLASSES = [
    (r"free_space", "freeSpace"),
    (r"disk_io|disk_guard", "disk"),
    (r"retirement_queue\.flush|\.flush$", "retireFlush"),
    (r"retirement_queue\.pending|\.pending$", "retirePending"),
    (r"buffer$|\.buffer$", "shard"),
    (r"_metadata", "metaLock"),
    (r"periodic_flush_handle|worker_handles", "handles"),
    (r"ttl_sweeper", "sweeper"),
]
LOCKS = ["freeSpace", "disk", "retireFlush", "retirePending", "shard", "metaLock", "handles", "sweeper"]
ACQ_CALL = re.compile(r"\.\s*(write|read|lock)\(\)")


class Acq:
    """one lock acquisition in a statement: `group(1)` = the receiver expression"""
    def __init__(self, recv, start):
        self.recv, self._start = recv, start

    def group(self, i):
        return self.recv

    def start(self):
        return self._start


class _Acq:
    @staticmethod
    def finditer(s):
        for m in ACQ_CALL.finditer(s):
            # the receiver: back from the call over identifiers, `.`, `::`, `?`, `&`, and balanced (...) groups
            i, depth = m.start(), 0
            while i > 0:
                c = s[i - 1]
                if c in ")]":
                    depth += 1
                elif c in "([":
                    if depth == 0:
                        break
                    depth -= 1
                elif depth == 0 and not (c.isalnum() or c in "_.:?&"):
                    break
                i -= 1
            recv = s[i:m.start()].strip()
            if recv:
                yield Acq(recv, i)


ACQ = _Acq


def classify(recv, where):
    recv = recv.replace("self.", "")
    for pat, name in CLASSES:
        if re.search(pat, recv):
            return name
    sys.exit("gen_locks: cannot classify lock receiver `%s` at %s" % (recv, where))


def strip(line):
    line = re.sub(r'"(\\.|[^"\\])*"', '""', line)
    return re.sub(r"//.*$", "", line)


def functions(path):
    """(name, [statements]) for every fn of the file (test modules excluded)"""
    src = open(os.path.join(REPO, path)).read().split("\n")
    out, i = [], 0
    while i < len(src):
        m = re.match(r"\s*(pub(\([a-z]+\))?\s+)?fn\s+(\w+)", strip(src[i]))
        if not m:
            i += 1
            continue
        name, depth, body, started = m.group(3), 0, [], False
        while i < len(src):
            l = strip(src[i])
            body.append(l)
            depth += l.count("{") - l.count("}")
            if "{" in l:
                started = True
            i += 1
            if started and depth <= 0:
                break
            if not started and l.rstrip().endswith(";"):
                break
        out.append((name, body))
    return out


def statements(body):
    """join continuation lines: a statement ends at `;`, `{` or `}`"""
    cur, out = "", []
    for l in body:
        cur += " " + l.strip()
        if l.rstrip().endswith((";", "{", "}", ",")) and cur.count("(") <= cur.count(")"):
            out.append(re.sub(r"\s+\.(?=\w)", ".", cur.strip()))
            cur = ""
    if cur.strip():
        out.append(re.sub(r"\s+\.(?=\w)", ".", cur.strip()))
    return out


def main():
    fns = {}
    for f in FILES:
        for name, body in functions(f):
            fns.setdefault(name, []).extend(statements(body))
    direct, calls = {n: set() for n in fns}, {n: set() for n in fns}
    for n, st in fns.items():
        for s in st[1:] if st else []:
            for m in ACQ.finditer(s):
                direct[n].add(classify(m.group(1), n))
            for g in fns:
                if g != n and g not in ('drop', 'new', 'default', 'from') and re.search(r"(?:(?<![\w\.])|\bself\.)%s\(" % g, s):
                    calls[n].add(g)
    # transitive lock sets
    total = {n: set(direct[n]) for n in fns}
    changed = True
    while changed:
        changed = False
        for n in fns:
            for g in calls[n]:
                if not total[g] <= total[n]:
                    total[n] |= total[g]
                    changed = True
    edges = set()
    for n, st in fns.items():
        held, depth = [], 0   # (guard name, lock, depth at declaration)
        for s in st:
            acqs = [(m, classify(m.group(1), n)) for m in ACQ.finditer(s)] if s is not st[0] else []
            for m, lock in acqs:
                for (_, h, _) in held:
                    edges.add((h, lock, n))
            for g in calls[n]:
                if s is not st[0] and re.search(r"(?:(?<![\w\.])|\bself\.)%s\(" % g, s):
                    for (_, h, _) in held:
                        for lock in total[g]:
                            edges.add((h, lock, "%s -> %s" % (n, g)))
            # `let g = x.write();`, or conditionally taken: `let g = cond.then(|| x.write());`
            d = re.match(r"let\s+(mut\s+)?(\w+)\s*=\s*.*\.\s*(write|read|lock)\(\)\s*\)?\s*;$", s)
            if d and acqs:
                held.append((d.group(2), acqs[-1][1], depth))
            for dm in re.finditer(r"(?<![\w\.])drop\((\w+)\)", s):
                held = [h for h in held if h[0] != dm.group(1)]
            depth += s.count("{") - s.count("}")
            held = [h for h in held if h[2] <= depth]
    edges = sorted(edges)
    out = ["/- generated by tools/gen_locks.py from %s — do not edit -/" % ", ".join(FILES),
           "namespace Feox.Gen", "",
           "inductive Lock", ] + ["  | %s" % l for l in LOCKS] + ["  deriving DecidableEq, Repr", "",
           "/-- (held, acquired, where): lock `acquired` is taken while `held` is held -/",
           "def lockEdges : List (Lock × Lock × String) := ["]
    out += ["  (.%s, .%s, \"%s\")%s" % (a, b, w, "," if i + 1 < len(edges) else "") for i, (a, b, w) in enumerate(edges)]
    out += ["]", "", "/-- functions scanned and the locks each may take (directly or through callees) -/",
            "def lockUsers : List (String × List Lock) := ["]
    users = sorted((n, sorted(t)) for n, t in total.items() if t)
    out += ["  (\"%s\", [%s])%s" % (n, ", ".join("." + x for x in t), "," if i + 1 < len(users) else "") for i, (n, t) in enumerate(users)]
    out += ["]", "", "end Feox.Gen", ""]
    p = os.path.join(V, "lean", "Feox", "Gen", "Locks.lean")
    new = "\n".join(out)
    if not os.path.exists(p) or open(p).read() != new:
        open(p, "w").write(new)
    print("gen_locks: %d functions, %d nesting edges" % (len(fns), len(edges)))


if __name__ == "__main__":
    main()
