#!/bin/bash
# confirm_seed.sh <worktree dir> <name>: confirm a seeded change in its scratch worktree:
# suite passes with the change, demo fails with it and passes without it.
# Writes <dir>/seeded/confirm.txt
D=$1
cd "$D" || exit 2
export CARGO_NET_OFFLINE=true CARGO_TARGET_DIR=$D/target
OUT=$D/seeded/confirm.txt
: > $OUT
DEMO=$(ls seeded/*.rs | head -1)
DEMONAME=$(basename $DEMO .rs)
git checkout -q -- src 2>/dev/null
git apply seeded/patch.diff || { echo "patch does not apply" >> $OUT; exit 1; }
mkdir -p tests; cp $DEMO tests/$DEMONAME.rs
echo "== suite with change (excluding demo)" >> $OUT
cargo test --offline --lib --bins --test feox_migrate_cli 2>&1 | grep -E "^test result|FAILED|failed" | head -8 >> $OUT
echo "== demo with change" >> $OUT
timeout 600 cargo test --offline --test $DEMONAME 2>&1 | grep -E "^test result|panicked|FAILED" | head -5 >> $OUT
git checkout -q -- src
echo "== demo without change" >> $OUT
timeout 600 cargo test --offline --test $DEMONAME 2>&1 | grep -E "^test result|panicked|FAILED" | head -5 >> $OUT
git apply seeded/patch.diff
rm -rf $D/target
cat $OUT
