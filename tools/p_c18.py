"""C18 — see DESIGN.md section 6."""
from conc_engine import *
from checklib import sh, VERIF

MODULE = "Feox.Props.C18"
THEOREMS = ['Feox.C18.lock_order_acyclic', 'Feox.C18.no_lock_cycle', 'Feox.C18.call_terminates_alone',
            'Feox.C18.step_returns_or_progresses', 'Feox.C18.retirement_completes', 'Feox.C18.reader_never_blocked',
            'Feox.C18.retry_bounds', 'Feox.C18.final_flush_terminates', 'Feox.C18.stale_read_loop_bounded', 'Feox.Conc.Loops.bounded', 'Feox.Conc.Loops.unguarded_arm_runs_forever', 'Feox.Conc.solo_progress', 'Feox.Conc.solo_terminates', 'Feox.C18.reentrant_read_deadlocks']

ASSUME = [
    "bounded time on a real scheduler (thread fairness, channel wake-ups, kernel I/O latency) is runtime behaviour the model cannot exhibit: what is proved is deadlock- and livelock-freedom of the modelled protocols",
    "tools/gen_locks.py (translator of guard lifetimes in write_buffer.rs / persistence.rs into Feox.Gen.lockEdges, regenerated on this run) follows `let g = x.write()` guards to the end of their block or drop(g), statement temporaries, and calls transitively; locks inside scc / crossbeam / parking_lot internals and the io.rs process-wide registries are not in its scope",
    "tools/gen_loops.py (translator of the final-flush loop of write_buffer_worker into Feox.Gen.finalFlushArms, regenerated on this run) reads each match arm's top-level statements: break, `counter += 1`, `if counter == LIMIT { .. break }`, other conditional exits; it fails loudly on control flow it does not understand; what flush_worker_shards returns in each round is an arbitrary input of the theorem",
    "hypotheses of the property: no reader stays inside a read forever, the device keeps answering",
]

RULE = ("every scheduled case of the conc engine (2-4 threads parked and released at the hooked points), every read/retirement race and every contention case runs under a 20 s watchdog per wait: "
        "a worker that neither reaches a scheduling point nor returns, a flush() or a drop that does not return is a violation with the schedule as replay; "
        "contention cases: 2 writers (insert/delete/increment/CAS, values up to 3 blocks), 1 reader (get/range), 2 concurrent flush() callers on 3 keys, unscheduled, on a healthy 256-block device, "
        "a 20-30 block device that fills up (OutOfSpace paths), and devices that fail from a random point on - every write and fsync (poisoning / quarantine paths), record-data writes only (the error stays retryable: the final flush at shutdown goes through all its 1024 retries), fsyncs only, journal / metadata writes only - for good or for a short burst, followed by flush() and drop (drop under three watchdog periods). Distinct = SHA-1 of (operation, answer).")


def run(ctx):
    r = sh(["python3", os.path.join(VERIF, "tools", "gen_locks.py")])
    ctx.log(r.stdout.strip() or r.stderr.strip())
    if r.returncode != 0:
        violation(ctx, "the lock-nesting translator could not classify the source: " + ((r.stdout or "") + (r.stderr or ""))[-400:],
                  "# translator tools/gen_locks.py failed; theorem Feox.C18.lock_order_acyclic cannot be re-checked\n" + (r.stdout or "") + (r.stderr or ""), no_input=True, tag="locks")
    r = sh(["python3", os.path.join(VERIF, "tools", "gen_loops.py")])
    ctx.log(r.stdout.strip() or r.stderr.strip())
    if r.returncode != 0:
        violation(ctx, "the retry-loop translator could not read the final-flush loop: " + ((r.stdout or "") + (r.stderr or ""))[-400:],
                  "# translator tools/gen_loops.py failed; theorem Feox.C18.final_flush_terminates cannot be re-checked\n" + (r.stdout or "") + (r.stderr or ""), no_input=True, tag="loops")
    return conc_check(ctx, MODULE, THEOREMS, ['C18', 'C07'], "termination", ASSUME,
                      extra_quick=('cases=60', 'races=6', 'contend=25', 'scanrace=4', 'ring=1', 'flushstorm=1', 'manyflush=2'), extra_thorough=('cases=1500', 'races=80', 'contend=600', 'scanrace=60', 'ring=6', 'flushstorm=3', 'manyflush=30'), rule=RULE)
