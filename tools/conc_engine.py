"""Shared runner for the `conc` engine (C07, C18): schedule-controlled runs of the real store
against the Lean `Conc` system, plus an independent brute-force linearizability search used only
to look for a concrete failing history when model and implementation disagree."""
import json, os, subprocess, hashlib, re
from concurrent.futures import ThreadPoolExecutor
from checklib import *

I64_MAX, I64_MIN = 2**63 - 1, -2**63
ACCEPTED = ("created", "updated", "swapped", "counter", "patched", "deleted")


def strip_how(l):
    return re.sub(r" #\w+$", "", l)


def run_conc(ctx, procs, extra):
    def one(i):
        d = os.path.join(ctx.scratch, "conc%d" % i)
        os.makedirs(d, exist_ok=True)
        cmd = [harness_bin("conc"), "--seed", str(ctx.seed * 1000 + i), "--out", d] + extra
        try:
            r = subprocess.run(cmd, stdout=subprocess.PIPE, stderr=subprocess.PIPE, timeout=420 if ctx.tier == "quick" else 3000)
        except subprocess.TimeoutExpired:
            return {"dir": d, "crash": "TIMEOUT: the conc harness did not finish\n# re-run: %s" % " ".join(cmd)}
        if r.returncode != 0:
            sig = {-11: " (SIGSEGV)", -6: " (SIGABRT)", -7: " (SIGBUS)"}.get(r.returncode, "")
            return {"dir": d, "crash": "exit %d%s: %s\n# re-run: %s" % (r.returncode, sig, r.stderr.decode(errors="replace")[-800:], " ".join(cmd))}
        rc, err = run_driver(os.path.join(d, "conc.ops"), os.path.join(d, "conc.model"))
        fails = []
        for l in read_lines(os.path.join(d, "conc.failures")):
            parts = l.split("\t")
            if len(parts) >= 3:
                fails.append({"prop": parts[0], "what": parts[1], "replay": parts[2]})
        res = {"dir": d, "ops": read_lines(os.path.join(d, "conc.ops")), "impl": read_lines(os.path.join(d, "conc.impl")),
               "model": read_lines(os.path.join(d, "conc.model")), "fails": fails,
               "meta": json.load(open(os.path.join(d, "conc.meta.json")))}
        if rc != 0:
            res["crash"] = "driver exit %d: %s" % (rc, err[-500:])
        return res
    with ThreadPoolExecutor(max_workers=procs) as ex:
        return list(ex.map(one, range(procs)))


# ---------------------------------------------------------------- independent search tool

def parse_history(ops, impl):
    """calls of one case: dicts with tid, key, op tokens, call/ret line index, resp tokens, ts"""
    open_calls, done = {}, []
    for i, (o, a) in enumerate(zip(ops, impl)):
        t = o.split(" ")
        if t[1] == "new":
            continue
        tid, key = int(t[2]), t[3]
        if t[1] == "call":
            open_calls[tid] = {"tid": tid, "key": key, "op": [x for x in t[5:] if x != "bytes"], "call": i}
        c = open_calls.get(tid)
        if c is None:
            continue
        if a.startswith("ret "):
            r = a[4:].split(" ")
            c["ret"] = i
            c["resp"] = [x for x in r if not x.startswith("clock=") and not x.startswith("ts=")]
            ts = [x for x in r if x.startswith("ts=")]
            c["ts"] = int(ts[0][3:]) if ts and ts[0][3:].isdigit() else None
            done.append(c)
            del open_calls[tid]
    return done


def explicit_ts(tok):
    return None if tok in ("-", "0") else int(tok)


def op_ts(c):
    """timestamp the call used, when it can be known from outside"""
    o = c["op"]
    e = {"ins": 3, "del": 1, "cas": 5, "incr": 2, "patch": 2}.get(o[0])
    if e is not None and explicit_ts(o[e]) is not None:
        return explicit_ts(o[e])
    return c.get("ts")


def sat(x):
    return max(I64_MIN, min(I64_MAX, x))


def spec(state, c):
    """sequential last-writer-wins specification; returns list of (state', resp) alternatives
    (several when the call's timestamp is not known from outside)"""
    o, ts = c["op"], op_ts(c)
    older = lambda e: [True, False] if ts is None else [ts <= e[0]]
    nts = ts if ts is not None else (state[0] + 1 if state else 1)
    if o[0] == "get":
        return [(state, ["notFound"] if state is None else ["value", state[1], str(state[2])])]
    if o[0] == "ins":
        v = (o[1], int(o[2]))
        if state is None:
            return [((nts,) + v, ["created"])]
        return [((state, ["older"]) if old else ((nts,) + v, ["updated"])) for old in older(state)]
    if o[0] == "del":
        if state is None:
            return [(state, ["notFound"])]
        return [((state, ["older"]) if old else (None, ["deleted"])) for old in older(state)]
    if o[0] == "cas":
        exp, new = (o[1], int(o[2])), (o[3], int(o[4]))
        if state is None or state[1:] != exp:
            return [(state, ["notSwapped"])]
        return [((state, ["older"]) if old else ((nts,) + new, ["swapped"])) for old in older(state)]
    if o[0] == "incr":
        d = int(o[1])
        if state is None:
            return [((nts, "num", d), ["counter", str(d)])]
        out = []
        for old in older(state):
            if explicit_ts(o[2]) is not None and old:
                out.append((state, ["older"]))
            elif state[1] != "num":
                out.append((state, ["invalidOp"]))
            elif old:
                out.append((state, ["older"]))
            else:
                n = sat(state[2] + d)
                out.append(((nts, "num", n), ["counter", str(n)]))
        return out
    if o[0] == "ifabs":
        if state is None:
            return [((nts, o[1], int(o[2])), ["swapped"])]
        return [(state, ["notSwapped"])]
    if o[0] == "patch":
        if state is None:
            return [(state, ["notFound"])]
        out = []
        for old in older(state):
            if old:
                out.append((state, ["older"]))
            elif state[1] != "json":
                out.append((state, ["patchErr"]))
            else:
                out.append(((nts, "json", int(o[1])), ["patched"]))
        return out
    return []


def permitted_refusal(c, calls):
    """the two deviations the property allows, judged from the history alone (plus C08's
    transient stale-extent error of a read racing with a rewrite: the call took no effect)"""
    r = c["resp"][0]
    if r == "error" and len(c["resp"]) > 1 and c["resp"][1] == "StaleExtent":
        return any(x is not c and x["call"] < c["ret"] and x["ret"] > c["call"] for x in calls)
    if r == "older":
        ts = op_ts(c)
        for x in calls:
            if x is not c and x["resp"][0] in ACCEPTED and x["call"] < c["ret"]:
                xt = op_ts(x)
                if ts is None or xt is None or xt >= ts:
                    return True
    if r == "notSwapped" and c["op"][0] == "cas":
        for x in calls:
            if x is not c and x["resp"][0] in ACCEPTED and x["call"] < c["ret"] and x["ret"] > c["call"]:
                return True
    return False


def linearizable(calls):
    """brute-force search for a sequential order that respects real time (per key)"""
    calls = sorted(calls, key=lambda c: c["call"])
    n = len(calls)
    seen = set()

    def go(done, state):
        if len(done) == n:
            return True
        k = (frozenset(done), state)
        if k in seen:
            return False
        seen.add(k)
        for i, c in enumerate(calls):
            if i in done:
                continue
            # real time: every call that returned before c was invoked must be done already
            if any(j not in done and calls[j]["ret"] < c["call"] for j in range(n) if j != i):
                continue
            for st2, resp in spec(state, c):
                if resp == c["resp"] and go(done | {i}, st2):
                    return True
            if permitted_refusal(c, calls) and go(done | {i}, state):
                return True
        return False
    return go(frozenset(), None)


def case_block(ops, idx):
    s = idx
    while s > 0 and not ops[s].startswith("conc new"):
        s -= 1
    e = idx + 1
    while e < len(ops) and not ops[e].startswith("conc new"):
        e += 1
    return s, e


def conc_check(ctx, module, theorems, props, what, assumptions, extra_quick=('cases=150',), extra_thorough=('cases=4000',), rule=None, pre_finish=None):
    pr = prove(ctx, module, theorems)
    ok, out = cargo_build(ctx, ["conc"])
    cov0 = lambda extra: proof_coverage(pr, "cd lean && lake build %s feoxdrv && #print axioms audit" % module, TRUSTED_COMMON, extra)
    if not ok:
        violation(ctx, "harness does not build against /repo's working tree", out[-3000:], no_input=True, tag="build")
        return finish(ctx, "proof", cov0({"explanation": "harness build failed"}), [])
    for f in pr["failures"]:
        violation(ctx, "proof obligation not discharged: " + f, "theorem/obligation that no longer checks: %s\n" % f, no_input=True, tag="proof")
    procs = 12 if ctx.tier == "quick" else 16
    outs = run_conc(ctx, procs, list(extra_quick if ctx.tier == "quick" else extra_thorough))
    lines = diffs = cases = nfail = reported = nonlin = 0
    kinds, hows, distinct = {}, {}, set()
    deferred = []
    for o in outs:
        if "crash" in o:
            violation(ctx, "conc harness did not finish: " + o["crash"], o["crash"], tag="crash")
            continue
        m = o["meta"]
        cases += m["cases"]
        for k, v in m["kinds"].items():
            kinds[k] = kinds.get(k, 0) + v
        for f in o["fails"]:
            if f["prop"] in props:
                # a listed known finding of this property (known_findings.json, matched by what fails): said, not alarmed
                kf = next((k for k in load_known().get("findings", []) if k.get("property") == ctx.prop and f["prop"] == ctx.prop
                           and k.get("signature", {}).get("what_prefix") and f["what"].startswith(k["signature"]["what_prefix"])), None)
                if kf is not None:
                    line = "%s %s [replay %s; this run: %s]" % (kf["id"], kf["history"], kf["replay"], f["what"][:200])
                    if not any(x.startswith(kf["id"] + " ") for x in ctx.known):
                        ctx.known.append(line)
                    continue
                nfail += 1
                if reported < 3:
                    reported += 1
                    txt = open(f["replay"]).read() if os.path.exists(f["replay"]) else ""
                    violation(ctx, "%s: %s" % (what, f["what"]), "# %s\n# re-run: harness/target/release/conc --seed %d\n%s" % (
                        f["what"], ctx.seed * 1000 + outs.index(o), txt))
        lines += len(o["ops"])
        if "C08" in props:
            for idx, (op, im, mo) in enumerate(zip(o["ops"], o["impl"], o["model"])):
                if not op.startswith("pin "):
                    continue
                distinct.add(hashlib.sha1((op + mo).encode()).digest())
                if im != mo:
                    diffs += 1
                    if reported < 3:
                        reported += 1
                        s0 = idx
                        while s0 > 0 and o["ops"][s0] != "pin new":
                            s0 -= 1
                        body = "".join("%s   # implementation: %s | model: %s\n" % (a, b, c) for a, b, c in zip(o["ops"][s0:idx + 1], o["impl"][s0:idx + 1], o["model"][s0:idx + 1]))
                        violation(ctx, "correspondence: the real extent_state word and the Lean Pin automaton disagree at `%s`: word says `%s`, model `%s`" % (op, im, mo),
                                  "# correspondence that no longer checks: pin-word differential, model Feox.Conc.Pin (theorems Feox.C08.*)\n" + body, no_input=(nfail == 0))
        if "C20" in props:
            for idx, (op, im, mo) in enumerate(zip(o["ops"], o["impl"], o["model"])):
                if not op.startswith("ifl "):
                    continue
                distinct.add(hashlib.sha1((op + mo).encode()).digest())
                if im != mo:
                    diffs += 1
                    if reported < 3:
                        reported += 1
                        s0 = idx
                        while s0 > 0 and o["ops"][s0] != "ifl new":
                            s0 -= 1
                        body = "".join("%s   # implementation: %s | model: %s\n" % (a, b, c) for a, b, c in zip(o["ops"][s0:idx + 1], o["impl"][s0:idx + 1], o["model"][s0:idx + 1]))
                        leak = op == "ifl drop" and any(x == "1" and y == "0" for x, y in zip(im[3:], mo[3:]))
                        violation(ctx, ("the real InFlightBuffers released a buffer the model says the kernel may still hold" if leak else
                                        "correspondence: the real InFlightBuffers and the Lean model disagree") + " at `%s`: implementation `%s`, model `%s`" % (op, im, mo),
                                  "# model Feox.Conc.InFlight (theorems Feox.C20.*); call sequence:\n" + body, no_input=not leak)
        if "C07" not in props:
            continue
        bad_cases = set()
        for idx, (op, im, mo) in enumerate(zip(o["ops"], o["impl"], o["model"])):
            distinct.add(hashlib.sha1((re.sub(r"^conc (call|run) \d+ \S+ s\d+", "", op) + strip_how(mo)).encode()).digest())
            h = re.search(r" #(\w+)$", mo)
            if h:
                hows[h.group(1)] = hows.get(h.group(1), 0) + 1
            if im != strip_how(mo):
                s, e = case_block(o["ops"], idx)
                if s in bad_cases:
                    continue
                bad_cases.add(s)
                diffs += 1
                calls = parse_history(o["ops"][s:e], o["impl"][s:e])
                by_key = {}
                for c in calls:
                    by_key.setdefault(c["key"], []).append(c)
                bad_keys = [k for k, cs in by_key.items() if not linearizable(cs)]
                if bad_keys:
                    nonlin += 1
                body = "".join(l + "\n" for l in o["ops"][s:idx + 1])
                hist = "".join("#   %s | %s\n" % (a, b) for a, b in zip(o["ops"][s:e], o["impl"][s:e]))
                if bad_keys:
                    if reported < 3:
                        reported += 1
                        violation(ctx, "the real store produced a history that no sequential last-writer-wins execution explains (key %s): %s answered `%s`, the model `%s`" % (
                            bad_keys[0], op, im, strip_how(mo)),
                            "# not linearizable (brute-force search over all orders respecting real time, permitted refusals allowed)\n# history (schedule line | implementation answer):\n%s# replay: ./check C07 --replay <this file>\n%s" % (hist, body))
                else:
                    deferred.append((op, im, strip_how(mo), hist, body))
    for op, im, mo, hist, body in deferred:
        if reported >= 3:
            break
        reported += 1
        violation(ctx, "correspondence: the real store and the Lean Conc system disagree: %s answered `%s`, the model `%s`" % (op, im, mo),
                  "# correspondence that no longer checks: conc engine, model Feox.Conc (theorems Feox.C07.*)\n# the history itself is still explained by some sequential order\n%s%s" % (hist, body),
                  no_input=(nonlin == 0))
    ctx.log("conc: %d cases, %d lines, %d implementation-level failures for %s, %d differing cases (%d not linearizable)" % (cases, lines, nfail, props, diffs, nonlin))
    cov = cov0({
        "evaluations": lines, "distinct_nontrivial": len(distinct),
        "rule": rule or "2-4 worker threads run programs of 1-3 calls (get, insert/insert_bytes, delete, compare-and-swap, increment, insert-if-absent, JSON patch; automatic, zero and explicit timestamps around the pinned wall clock) on one or two keys of the real store (memory-only, persistent, persistent+cache; background flusher running); a controller parks every worker at each scheduling point (hook) and a seeded random scheduler picks who goes on; the Lean system replays the same choices and must give the same at/return answer, response, published timestamp and version-clock value on every line; case families: mixed, counters, JSON documents, raw values with explicit timestamps; plus exhaustive enumeration of ALL schedules (lexicographic, re-executed from scratch, capped per set) of small program sets: 2-3 threads x 1-2 calls on one key of a memory-only store. Distinct = SHA-1 of (operation, answer).",
        "cases": cases, "lean_lines": lines, "kind_histogram": kinds, "model_outcome_kinds": hows,
        "implementation_failures": nfail, "lean_differences": diffs, "non_linearizable_histories": nonlin,
        "asan_processes": getattr(ctx, "asan_runs", 0),
    })
    # a few actual lines of this run (schedule line | implementation answer | model answer)
    prefix = "pin " if "C08" in props else "ifl " if "C20" in props else "conc "
    samples = []
    for o in outs:
        if "crash" in o:
            continue
        block = [(a, b, c) for a, b, c in zip(o["ops"], o["impl"], o["model"]) if a.startswith(prefix)][:14]
        if block:
            samples.append(["%s | impl: %s | model: %s" % x for x in block])
            break
    cov["samples"] = samples
    cov["traces_validated_against_impl"] = cases + sum(1 for o in outs if "crash" not in o for a in o["ops"] if a in ("pin new", "ifl new"))
    if pre_finish:
        pre_finish(ctx, cov)
    return finish(ctx, "proof", cov, assumptions)


def conc_replay(ctx, path):
    d = os.path.join(ctx.scratch, "replay")
    os.makedirs(d, exist_ok=True)
    ok, out = cargo_build(ctx, ["conc"])
    r = subprocess.run([harness_bin("conc"), "--replay", path, "--out", d], stdout=subprocess.PIPE, stderr=subprocess.PIPE, timeout=600)
    run_driver(os.path.join(d, "conc.ops"), os.path.join(d, "conc.model"))
    ops, impl, model = read_lines(os.path.join(d, "conc.ops")), read_lines(os.path.join(d, "conc.impl")), read_lines(os.path.join(d, "conc.model"))
    bad = 0
    for o, a, b in zip(ops, impl, model):
        mark = "  " if a == strip_how(b) else "!="
        bad += a != strip_how(b)
        print("%s %s | impl: %s | model: %s" % (mark, o, a, b))
    return bad


def accounting_stage(ctx, cov):
    """C13's concurrent clause: at every point of every scheduled interleaving where all threads
    are parked or idle, memory_usage() and len() equal the footprints / number of the live
    records (harness oracle on the implementation alone) and the Lean system's figures"""
    ok, out = cargo_build(ctx, ["conc"])
    if not ok:
        return
    outs = run_conc(ctx, 8, ["cases=%d" % (120 if ctx.tier == "quick" else 3000), "memrace=%d" % (15 if ctx.tier == "quick" else 400)])
    lines = bad = moddiff = 0
    races = {}
    for o in outs:
        if "crash" in o:
            violation(ctx, "conc harness did not finish: " + o["crash"], o["crash"], tag="crash")
            continue
        lines += len(o["ops"])
        for k, v in o["meta"]["kinds"].items():
            if k.startswith("memory race"):
                races[k] = races.get(k, 0) + v
        for f in o["fails"]:
            if f["prop"] == "C13":
                bad += 1
                if bad <= 2:
                    if "memory race case" in f["what"]:
                        violation(ctx, "memory limit / accounting under free-running writers: " + f["what"],
                                  "# re-run: harness/target/release/conc --seed %d --out <dir> cases=0 memrace=%d\n# %s\n" % (ctx.seed * 1000 + outs.index(o), 15 if ctx.tier == "quick" else 400, f["what"]), tag="memrace")
                        continue
                    txt = open(f["replay"]).read() if os.path.exists(f["replay"]) else ""
                    violation(ctx, "memory accounting under an interleaving: " + f["what"], "# schedule (replay: ./check C07 --replay <this file>)\n" + txt, tag="acc")
        for op, im, mo in zip(o["ops"], o["impl"], o["model"]):
            acc = lambda l: re.findall(r" (mem=\d+ n=\d+)", l)
            if acc(im) != acc(strip_how(mo)):
                moddiff += 1
                if moddiff <= 1 and bad == 0:
                    violation(ctx, "correspondence: memory_usage()/len() differ from the Lean system's figures at `%s`: `%s` vs `%s`" % (op, im, strip_how(mo)), op + "\n", no_input=True, tag="acc")
    ctx.log("accounting stage: %d scheduled lines, %d oracle failures, %d model differences" % (lines, bad, moddiff))
    cov["scheduled_interleaving_lines"] = lines
    cov["accounting_oracle_failures"] = bad
    cov["memory_limit_races"] = races


def sweep_stage(ctx, cov):
    """C11's concurrent clause: the sweeper parked between its lock-free sample and its guarded removal while the
    key is re-written (with / without TTL), TTL-updated, persisted, deleted or left alone"""
    ok, out = cargo_build(ctx, ["conc"])
    if not ok:
        return
    outs = run_conc(ctx, 4, ["cases=0", "sweeps=%d" % (25 if ctx.tier == "quick" else 600), "sweeprace=%d" % (2 if ctx.tier == "quick" else 30)])
    n = bad = 0
    kinds = {}
    for o in outs:
        if "crash" in o:
            violation(ctx, "conc harness did not finish: " + o["crash"], o["crash"], tag="crash")
            continue
        for k, v in o["meta"]["kinds"].items():
            if k.startswith("sweep race") or k.startswith("sweeprace"):
                kinds[k] = kinds.get(k, 0) + v
        n += o["meta"]["kinds"].get("sweep race case", 0)
        for f in o["fails"]:
            if f["prop"] == "C11":
                bad += 1
                if bad <= 2:
                    violation(ctx, "expiry under concurrency: " + f["what"], "# re-run: harness/target/release/conc --seed %d cases=0 sweeps=...\n# %s\n" % (ctx.seed * 1000 + outs.index(o), f["what"]), tag="sweep")
    ctx.log("sweep stage: %d sweeper / writer races, %d failures" % (n, bad))
    cov["sweeper_races"] = kinds
    cov["sweeper_race_failures"] = bad


def clock_stage(ctx, cov):
    """C12 under contention: explicit future timestamps on one key while other threads write automatically to other
    keys of the same clock shard (free-running); an accepted explicit timestamp must be in the shard clock when the
    call returns, and the key's next automatic write must not be refused as older"""
    ok, out = cargo_build(ctx, ["conc"])
    if not ok:
        return
    outs = run_conc(ctx, 4, ["cases=0", "clockrace=%d" % (6 if ctx.tier == "quick" else 200)])
    n = bad = 0
    for o in outs:
        if "crash" in o:
            violation(ctx, "conc harness did not finish: " + o["crash"], o["crash"], tag="crash")
            continue
        n += o["meta"]["kinds"].get("clockrace case", 0)
        for f in o["fails"]:
            if f["prop"] == "C12":
                bad += 1
                if bad <= 2:
                    violation(ctx, "automatic versions under contention: " + f["what"], "# re-run: harness/target/release/conc --seed %d cases=0 clockrace=...\n# %s\n" % (ctx.seed * 1000 + outs.index(o), f["what"]), tag="clockrace")
    ctx.log("clock stage: %d contention cases, %d failures" % (n, bad))
    cov["clock_contention_cases"] = n
    cov["clock_contention_failures"] = bad


def scan_stage(ctx, cov):
    """C14's concurrent clauses: range queries parked at every iteration while keys around them are
    inserted and deleted; the Lean scan model must predict when each scan returns and what, and the
    harness judges the result on its own (ascending, in bounds, at most limit, genuine values, stable
    keys of the covered window exactly once, never-present keys never)"""
    ok, out = cargo_build(ctx, ["conc"])
    if not ok:
        return
    outs = run_conc(ctx, 8, ["cases=0", "scans=%d" % (150 if ctx.tier == "quick" else 5000), "scanrace=%d" % (6 if ctx.tier == "quick" else 150)])
    lines = bad = moddiff = scans = 0
    free = {}
    steps = {}
    for o in outs:
        if "crash" in o:
            violation(ctx, "conc harness did not finish: " + o["crash"], o["crash"], tag="crash")
            continue
        for k, v in o["meta"]["kinds"].items():
            if k.startswith("scan steps"):
                steps[k] = steps.get(k, 0) + v
            if k == "scan case":
                scans += v
            if k.startswith("scanrace"):
                free[k] = free.get(k, 0) + v
        for f in o["fails"]:
            if f["prop"] == "C14":
                bad += 1
                if bad <= 2:
                    violation(ctx, "range query racing with writers: " + f["what"], "# re-run: harness/target/release/conc --seed %d cases=0 scans=...\n# %s\n" % (ctx.seed * 1000 + outs.index(o), f["what"]), tag="scan")
        for idx, (op, im, mo) in enumerate(zip(o["ops"], o["impl"], o["model"])):
            if not op.startswith("scan "):
                continue
            lines += 1
            if im != mo:
                moddiff += 1
                if moddiff <= 1 and bad == 0:
                    s0 = idx
                    while s0 > 0 and not o["ops"][s0].startswith("scan new"):
                        s0 -= 1
                    body = "".join("%s   # implementation: %s | model: %s\n" % (a, b, c) for a, b, c in zip(o["ops"][s0:idx + 1], o["impl"][s0:idx + 1], o["model"][s0:idx + 1]))
                    violation(ctx, "correspondence: the real range_query and the Lean scan model disagree at `%s`: `%s` vs `%s`" % (op[:80], im[:80], mo[:80]),
                              "# model Feox.Conc.Range (theorems Feox.C14.concurrent_scan, absent_never_appears, stable_key_exactly_once)\n" + body, no_input=True, tag="scan")
    ctx.log("scan stage: %d scans, %d lines, %d oracle failures, %d model differences" % (scans, lines, bad, moddiff))
    cov["free_running_scan_races"] = free
    cov["concurrent_scans"] = scans
    cov["concurrent_scan_lines"] = lines
    cov["concurrent_scan_step_histogram"] = steps
    cov["concurrent_scan_oracle_failures"] = bad


def parse_stress(path):
    cases, cur = [], None
    for l in read_lines(path):
        if l.startswith("case "):
            cur = {"head": l, "calls": [], "rows": []}
            cases.append(cur)
            continue
        if cur is None or "|" not in l:
            continue
        a, op, resp = [x.strip() for x in l.split("|", 2)]
        t, i, j = a.split(" ")
        cur["rows"].append(l)
        cur["calls"].append({"tid": int(t), "key": "k", "op": op.split(" "), "call": int(i), "ret": int(j),
                             "resp": [x for x in resp.split(" ") if x], "ts": None})
    return cases


def stress_stage(ctx, cov):
    """free-running threads (no scheduling): every history must be explained by some sequential
    last-writer-wins order that respects real time, permitted refusals allowed (brute-force search;
    implementation against the specification, no model in between)"""
    outs = run_conc(ctx, 8, ["cases=0", "stress=%d" % (250 if ctx.tier == "quick" else 8000)])
    n = bad = overlapping = 0
    for o in outs:
        if "crash" in o:
            violation(ctx, "conc harness did not finish: " + o["crash"], o["crash"], tag="crash")
            continue
        for c in parse_stress(os.path.join(o["dir"], "conc.stress")):
            n += 1
            cs = c["calls"]
            if any(a is not b and a["call"] < b["ret"] and b["call"] < a["ret"] and a["tid"] != b["tid"] for a in cs for b in cs):
                overlapping += 1
            if not linearizable(cs):
                bad += 1
                if bad <= 2:
                    violation(ctx, "free-running threads produced a history that no sequential last-writer-wins execution explains (%s)" % c["head"],
                              "# thread, invocation stamp, response stamp | call | response  (stamps from one global counter)\n" + "".join(r + "\n" for r in c["rows"]), tag="stress")
    ctx.log("stress stage: %d free-running histories (%d with overlapping calls), %d not linearizable" % (n, overlapping, bad))
    cov["free_running_histories"] = n
    cov["free_running_histories_with_overlap"] = overlapping
    cov["free_running_not_linearizable"] = bad
