"""C15 — offline migration is a faithful, verified, non-destructive copy."""
import os
from checklib import *
from fmt_engine import *
from proto_engine import keep_file

MODULE = "Feox.Props.C15"
THEOREMS = [
    "Feox.C15.source_untouched", "Feox.C15.migrate_source_untouched", "Feox.C15.faithful",
    "Feox.C15.refuses_current_and_oversized", "Feox.C15.ambiguous_needs_optin", "Feox.C15.guard_table",
    "Feox.C15.allEnvs_complete",
]


def run(ctx):
    pr = prove(ctx, MODULE, THEOREMS)
    ok, out = cargo_build(ctx, ["fmt"])
    cov0 = lambda extra: proof_coverage(pr, "cd lean && lake build %s feoxdrv && #print axioms audit" % MODULE, TRUSTED_COMMON, extra)
    if not ok:
        violation(ctx, "harness does not build against /repo's working tree", out[-3000:], no_input=True, tag="build")
        return finish(ctx, "proof", cov0({"explanation": "harness build failed"}), [])
    for f in pr["failures"]:
        violation(ctx, "proof obligation not discharged: " + f, "theorem/obligation that no longer checks: %s\n" % f, no_input=True, tag="proof")
    procs = 10 if ctx.tier == "quick" else 16
    wl = 6 if ctx.tier == "quick" else 60
    outs = run_fmt(ctx, ["migrate"], procs, ["workloads=%d" % wl])
    lines = diffs = reported = 0
    samples = []
    for o in outs:
        if "crash" in o:
            violation(ctx, "fmt harness/driver crashed: " + o["crash"], o["crash"], tag="crash")
            continue
        for l in read_lines(os.path.join(o["dir"], "fmt.oracle")):
            if reported < 3:
                reported += 1
                toks = []
                for t in l.split(" "):
                    if t.startswith("/dev/shm/") and os.path.exists(t):
                        t = keep_file(ctx, t, "mig%d" % reported)
                    toks.append(t)
                l = " ".join(toks)
                violation(ctx, "migration property fails on the implementation: " + l, "# %s\n" % l, tag="oracle")
        lines += len(o["ops"])
        for op, im, mo in zip(o["ops"], o["impl"], o["model"]):
            if im != mo:
                diffs += 1
                if reported < 3:
                    reported += 1
                    op2 = save_case(ctx, op, "case%d" % reported)
                    txt = "%s\n# implementation (migrate report; same=1 is what it must be): %s\n# model (Lean reader on source and destination): %s\n" % (op2, im, mo)
                    if im.startswith("panic") or ("same=0" in mo and im.startswith("ok")) or ("dst=" in mo and im.startswith("ok")):
                        violation(ctx, "migrate(): the v3 file it produced does not hold exactly the records a recovery of the source yields "
                                  "(or it panicked): " + mo[:120], txt)
                    else:
                        violation(ctx, "correspondence stream 'fmt/migrate' no longer checks: outcome class / counts differ between migrate() and Feox.Fmt.migrateModel", txt, no_input=True)
        if not samples and o["ops"]:
            samples = [{"op": a[:200], "answer": b[:200]} for a, b in list(zip(o["ops"], o["impl"]))[:4]]
    hist = merge_hist(outs)
    dn = distinct_nontrivial(outs, lambda op, im: True)
    ctx.log("migrate: %d runs, %d differences" % (lines, diffs))
    cov = cov0({
        "evaluations": lines, "distinct_nontrivial": dn,
        "rule": "legacy images written by the real store in v1/v2 mode (random workloads incl. TTL, multi-block values, maximal v1 keys), half of them damaged by the "
                "structure-aware mutators or given an ambiguous legacy marker, plus v3 images; real migrate() with and without the opt-in (and onto a pre-existing destination); "
                "the Lean reader recovers source (read-only) and destination and compares keys, timestamps, expiries, value digests; the harness checks source bytes unchanged, "
                "no file left at the destination or beside it on failure, existing destination untouched. Distinct = SHA-1 of (op, answer).",
        "samples": samples, "kind_histogram": hist, "differences": diffs, "traces_validated_against_impl": lines,
    })
    return finish(ctx, "proof", cov, [
        "the file system is modelled as {destination, temporary} x {absent, foreign, ours}; hard_link/rename atomicity and fsync of the directory are trusted",
        "source-changed detection (FileStamp) is not exercised",
        "that the destination holds exactly the copied records is checked by reading the real destination file with the Lean reader, not by a theorem about the write path",
    ])
