"""Common machinery for ./check: builds, axiom audit, correspondence runs, shrinking,
violation reporting, evidence files."""
import fcntl, hashlib, json, os, re, shutil, subprocess, sys, time, atexit

VERIF = os.path.dirname(os.path.dirname(os.path.abspath(__file__)))
REPO = os.environ.get("FEOX_REPO", "/repo")
LEAN_DIR = os.path.join(VERIF, "lean")
HARNESS_DIR = os.path.join(VERIF, "harness")
DRV = os.path.join(LEAN_DIR, ".lake", "build", "bin", "feoxdrv")
ALLOWED_AXIOMS = {"propext", "Classical.choice", "Quot.sound"}
GUARD = "feoxdb_verif"

FORBIDDEN = re.compile(
    r"\b(sorry|admit|native_decide|bv_decide|implemented_by|unsafe|extern)\b|^\s*axiom\s|maxHeartbeats\s+0\b")


class Ctx:
    def __init__(self, prop, tier):
        self.prop = prop
        self.tier = tier
        self.seed = int(os.environ.get("VERIF_SEED", "1") or "1")
        self.t0 = time.time()
        self.scratch = "/dev/shm/feoxverif.%d" % os.getpid()
        os.makedirs(self.scratch, exist_ok=True)
        atexit.register(lambda: shutil.rmtree(self.scratch, ignore_errors=True))
        self.violations = []      # (message, replay path, no_input: bool)
        self.known = []
        self.notes = []
        self.coverage = {}
        self.assumptions = []
        os.makedirs(os.path.join(VERIF, "replay"), exist_ok=True)
        os.makedirs(os.path.join(VERIF, "evidence"), exist_ok=True)

    def log(self, *a):
        print("[%s %s %6.1fs]" % (self.prop, self.tier, time.time() - self.t0), *a, flush=True)


def sh(cmd, cwd=None, env=None, timeout=None, stdin=None, stdout=None):
    e = dict(os.environ)
    e["CARGO_NET_OFFLINE"] = "true"
    if env:
        e.update(env)
    return subprocess.run(cmd, cwd=cwd, env=e, timeout=timeout, stdin=stdin,
                          stdout=stdout if stdout is not None else subprocess.PIPE,
                          stderr=subprocess.STDOUT if stdout is None else subprocess.PIPE, text=(stdout is None))


class BuildLock:
    def __enter__(self):
        self.f = open(os.path.join(VERIF, ".build.lock"), "w")
        fcntl.flock(self.f, fcntl.LOCK_EX)
        return self

    def __exit__(self, *a):
        fcntl.flock(self.f, fcntl.LOCK_UN)
        self.f.close()


# ---------------------------------------------------------------------------------------
# Lean side

def gen_constants(ctx):
    r = sh([sys.executable, os.path.join(VERIF, "tools", "gen_constants.py")])
    ctx.log(r.stdout.strip())
    return r.returncode == 0, r.stdout


def import_closure(module):
    """source files of `module` and everything it imports inside lean/Feox"""
    seen, todo, files = set(), [module], []
    while todo:
        m = todo.pop()
        if m in seen or not m.startswith("Feox"):
            continue
        seen.add(m)
        p = os.path.join(LEAN_DIR, *m.split(".")) + ".lean"
        if not os.path.exists(p):
            continue
        files.append(p)
        for l in open(p):
            mm = re.match(r"\s*import\s+([\w.]+)", l)
            if mm:
                todo.append(mm.group(1))
    return files


def missing_constants_used(module):
    """constants the translator could not locate in the source (it kept their last value) that the
    property's own theorems and models mention: for those the tie by translation is broken"""
    side = os.path.join(LEAN_DIR, "Feox", "Gen", "constants_status.json")
    try:
        st = json.load(open(side))
    except (OSError, ValueError):
        return [], []
    missing = st.get("missing", {})
    used = []
    if missing:
        text = "\n".join(open(f).read() for f in import_closure(module) if not f.endswith(os.path.join("Gen", "Constants.lean")))
        used = ["%s (%s)" % (k, v) for k, v in sorted(missing.items()) if re.search(r"\b%s\b" % re.escape(k), text)]
    return used, st.get("notes", [])


def lean_source_audit():
    """grep the Lean sources for forbidden constructs (outside comments)."""
    hits = []
    for root, _, files in os.walk(LEAN_DIR):
        if ".lake" in root:
            continue
        for f in files:
            if not f.endswith(".lean"):
                continue
            p = os.path.join(root, f)
            text = open(p).read()
            # strip block comments and line comments
            text = re.sub(r"/-.*?-/", lambda m: "\n" * m.group(0).count("\n"), text, flags=re.S)
            for i, line in enumerate(text.split("\n"), 1):
                line = re.sub(r"--.*", "", line)
                if FORBIDDEN.search(line):
                    hits.append("%s:%d: %s" % (os.path.relpath(p, VERIF), i, line.strip()))
    return hits


def lake_build(ctx, targets):
    with BuildLock():
        r = sh(["lake", "build"] + targets, cwd=LEAN_DIR)
    ok = r.returncode == 0
    if not ok:
        ctx.log("lake build failed:\n" + r.stdout[-4000:])
    return ok, r.stdout


def axiom_audit(ctx, module, theorems):
    """`#print axioms` for every property theorem; returns (discharged list, failures list)."""
    src = "import %s\n" % module + "".join("#print axioms %s\n" % t for t in theorems)
    path = os.path.join(ctx.scratch, "Audit_%s.lean" % ctx.prop)
    open(path, "w").write(src)
    r = sh(["lake", "env", "lean", path], cwd=LEAN_DIR)
    out = r.stdout
    discharged, failures = [], []
    # parse: "'name' depends on axioms: [a, b]" or "'name' does not depend on any axioms"
    flat = re.sub(r"\s+", " ", out)
    for t in theorems:
        m = re.search(r"'%s' (does not depend on any axioms|depends on axioms: \[([^\]]*)\])" % re.escape(t), flat)
        if not m:
            failures.append("%s: not found / did not elaborate" % t)
            continue
        axs = set(a.strip() for a in (m.group(2) or "").split(",") if a.strip())
        bad = axs - ALLOWED_AXIOMS
        if bad:
            failures.append("%s: depends on disallowed axioms %s" % (t, sorted(bad)))
        else:
            discharged.append({"theorem": t, "axioms": sorted(axs)})
    if r.returncode != 0 and not failures:
        failures.append("audit file failed: " + out[-500:])
    return discharged, failures


def prove(ctx, module, theorems, extra_targets=("feoxdrv",)):
    """Regenerate constants, build the property module + driver, audit.  Returns dict."""
    res = {"obligations": len(theorems), "discharged": 0, "failures": [], "theorems": []}
    ok, out = gen_constants(ctx)
    if not ok:
        res["failures"].append("translator gen_constants.py failed: " + out.strip())
        return res
    used, notes = missing_constants_used(module)
    if used:
        res["failures"].append("translator gen_constants.py could not locate constants this property's model uses: " + "; ".join(used))
    res["translator_notes"] = notes
    hits = lean_source_audit()
    if hits:
        res["failures"].append("forbidden constructs in Lean sources: " + "; ".join(hits[:5]))
    ok, out = lake_build(ctx, [module] + list(extra_targets))
    if not ok:
        errs = [l for l in out.split("\n") if "error" in l][:8]
        res["failures"].append("lake build %s failed: %s" % (module, " | ".join(errs)))
        # still try to build the driver alone so a search can run
        lake_build(ctx, list(extra_targets))
        return res
    discharged, failures = axiom_audit(ctx, module, theorems)
    res["discharged"] = len(discharged) if not hits else 0
    res["theorems"] = discharged
    res["failures"] += failures
    if ctx.tier == "thorough":
        # the toolchain's independent re-checker replays the compiled property module (and, through the imports it
        # loads, trusts nothing the elaborator said about it) - thorough tier only: 10-60 s per module
        r = sh(["lake", "env", "leanchecker", module], cwd=LEAN_DIR)
        res["leanchecker"] = "ok" if r.returncode == 0 else "failed"
        if r.returncode != 0:
            res["failures"].append("leanchecker rejects %s: %s" % (module, (r.stdout or "")[-400:].strip()))
        ctx.log("leanchecker %s: %s" % (module, res["leanchecker"]))
    ctx.log("proof: %d/%d obligations discharged" % (res["discharged"], res["obligations"]))
    return res


# ---------------------------------------------------------------------------------------
# Rust side

def cargo_build(ctx, bins):
    # keep the lock file in step with /repo's (offline resolution needs it)
    try:
        shutil.copyfile(os.path.join(REPO, "Cargo.lock"), os.path.join(HARNESS_DIR, "Cargo.lock.repo"))
    except OSError:
        pass
    cmd = ["cargo", "build", "--release", "--offline"]
    for b in bins:
        cmd += ["--bin", b]
    with BuildLock():
        r = sh(cmd, cwd=HARNESS_DIR, env={"RUSTFLAGS": "--cfg " + GUARD})
    if r.returncode != 0:
        ctx.log("cargo build failed:\n" + r.stdout[-6000:])
    return r.returncode == 0, r.stdout


def harness_bin(name):
    return os.path.join(HARNESS_DIR, "target", "release", name)


def run_driver(ops_path, out_path, timeout=3600):
    with open(ops_path, "rb") as fi, open(out_path, "wb") as fo:
        r = subprocess.run([DRV], stdin=fi, stdout=fo, stderr=subprocess.PIPE, timeout=timeout)
    return r.returncode, r.stderr.decode(errors="replace")


def first_diff(a_path, b_path):
    """first differing line number (0-based) or None; also handles length mismatch"""
    with open(a_path, "rb") as fa, open(b_path, "rb") as fb:
        i = 0
        while True:
            la, lb = fa.readline(), fb.readline()
            if not la and not lb:
                return None
            if la != lb:
                return i
            i += 1


def read_lines(p):
    with open(p) as f:
        return f.read().split("\n")[:-1]


# ---------------------------------------------------------------------------------------
# shrinking (delta debugging on a list of lines; `keep` = number of leading lines to retain)

def ddmin(items, test, keep=0, budget=400):
    head, body = items[:keep], items[keep:]
    n = 2
    calls = 0
    while len(body) >= 2 and calls < budget:
        chunk = max(1, len(body) // n)
        reduced = False
        for i in range(0, len(body), chunk):
            cand = body[:i] + body[i + chunk:]
            calls += 1
            if cand != body and test(head + cand):
                body = cand
                n = max(n - 1, 2)
                reduced = True
                break
            if calls >= budget:
                break
        if not reduced:
            if chunk == 1:
                break
            n = min(len(body), n * 2)
    return head + body


# ---------------------------------------------------------------------------------------
# findings / reporting

def load_known():
    p = os.path.join(VERIF, "known_findings.json")
    try:
        return json.load(open(p))
    except OSError:
        return {"findings": [], "fixed": []}


def violation(ctx, message, replay_text, no_input=False, tag="v"):
    h = hashlib.sha256((message + replay_text).encode()).hexdigest()[:10]
    path = os.path.join(VERIF, "replay", "%s_%s_%s.txt" % (ctx.prop, tag, h))
    with open(path, "w") as f:
        f.write("# property %s\n# %s\n" % (ctx.prop, message.replace("\n", "\n# ")))
        f.write(replay_text)
    ctx.violations.append((message, path, no_input))
    return path


def finish(ctx, level, coverage, assumptions):
    ev = {
        "property_id": ctx.prop,
        "tier": ctx.tier,
        "seed": ctx.seed,
        "level": level,
        "coverage": coverage,
        "assumptions": assumptions,
        "wall_s": round(time.time() - ctx.t0, 2),
        "violations": len(ctx.violations),
        "known_findings_reported": len(ctx.known),
    }
    with open(os.path.join(VERIF, "evidence", "%s.json" % ctx.prop), "w") as f:
        json.dump(ev, f, indent=1)
        f.write("\n")
    for k in ctx.known:
        print("KNOWN-FINDING: property=%s %s" % (ctx.prop, k))
    # a broken proof obligation / correspondence for which this same run found a concrete failing
    # input is reported with that input; only when the search found nothing does the line end with
    # no-failing-input-found
    found = [p for (_, p, ni) in ctx.violations if not ni]
    for (msg, path, no_input) in ctx.violations:
        tail = ""
        if no_input and found:
            with open(path, "a") as f:
                f.write("\n# a concrete failing input was found by the same run: %s\n" % found[0])
                try:
                    f.write(open(found[0]).read())
                except OSError:
                    pass
            tail = " failing-input=%s" % found[0]
        elif no_input:
            tail = " no-failing-input-found"
        print("VIOLATION property=%s replay=%s %s%s" % (ctx.prop, path, msg.split("\n")[0][:200], tail))
    if ctx.violations:
        return 1
    print("OK property=%s tier=%s wall=%.1fs" % (ctx.prop, ctx.tier, time.time() - ctx.t0))
    return 0


def proof_coverage(pr, checker_cmd, trusted_base, extra):
    cov = {
        "obligations": pr["obligations"],
        "discharged": pr["discharged"],
        "checker_cmd": checker_cmd,
        "trusted_base": trusted_base,
        "theorems": pr["theorems"],
        "proof_failures": pr["failures"],
    }
    cov.update(extra)
    return cov


TRUSTED_COMMON = [
    "Lean 4.33.0 kernel (lake build; #print axioms audit restricted to propext, Classical.choice, Quot.sound)",
    "tools/gen_constants.py (translator of Rust constants into Feox/Gen/Constants.lean, regenerated on this run)",
    "the hand-written Lean model, tied to /repo's working tree by this run's correspondence check (Rust harness + feoxdrv + line diff)",
]


ASAN_TARGET = os.path.join(HARNESS_DIR, "target-asan")


def cargo_build_asan(ctx, bins):
    """the same harness binaries under AddressSanitizer (nightly toolchain, offline)"""
    cmd = ["cargo", "+nightly", "build", "--release", "--offline", "--target", "x86_64-unknown-linux-gnu"]
    for b in bins:
        cmd += ["--bin", b]
    with BuildLock():
        r = sh(cmd, cwd=HARNESS_DIR, env={"RUSTFLAGS": "--cfg " + GUARD + " -Zsanitizer=address", "CARGO_TARGET_DIR": ASAN_TARGET})
    if r.returncode != 0:
        ctx.log("cargo +nightly (asan) build failed:\n" + r.stdout[-3000:])
    return r.returncode == 0, r.stdout


def asan_bin(name):
    return os.path.join(ASAN_TARGET, "x86_64-unknown-linux-gnu", "release", name)
