"""C17 — opening arbitrary or damaged files fails cleanly: no panic, hang or takeover."""
import os
from checklib import *
from fmt_engine import *

MODULE = "Feox.Props.C17"
THEOREMS = [
    "Feox.C17.bounds_journal", "Feox.C17.bounds_fixed", "Feox.C17.decodeSlot_no_panic",
    "Feox.C17.decodeJournal_no_panic", "Feox.C17.release_err_kind", "Feox.C17.invalid_size_rejected",
    "Feox.C17.bad_metadata_rejected", "Feox.C17.fail_kinds_before_io", "Feox.C17.scan_error_kinds",
    "Feox.C17.scan_no_panic",
    # termination ("never loops"): these definitions are accepted by the termination checker
    "Feox.Fmt.scan", "Feox.Fmt.retireWrites", "Feox.Fmt.toBlocks", "Feox.Fmt.chunks", "Feox.Fmt.coalesceSorted",
    "Feox.Fmt.recoverImage",
]


def run(ctx):
    pr = prove(ctx, MODULE, THEOREMS)
    ok, out = cargo_build(ctx, ["fmt"])
    cov0 = lambda extra: proof_coverage(pr, "cd lean && lake build %s feoxdrv && #print axioms audit" % MODULE, TRUSTED_COMMON, extra)
    if not ok:
        violation(ctx, "harness does not build against /repo's working tree", out[-3000:], no_input=True, tag="build")
        return finish(ctx, "proof", cov0({"explanation": "harness build failed"}), [])
    for f in pr["failures"]:
        violation(ctx, "proof obligation not discharged: " + f, "theorem/obligation that no longer checks: %s\n" % f, no_input=True, tag="proof")
    procs = 12 if ctx.tier == "quick" else 16
    wl = 5 if ctx.tier == "quick" else 60
    outs = run_fmt(ctx, ["codec", "recover"], procs, ["workloads=%d" % wl, "mutations=14", "scale=1"])
    lines = diffs = reported = 0
    outcomes = {}
    samples = []
    for o in outs:
        if "crash" in o:
            # the harness process died: an abort/hang inside the store is a property failure
            violation(ctx, "the harness process died while opening damaged images (abort or hang in the store?): " + o["crash"],
                      "fmt harness --seed %d recover\n%s\n" % (ctx.seed, o["crash"]), tag="crash")
            continue
        lines += len(o["ops"])
        for op, im, mo in zip(o["ops"], o["impl"], o["model"]):
            key = im.split(" ")[0] + " " + (im.split(" ")[1] if im.startswith("err") and " " in im else "")
            outcomes[key.strip()] = outcomes.get(key.strip(), 0) + 1
            bad, why = classify(op, im, mo)
            if bad or im != mo:
                diffs += 1
                if reported < 3:
                    reported += 1
                    op2 = save_case(ctx, op, "case%d" % reported)
                    txt = "%s\n# implementation: %s\n# model: %s\n" % (op2, im, mo)
                    if bad:
                        violation(ctx, "opening a damaged/arbitrary image: " + why, txt)
                    else:
                        violation(ctx, "correspondence stream 'fmt' no longer checks: Feox.Fmt.recoverImage / decoders and the "
                                  "implementation disagree on an image (C17 theorems are about the model; the implementation neither "
                                  "panicked nor modified a rejected file on this image)", txt, no_input=True)
        if not samples and o["ops"]:
            rec = [(a, b) for a, b in zip(o["ops"], o["impl"]) if a.startswith("fmt recover")]
            samples = [{"op": a[:200], "answer": b[:300]} for a, b in rec[:3]]
    hist = merge_hist(outs)
    dn = distinct_nontrivial(outs, lambda op, im: op.startswith("fmt recover") or "jdecode" in op or "metadec" in op)
    ctx.log("fmt: %d lines, %d differences/failures; outcomes %s" % (lines, diffs, outcomes))
    cov = cov0({
        "evaluations": lines, "distinct_nontrivial": dn,
        "rule": "images of valid device sizes (20..64 blocks): files written by the real store in v1/v2/v3 mode then damaged by structure-aware "
                "mutators (bit flips, block swap/duplicate/zero/random, forged key/value lengths with re-stamped tokens, forged markers, forged journal "
                "slots incl. counts 1025..u32::MAX with consistent checksum pairs, metadata damage, truncated extents), random bytes, wrong sizes; "
                "each opened by the real store under catch_unwind and by Feox.Fmt.recoverImage; outcome class, contents, free runs, counters and the "
                "bytes of the file afterwards compared. Non-trivial = recover / journal-decode / metadata-decode cases, distinct by (op, answer).",
        "samples": samples, "kind_histogram": hist, "outcome_histogram": outcomes, "differences": diffs,
        "traces_validated_against_impl": lines,
    })
    return finish(ctx, "proof", cov, [
        "a hang is detected by the per-process timeout of the harness (3000 s) rather than modelled; termination of the scan is proved for the model",
        "`a store that does open answers every call without panicking` is exercised by get() of every recovered key only",
        "the 16-bit record token cannot reject all foreign bytes: accepted-as-the-bytes-say is the model's behaviour too",
    ])
