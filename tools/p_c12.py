"""C12 — see DESIGN.md section 6."""
from kv_engine import *

MODULE = "Feox.Props.C12"
THEOREMS = ['Feox.C12.next_strict', 'Feox.C12.observe_ge', 'Feox.C12.auto_insert_never_older', 'Feox.C12.auto_delete_never_older', 'Feox.C12.auto_cas_never_older', 'Feox.C12.update_ttl_strict', 'Feox.C12.failed_explicit_insert_not_absorbed', 'Feox.C12.failed_explicit_delete_not_absorbed', 'Feox.C12.accepted_explicit_insert_observed', 'Feox.C12.reopen_clock_dominates']


def run(ctx):
    return kv_check(ctx, MODULE, THEOREMS, lambda op: any(op.startswith("kv "+x) for x in ("ins","del","cas","inc","ifabs","patch","uttl","clock","reopen","dump")), "version clock / automatic timestamps", [
        "the reference map is Lean Feox.Kv.Spec; its agreement with the real store is differential testing over the generated sequences",
        "json-patch/serde_json results, the wall clock and the key->clock-shard hash are inputs of the model (recorded per call by the harness)",
        "disk reads are assumed faithful here (C05/C10 cover the bytes); concurrency is outside this engine (Conc engine)",
    ])
