"""C12 — see DESIGN.md section 6."""
from kv_engine import *
import fmt_engine


def image_stage(ctx, cov):
    """the clock floor after a crash recovery: devices holding two generations of a key (what a crash between a
    replacement's commit and the old extent's retirement leaves) are recovered; every indexed key's clock shard
    must stand at or above the key's timestamp, and an automatic write right after the open must not be refused"""
    ok, out = cargo_build(ctx, ["fmt"])
    if not ok:
        return
    outs = fmt_engine.run_fmt(ctx, ["dupgen"], 6, ["workloads=%d" % (4 if ctx.tier == "quick" else 60), "mutations=8"])
    kinds = fmt_engine.merge_hist(outs)
    bad = 0
    for o in outs:
        if "crash" in o:
            violation(ctx, "fmt harness (multi-generation images) did not finish: " + o["crash"], o["crash"], tag="crash")
            continue
        for l in read_lines(os.path.join(o["dir"], "fmt.oracle")):
            if not l.startswith("clockfloor"):
                continue
            bad += 1
            if bad <= 2:
                toks = []
                for t in l.split(" "):
                    if t.startswith("/dev/shm/") and os.path.exists(t):
                        dst = os.path.join(VERIF, "replay", "%s_clockfloor%d_%s" % (ctx.prop, bad, os.path.basename(t)))
                        import shutil
                        shutil.copyfile(t, dst)
                        t = dst
                    toks.append(t)
                violation(ctx, "version clock after recovery: " + " ".join(toks)[:400], "# %s\n" % " ".join(toks), tag="clockfloor")
    n = kinds.get("clock-floor-checked", 0)
    ctx.log("image stage: %d recovered multi-generation devices checked for the clock floor, %d violations" % (n, bad))
    cov["clock_floor_images"] = n
    cov["clock_floor_violations"] = bad

MODULE = "Feox.Props.C12"
THEOREMS = ['Feox.C12.next_strict', 'Feox.C12.observe_ge', 'Feox.C12.auto_insert_never_older', 'Feox.C12.auto_delete_never_older', 'Feox.C12.auto_cas_never_older', 'Feox.C12.update_ttl_strict', 'Feox.C12.failed_explicit_insert_not_absorbed', 'Feox.C12.failed_explicit_delete_not_absorbed', 'Feox.C12.accepted_explicit_insert_observed', 'Feox.C12.reopen_clock_dominates']


def run(ctx):
    return kv_check(ctx, MODULE, THEOREMS, lambda op: any(op.startswith("kv "+x) for x in ("ins","del","cas","inc","ifabs","patch","uttl","clock","reopen","dump")), "version clock / automatic timestamps", [
        "the reference map is Lean Feox.Kv.Spec; its agreement with the real store is differential testing over the generated sequences",
        "json-patch/serde_json results, the wall clock and the key->clock-shard hash are inputs of the model (recorded per call by the harness)",
        "disk reads are assumed faithful here (C05/C10 cover the bytes); concurrency is outside this engine (Conc engine)",
        "restart side on crash images: devices with two generations of a key (forged by copying a real record with another timestamp) are recovered and the clock floor of every key's shard is read through the hooks (reopen_clock_dominates is the model-side statement)",
    ], pre_finish=lambda c, cov: (image_stage(c, cov), __import__("conc_engine").clock_stage(c, cov)))
