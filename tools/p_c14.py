"""C14 — see DESIGN.md section 6."""
from kv_engine import *

MODULE = "Feox.Props.C14"
THEOREMS = ['Feox.C14.range_spec', 'Feox.C14.range_props', 'Feox.C14.range_empty', 'Feox.C14.range_complete', 'Feox.C14.reachable_sorted', 'Feox.Kv.bytesLt_trans', 'Feox.Kv.bytesLt_total']


def run(ctx):
    return kv_check(ctx, MODULE, THEOREMS, lambda op: op.startswith("kv range") or op.startswith("kv dump"), "range query", [
        "the reference map is Lean Feox.Kv.Spec; its agreement with the real store is differential testing over the generated sequences",
        "json-patch/serde_json results, the wall clock and the key->clock-shard hash are inputs of the model (recorded per call by the harness)",
        "disk reads are assumed faithful here (C05/C10 cover the bytes); concurrency is outside this engine (Conc engine)",
    ])
