"""C14 — see DESIGN.md section 6."""
from kv_engine import *
import conc_engine

MODULE = "Feox.Props.C14"
THEOREMS = ['Feox.C14.range_spec', 'Feox.C14.range_props', 'Feox.C14.range_empty', 'Feox.C14.range_complete', 'Feox.C14.reachable_sorted', 'Feox.Kv.bytesLt_trans', 'Feox.Kv.bytesLt_total',
            'Feox.C14.concurrent_scan', 'Feox.C14.absent_never_appears', 'Feox.C14.stable_key_exactly_once', 'Feox.Conc.Range.inv_step', 'Feox.Conc.Range.nextKey_le']


def run(ctx):
    return kv_check(ctx, MODULE, THEOREMS, lambda op: op.startswith("kv range") or op.startswith("kv dump"), "range query", [
        "the reference map is Lean Feox.Kv.Spec; its agreement with the real store is differential testing over the generated sequences",
        "json-patch/serde_json results, the wall clock and the key->clock-shard hash are inputs of the model (recorded per call by the harness)",
        "disk reads are assumed faithful here (C05/C10 cover the bytes)",
        "concurrent clauses: the scan model Feox.Conc.Range takes the ordered index at each iteration as an arbitrary input and assumes the skip list's lower_bound / Entry::next return the smallest live key at or above the position at that instant (crossbeam-skiplist), and that one iteration (visit + move) is atomic with respect to the writers the scheduler runs between iterations; keys are abstract (their order only)",
    ], pre_finish=conc_engine.scan_stage)
