#!/bin/sh
# Offline build of the framework: Lean library + driver, Rust harness against /repo.
set -e
cd "$(dirname "$0")"
export CARGO_NET_OFFLINE=true
python3 tools/gen_constants.py
python3 tools/gen_locks.py
python3 tools/gen_loops.py
python3 tools/gen_epoch.py
python3 tools/gen_unsafe.py
(cd lean && lake build Feox feoxdrv)
cp /repo/Cargo.lock harness/Cargo.lock 2>/dev/null || true
(cd harness && RUSTFLAGS="--cfg feoxdb_verif" cargo build --release --offline)
echo setup done
