//! Correspondence harness for the sequential API (C01, C11, C12, C13, C14, C16): drives the
//! real `FeoxStore` through every public method in all configurations and writes the op lines
//! (`kv.ops`) and what the implementation answered (`kv.impl`) for the Lean `Kv.Spec` model.
use bytes::Bytes;
use feox_verif_harness::*;
use feoxdb::storage::metadata::Metadata;
use feoxdb::{FeoxError, FeoxStore};
use std::collections::BTreeMap;
use std::io::{BufRead, Write};
use std::sync::Arc;

const BS: u64 = 4096;

#[derive(Clone, Debug)]
enum Op {
    Ins { k: Vec<u8>, v: Vec<u8>, ts: Option<u64>, ttl: u64, api: bool, bytes_api: bool },
    Get { k: Vec<u8>, bytes_api: bool },
    Size { k: Vec<u8> },
    Has { k: Vec<u8> },
    Del { k: Vec<u8>, ts: Option<u64> },
    Cas { k: Vec<u8>, e: Vec<u8>, n: Vec<u8>, ts: Option<u64>, ttl: u64 },
    Inc { k: Vec<u8>, d: i64, ts: Option<u64>, ttl: u64 },
    IfAbs { k: Vec<u8>, v: Vec<u8> },
    Patch { k: Vec<u8>, p: Vec<u8>, ts: Option<u64> },
    TtlQ { k: Vec<u8> },
    UTtl { k: Vec<u8>, ttl: u64, persist: bool },
    Range { a: Vec<u8>, b: Vec<u8>, lim: usize },
    Len,
    Mem,
    Flush,
    Sweep,
    Reopen { ttl: bool, cache: bool },
    Dump,
    Clock { k: Vec<u8> },
    Advance { ns: u64 },
}

#[derive(Clone, Debug)]
struct Cfg {
    mem: bool,
    cache: bool,
    ttl: bool,
    fmt: u32,
    max: Option<usize>,
    blocks: u64,
}

struct Sink {
    ops: std::io::BufWriter<std::fs::File>,
    imp: std::io::BufWriter<std::fs::File>,
    hist: BTreeMap<String, u64>,
    errs: BTreeMap<String, u64>,
    tiers: BTreeMap<String, u64>,
    lines: u64,
    cases: u64,
    /// tier monitor: observations for the Lean automaton (`tier …` lines, every answer is `ok`)
    tops: std::io::BufWriter<std::fs::File>,
    tlines: u64,
    /// copies of one generation that differ from one another (implementation-level oracle)
    tfail: Vec<String>,
    opno: u64,
    /// standing invariants (harness lib `inv`) that failed: "PROPS\twhat"
    inv_fail: Vec<String>,
    /// a recorded call sequence is being replayed: nothing is added to it (the clock lines after a reopen are in the file)
    replaying: bool,
    inv_checks: u64,
    /// the last emitted answer started with `ok`
    last_res_ok: bool,
}

impl Sink {
    fn emit(&mut self, kind: &str, op: String, res: String) {
        writeln!(self.ops, "kv {}", op).unwrap();
        writeln!(self.imp, "{}", res).unwrap();
        self.last_res_ok = res.starts_with("ok");
        *self.hist.entry(kind.to_string()).or_insert(0) += 1;
        if let Some(e) = res.strip_prefix("err ") {
            let e = e.split(' ').next().unwrap_or("");
            *self.errs.entry(format!("{}:{}", kind, e)).or_insert(0) += 1;
        }
        self.lines += 1;
    }
}

fn fnv(b: &[u8]) -> u64 {
    let mut h: u64 = 14695981039346656037;
    for x in b {
        h = (h ^ (*x as u64)).wrapping_mul(1099511628211);
    }
    h
}

fn vdig(v: &[u8]) -> String {
    format!("{}:{}", v.len(), fnv(v))
}

fn ots(t: Option<u64>) -> String {
    t.map(|x| x.to_string()).unwrap_or_else(|| "-".into())
}

fn res_str<T>(r: Result<T, FeoxError>, f: impl Fn(T) -> String) -> String {
    match r {
        Ok(v) => f(v),
        Err(e) => format!("err {}", err_name(&e)),
    }
}

struct Sut {
    /// a call panicked: the rest of the case is skipped
    panicked: bool,
    store: Option<Arc<FeoxStore>>,
    cfg: Cfg,
    path: String,
    now: u64,
    keys: Vec<Vec<u8>>,
}

impl Sut {
    fn open(&mut self) -> Result<(), FeoxError> {
        feoxdb::verif::clock::pin(self.now);
        let mut b = FeoxStore::builder().hash_bits(6).enable_ttl(self.cfg.ttl);
        b = match self.cfg.max {
            Some(m) => b.max_memory(m),
            None => b.no_memory_limit(),
        };
        if !self.cfg.mem {
            b = b.device_path(self.path.clone()).file_size(self.cfg.blocks * BS).enable_caching(self.cfg.cache);
        }
        let s = b.build()?;
        self.store = Some(Arc::new(s));
        Ok(())
    }
    fn st(&self) -> &Arc<FeoxStore> {
        self.store.as_ref().unwrap()
    }
    fn tail(&self) -> String {
        format!(" | n={} mem={}", self.st().len(), self.st().memory_usage())
    }
}

fn new_device(path: &str, blocks: u64, version: u32) {
    let _ = std::fs::remove_file(path);
    let f = std::fs::File::create(path).unwrap();
    if version != 3 {
        f.set_len(blocks * BS).unwrap();
        let mut m = Metadata::new();
        m.version = version;
        m.device_size = blocks * BS;
        m.update();
        use std::os::unix::fs::FileExt;
        f.write_all_at(&m.encode(), 0).unwrap();
    }
}

/// after every call: where the current generation of every key of the case lives (resident bytes,
/// device, cache entry of that generation) - for the tier automaton `Feox.Kv.Tiers` - and whether
/// all copies agree
fn observe_tiers(sut: &mut Sut, s: &mut Sink, fresh: bool) {
    let Some(st) = sut.store.clone() else { return };
    s.opno += 1;
    if fresh { writeln!(s.tops, "tier new").unwrap(); s.tlines += 1; }
    writeln!(s.tops, "tier at {} {}", s.cases, s.opno).unwrap();
    s.tlines += 1;
    for (i, k) in sut.keys.iter().enumerate() {
        match st.verif_tiers(k) {
            None => writeln!(s.tops, "tier {} -", i).unwrap(),
            Some(t) => {
                let gen = (t.timestamp ^ (t.id as u64).rotate_left(17)) % 1_000_000_007;
                writeln!(s.tops, "tier {} {} {} {} {}", i, gen, t.resident.is_some() as u8, t.on_disk.is_some() as u8, t.cached.is_some() as u8).unwrap();
                let copies: Vec<(&str, &Vec<u8>)> = [("resident", &t.resident), ("device", &t.on_disk), ("cache", &t.cached)].iter().filter_map(|(n, c)| c.as_ref().map(|c| (*n, c))).collect();
                *s.tiers.entry(format!("tiers r{}d{}c{}", t.resident.is_some() as u8, t.on_disk.is_some() as u8, t.cached.is_some() as u8)).or_insert(0) += 1;
                for w in copies.windows(2) {
                    if w[0].1 != w[1].1 && s.tfail.len() < 5 {
                        s.tfail.push(format!("case {} after call {}: key {} (ts {}): the {} copy ({} bytes, {}) and the {} copy ({} bytes, {}) of one generation differ",
                            s.cases, s.opno, hex(k), t.timestamp, w[0].0, w[0].1.len(), fnv(w[0].1), w[1].0, w[1].1.len(), fnv(w[1].1)));
                    }
                }
            }
        }
        s.tlines += 1;
    }
}

fn exec(sut: &mut Sut, s: &mut Sink, op: &Op) {
    let fresh = matches!(op, Op::Reopen { .. });
    if sut.panicked { return; }
    // a panic inside the store is an answer like any other (the reference never panics); the case ends there
    let r = std::panic::catch_unwind(std::panic::AssertUnwindSafe(|| exec_call(sut, s, op)));
    if r.is_err() {
        sut.panicked = true;
        s.emit("panic", format!("panicked {}", op_name(op).replace(' ', "_")), "the store panicked".into());
        if let Some(st) = sut.store.take() { std::mem::forget(st); }
        return;
    }
    observe_tiers(sut, s, fresh);
    // the standing invariants: after every call; the ownership partition where a flush was just acknowledged
    if let Some(st) = sut.store.clone() {
        let mut found = feox_verif_harness::inv::quiescent(&st);
        let acked = match op { Op::Flush => s.last_res_ok, Op::Reopen { .. } => true, _ => false };
        if acked && !sut.cfg.mem { found.extend(feox_verif_harness::inv::after_flush_opt(&st, &sut.path, matches!(op, Op::Flush))); }
        s.inv_checks += 1;
        for f in found {
            if s.inv_fail.len() < 6 {
                s.inv_fail.push(format!("{}\tcase {} after call {} (`{}`): {}", f.props.join(","), s.cases, s.opno, op_name(op), f.what));
            }
        }
    }
}

fn op_name(op: &Op) -> &'static str {
    match op {
        Op::Ins { .. } => "insert", Op::Del { .. } => "delete", Op::Get { .. } => "get", Op::Cas { .. } => "compare_and_swap", Op::Inc { .. } => "atomic_increment",
        Op::IfAbs { .. } => "insert_if_absent", Op::Patch { .. } => "json_patch", Op::TtlQ { .. } => "get_ttl", Op::UTtl { .. } => "update_ttl / persist",
        Op::Range { .. } => "range_query", Op::Flush => "flush", Op::Reopen { .. } => "reopen", Op::Advance { .. } => "clock advance", _ => "call",
    }
}

fn exec_call(sut: &mut Sut, s: &mut Sink, op: &Op) {
    feoxdb::verif::clock::pin(sut.now);
    let now = sut.now;
    match op {
        Op::Advance { ns } => {
            sut.now = sut.now.saturating_add(*ns);
        }
        Op::Ins { k, v, ts, ttl, api, bytes_api } => {
            let st = sut.st().clone();
            let shard = st.verif_clock_shard(k);
            let r = match (*api, *bytes_api) {
                (false, false) => st.insert_with_timestamp(k, v, *ts),
                (false, true) => st.insert_bytes_with_timestamp(k, Bytes::from(v.clone()), *ts),
                (true, false) => {
                    if ts.is_none() { st.insert_with_ttl(k, v, *ttl) } else { st.insert_with_ttl_and_timestamp(k, v, *ttl, *ts) }
                }
                (true, true) => {
                    if ts.is_none() { st.insert_bytes_with_ttl(k, Bytes::from(v.clone()), *ttl) } else { st.insert_bytes_with_ttl_and_timestamp(k, Bytes::from(v.clone()), *ttl, *ts) }
                }
            };
            let ttl_line = if *api { *ttl } else { 0 };
            let line = format!("ins {} {} {} {} {} {} {}", hex(k), hex(v), ots(*ts), ttl_line, *api as u8, shard, now);
            let res = res_str(r, |b| format!("ok {}", b)) + &sut.tail();
            s.emit(if *api { "ins-ttl" } else { "ins" }, line, res);
        }
        Op::Get { k, bytes_api } => {
            let st = sut.st().clone();
            let tier = st.verif_snapshot().iter().find(|r| &r.key == k).map(|r| if r.resident { "resident" } else if r.sector != 0 { "disk-or-cache" } else { "deferred" }).unwrap_or("absent");
            *s.tiers.entry(tier.to_string()).or_insert(0) += 1;
            let r = if *bytes_api { st.get_bytes(k).map(|b| b.to_vec()) } else { st.get(k) };
            let res = res_str(r, |v| format!("ok {}", vdig(&v))) + &sut.tail();
            s.emit("get", format!("get {} {}", hex(k), now), res);
        }
        Op::Size { k } => {
            let r = sut.st().get_size(k);
            let res = res_str(r, |n| format!("ok {}", n)) + &sut.tail();
            s.emit("size", format!("size {}", hex(k)), res);
        }
        Op::Has { k } => {
            let r = sut.st().contains_key(k);
            let res = format!("ok {}", r) + &sut.tail();
            s.emit("has", format!("has {}", hex(k)), res);
        }
        Op::Del { k, ts } => {
            let st = sut.st().clone();
            let shard = st.verif_clock_shard(k);
            let r = st.delete_with_timestamp(k, *ts);
            let res = res_str(r, |_| "ok".into()) + &sut.tail();
            s.emit("del", format!("del {} {} {} {}", hex(k), ots(*ts), shard, now), res);
        }
        Op::Cas { k, e, n, ts, ttl } => {
            let st = sut.st().clone();
            let shard = st.verif_clock_shard(k);
            let r = st.compare_and_swap_with_timestamp_and_ttl(k, e, n, *ts, *ttl);
            let res = res_str(r, |b| format!("ok {}", b)) + &sut.tail();
            s.emit("cas", format!("cas {} {} {} {} {} {} {}", hex(k), hex(e), hex(n), ots(*ts), ttl, shard, now), res);
        }
        Op::Inc { k, d, ts, ttl } => {
            let st = sut.st().clone();
            let shard = st.verif_clock_shard(k);
            let r = st.atomic_increment_with_timestamp_and_ttl(k, *d, *ts, *ttl);
            let res = res_str(r, |v| format!("ok {}", v)) + &sut.tail();
            s.emit("inc", format!("inc {} {} {} {} {} {}", hex(k), d, ots(*ts), ttl, shard, now), res);
        }
        Op::IfAbs { k, v } => {
            let st = sut.st().clone();
            let shard = st.verif_clock_shard(k);
            let r = st.insert_if_absent(k, v);
            let res = res_str(r, |b| format!("ok {}", b)) + &sut.tail();
            s.emit("ifabs", format!("ifabs {} {} {} {}", hex(k), hex(v), shard, now), res);
        }
        Op::Patch { k, p, ts } => {
            let st = sut.st().clone();
            let shard = st.verif_clock_shard(k);
            let cur = st.verif_peek_value(k);
            let pres = match cur {
                Some(c) => match feoxdb::utils::json_patch::apply_json_patch(&c, p) {
                    Ok(v) => format!("ok:{}", hex(&v)),
                    Err(_) => "errJ".to_string(),
                },
                None => "-".to_string(),
            };
            let r = st.json_patch_with_timestamp(k, p, *ts);
            let res = res_str(r, |_| "ok".into()) + &sut.tail();
            s.emit("patch", format!("patch {} {} {} {} {}", hex(k), ots(*ts), shard, now, pres), res);
        }
        Op::TtlQ { k } => {
            let r = sut.st().get_ttl(k);
            let res = res_str(r, |t| match t { None => "ok none".into(), Some(x) => format!("ok some {}", x) }) + &sut.tail();
            s.emit("ttl?", format!("ttl? {} {}", hex(k), now), res);
        }
        Op::UTtl { k, ttl, persist } => {
            let st = sut.st().clone();
            let shard = st.verif_clock_shard(k);
            let r = if *persist { st.persist(k) } else { st.update_ttl(k, *ttl) };
            let res = res_str(r, |_| "ok".into()) + &sut.tail();
            let t = if *persist { 0 } else { *ttl };
            s.emit(if *persist { "persist" } else { "uttl" }, format!("uttl {} {} {} {} {}", hex(k), t, *persist as u8, shard, now), res);
        }
        Op::Range { a, b, lim } => {
            let r = sut.st().range_query(a, b, *lim);
            let res = res_str(r, |ps| format!("ok [{}]", ps.iter().map(|p| format!("{}={}", hex(&p.0), vdig(&p.1))).collect::<Vec<_>>().join(","))) + &sut.tail();
            s.emit("range", format!("range {} {} {} {}", hex(a), hex(b), lim, now), res);
        }
        Op::Len => {
            let res = format!("ok {}", sut.st().len()) + &sut.tail();
            s.emit("len", "len".into(), res);
        }
        Op::Mem => {
            let res = format!("ok {}", sut.st().memory_usage()) + &sut.tail();
            s.emit("mem", "mem".into(), res);
        }
        Op::Flush => {
            let r = sut.st().flush();
            let res = res_str(r, |_| "ok".into()) + &sut.tail();
            s.emit("flush", "flush".into(), res);
        }
        Op::Sweep => {
            let st = sut.st().clone();
            let _ = feoxdb::core::ttl_sweep::verif_sweep_batch(&st, 10_000);
            let res = "ok".to_string() + &sut.tail();
            s.emit("sweep", format!("sweep {}", now), res);
        }
        Op::Reopen { ttl, cache } => {
            // clean close (flush + drop), then a new handle on the same file
            if let Some(st) = sut.store.take() {
                let _ = st.flush();
                match Arc::try_unwrap(st) {
                    Ok(st) => drop(st),
                    Err(_) => panic!("store still shared"),
                }
            }
            sut.cfg.ttl = *ttl && sut.cfg.fmt != 1 || (*ttl && sut.cfg.mem);
            sut.cfg.cache = *cache;
            let r = sut.open();
            match r {
                Ok(()) => {
                    let st = sut.st().clone();
                    // every key the workload uses *and* every key the new handle recovered (directed
                    // cases use keys outside the workload's list)
                    let mut all: Vec<Vec<u8>> = sut.keys.clone();
                    for r in st.verif_snapshot() {
                        if !all.contains(&r.key) {
                            all.push(r.key);
                        }
                    }
                    let shards: Vec<String> = all.iter().map(|k| format!("{}:{}", hex(k), st.verif_clock_shard(k))).collect();
                    let res = "ok".to_string() + &sut.tail();
                    s.emit("reopen", format!("reopen {} {} {}", sut.cfg.ttl as u8, now, if shards.is_empty() { "-".into() } else { shards.join(",") }), res);
                    // what recovery fed the new handle's version clock: the shard of every key, right after the open
                    let mut seen: Vec<usize> = vec![];
                    for k in &all {
                        let shard = st.verif_clock_shard(k);
                        if !seen.contains(&shard) && !s.replaying {
                            seen.push(shard);
                            s.emit("clock-after-reopen", format!("clock {} {}", shard, hex(k)), format!("ok {}", st.verif_clock_value(shard)));
                        }
                    }
                }
                Err(e) => {
                    s.emit("reopen", format!("reopen {} {} -", sut.cfg.ttl as u8, now), format!("err {}", err_name(&e)));
                }
            }
        }
        Op::Dump => {
            let st = sut.st().clone();
            let snap = st.verif_snapshot();
            let tree = st.verif_tree_keys();
            let es: Vec<String> = snap
                .iter()
                .map(|r| {
                    let v = st.verif_peek_value(&r.key).map(|v| vdig(&v)).unwrap_or_else(|| "UNREADABLE".into());
                    format!("{}:{}:{}:{}", hex(&r.key), r.timestamp, r.ttl_expiry, v)
                })
                .collect();
            let mut res = format!("n={} mem={} [{}]", st.len(), st.memory_usage(), es.join(","));
            let hk: Vec<&Vec<u8>> = snap.iter().map(|r| &r.key).collect();
            let tk: Vec<&Vec<u8>> = tree.iter().collect();
            if hk != tk {
                res.push_str(" INDEXES-DISAGREE");
            }
            s.emit("dump", "dump".into(), res);
        }
        Op::Clock { k } => {
            let st = sut.st().clone();
            let shard = st.verif_clock_shard(k);
            s.emit("clock", format!("clock {} {}", shard, hex(k)), format!("ok {}", st.verif_clock_value(shard)));
        }
    }
}

fn start_case(sut: &mut Sut, s: &mut Sink, recsize: usize) -> bool {
    s.cases += 1;
    if !sut.cfg.mem {
        new_device(&sut.path, sut.cfg.blocks, sut.cfg.fmt);
    }
    let r = sut.open();
    let line = format!(
        "cfg mem={} ttl={} fmt={} max={} rec={} cache={} blocks={}",
        sut.cfg.mem as u8, sut.cfg.ttl as u8, sut.cfg.fmt,
        sut.cfg.max.map(|m| m.to_string()).unwrap_or_else(|| "none".into()), recsize, sut.cfg.cache as u8, sut.cfg.blocks
    );
    match r {
        Ok(()) => { s.emit("cfg", line, "ok".into()); s.opno = 0; observe_tiers(sut, s, true); true }
        Err(e) => { s.emit("cfg", line, format!("err {}", err_name(&e))); false }
    }
}

fn close_case(sut: &mut Sut) {
    if let Some(st) = sut.store.take() {
        drop(st);
    }
    feoxdb::verif::clock::unpin();
    let _ = std::fs::remove_file(&sut.path);
}

// --------------------------------------------------------------------------------------
// generation

const DOCS: [&str; 4] = ["{\"a\":1}", "{\"a\":1,\"b\":[1,2,3]}", "[1,2,3]", "{\"name\":\"x\",\"n\":{\"d\":true}}"];
const PATCHES: [&str; 7] = [
    "[{\"op\":\"add\",\"path\":\"/z\",\"value\":5}]",
    "[{\"op\":\"replace\",\"path\":\"/a\",\"value\":\"longer string value here\"}]",
    "[{\"op\":\"remove\",\"path\":\"/a\"}]",
    "[{\"op\":\"test\",\"path\":\"/a\",\"value\":99}]",
    "[{\"op\":\"add\",\"path\":\"/0\",\"value\":7}]",
    "not a patch",
    "[]",
];

fn gen_value(rng: &mut Rng) -> Vec<u8> {
    match rng.below(12) {
        0 => (rng.next() as i64 % 1000).to_le_bytes().to_vec(),
        1 => rng.pick(&DOCS).as_bytes().to_vec(),
        2 => { let n = rng.range(3900, 4300) as usize; rng.bytes(n) }
        3 => { let n = rng.range(8000, 8400) as usize; rng.bytes(n) }
        4 => vec![],
        5 => vec![rng.next() as u8],
        _ => { let n = rng.range(1, 120) as usize; rng.bytes(n) }
    }
}

fn gen_ts(rng: &mut Rng, now: u64, last_explicit: &mut u64) -> Option<u64> {
    match rng.below(14) {
        0 => Some(now / 2 + rng.below(1000)),
        1 => { let t = now.saturating_mul(2).saturating_add(rng.below(1000)); *last_explicit = t; Some(t) }
        2 => Some(*last_explicit),
        3 => Some(last_explicit.saturating_add(1)),
        4 => Some(0),
        5 => Some(now),
        6 => Some(now + 1),
        // pinned at the maximum: the one timestamp the version clock never absorbs (u64::MAX - 1 is finding F1 and stays out)
        7 if rng.chance(1, 3) => Some(u64::MAX),
        _ => None,
    }
}

fn gen_ttl(rng: &mut Rng) -> u64 {
    // (the last ones straddle the point where seconds * 10^9 no longer fits 64 bits)
    *rng.pick(&[0u64, 1, 1, 1, 2, 2, 5, 60, 1_000_000, u64::MAX / 3, u64::MAX, 18_446_744_073, 18_446_744_074, 36_893_488_148, 1 << 40, 1 << 55, 1 << 63])
}

fn gen_op(rng: &mut Rng, sut: &Sut, last_explicit: &mut u64) -> Op {
    let pick_key = |rng: &mut Rng| -> Vec<u8> {
        match rng.below(40) {
            0 => vec![],
            1 => vec![b'q'; 4067],
            2 => vec![b'q'; 102401],
            // keys whose length does not fit 16 bits (memory-only stores take keys up to 100 KiB)
            3 if sut.cfg.mem => vec![b'w'; *rng.pick(&[65535usize, 65536, 70000, 102400])],
            _ => rng.pick(&sut.keys).clone(),
        }
    };
    let now = sut.now;
    match rng.below(100) {
        0..=21 => {
            let k = pick_key(rng);
            // one write in ten has a record image that ends in the last bytes of a block, or exactly on the
            // boundary, under the v1 (22 + key) or the v2 / v3 (30 + key) header: the extent arithmetic of
            // writer, reader and retirement must agree there
            let v = if rng.chance(1, 10) && k.len() < 3000 {
                let hdr = *rng.pick(&[22usize, 30]) + k.len();
                let total = rng.range(1, 2) as usize * 4096 - rng.below(9) as usize;
                rng.bytes(total.saturating_sub(hdr).max(1))
            } else { gen_value(rng) };
            Op::Ins { k, v, ts: gen_ts(rng, now, last_explicit), ttl: 0, api: false, bytes_api: rng.chance(1, 3) }
        }
        22..=29 => Op::Ins { k: pick_key(rng), v: gen_value(rng), ts: if rng.chance(1, 3) { gen_ts(rng, now, last_explicit) } else { None }, ttl: gen_ttl(rng), api: true, bytes_api: rng.chance(1, 3) },
        30..=43 => Op::Get { k: pick_key(rng), bytes_api: rng.chance(1, 3) },
        44..=45 => Op::Size { k: pick_key(rng) },
        46..=47 => Op::Has { k: pick_key(rng) },
        48..=55 => Op::Del { k: pick_key(rng), ts: gen_ts(rng, now, last_explicit) },
        56..=61 => {
            let k = pick_key(rng);
            let cur = sut.st().verif_peek_value(&k);
            let e = match (cur, rng.below(4)) { (Some(c), 0..=2) => c, _ => gen_value(rng) };
            // (a swap of a value for itself is a write like any other: new version, TTL handling)
            let n = if rng.chance(1, 5) { e.clone() } else { gen_value(rng) };
            Op::Cas { k, e, n, ts: gen_ts(rng, now, last_explicit), ttl: if rng.chance(1, 4) { gen_ttl(rng) } else { 0 } }
        }
        62..=68 => Op::Inc { k: pick_key(rng), d: *rng.pick(&[1i64, -1, 5, i64::MAX, i64::MIN, 1000]), ts: gen_ts(rng, now, last_explicit), ttl: if rng.chance(1, 4) { gen_ttl(rng) } else { 0 } },
        69..=72 => Op::IfAbs { k: pick_key(rng), v: gen_value(rng) },
        73..=76 => Op::Patch { k: pick_key(rng), p: rng.pick(&PATCHES).as_bytes().to_vec(), ts: gen_ts(rng, now, last_explicit) },
        77..=79 => Op::TtlQ { k: pick_key(rng) },
        80..=83 => Op::UTtl { k: pick_key(rng), ttl: gen_ttl(rng), persist: rng.chance(1, 3) },
        84..=88 => {
            let mut a = pick_key(rng);
            let mut b = pick_key(rng);
            match rng.below(6) { 0 => a = vec![], 1 => b = vec![0xFF; 8], 2 => { a.truncate(1); } 3 => { b.truncate(1); b.push(0xFF); } _ => {} }
            Op::Range { a, b, lim: *rng.pick(&[0usize, 1, 1, 2, 2, 3, 100, usize::MAX]) }
        }
        89 => if sut.cfg.ttl { Op::Advance { ns: *rng.pick(&[1_000_000_000u64, 1_000_000_001, 2_000_000_000, 3_000_000_000, 61_000_000_000]) } } else { Op::Len },
        90 => Op::Mem,
        91..=93 => Op::Flush,
        94 => Op::Sweep,
        95 => Op::Reopen { ttl: if rng.chance(3, 4) { sut.cfg.ttl } else { !sut.cfg.ttl }, cache: if rng.chance(3, 4) { sut.cfg.cache } else { !sut.cfg.cache } },
        96 => Op::Dump,
        97 => Op::Clock { k: rng.pick(&sut.keys).clone() },
        _ => Op::Advance { ns: match rng.below(5) { 0 => 0, 1 => rng.range(1, 1000), 2 => 1_000_000_000, 3 => rng.range(1, 7) * 1_000_000_000 + rng.below(1000), _ => rng.range(1, 100_000) } },
    }
}

fn gen_case(rng: &mut Rng, s: &mut Sink, dir: &str, recsize: usize, cfg: Cfg, len: u64) {
    let nkeys = rng.range(2, 7);
    let mut keys = vec![];
    let pl = rng.below(3) as usize + 1;
    let prefix = rng.bytes(pl);
    for i in 0..nkeys {
        let mut k = if rng.chance(2, 3) { prefix.clone() } else { vec![] };
        let el = rng.range(1, 6) as usize;
        let extra = rng.bytes(el);
        k.extend_from_slice(&extra);
        k.push(b'a' + i as u8);
        if rng.chance(1, 12) {
            k = vec![b'k'; if cfg.fmt == 1 && !cfg.mem { 4074 } else { 4066 }];
        }
        keys.push(k);
    }
    // one memory-only case in five works on a key longer than 16 bits can count, too
    if cfg.mem && rng.chance(1, 5) {
        keys.push(vec![b'w'; *rng.pick(&[65536usize, 70000, 102400])]);
    }
    let mut sut = Sut { panicked: false, store: None, cfg, path: format!("{}/kv{}.feox", dir, s.cases), now: 1_700_000_000_000_000_000 + rng.below(1_000_000_000), keys };
    if !start_case(&mut sut, s, recsize) {
        return;
    }
    let mut last_explicit = sut.now;
    for _ in 0..len {
        if sut.panicked { break; }
        if rng.chance(1, 25) {
            // a directed walk through the storage tiers: write (often with a short TTL), make it
            // durable and offloaded, read it (disk, then cache), let it expire / replace / delete it,
            // read again through every value-reading call
            let k = rng.pick(&sut.keys).clone();
            let ttl = if sut.cfg.ttl && rng.chance(2, 3) { rng.range(1, 3) } else { 0 };
            let v = gen_value(rng);
            exec(&mut sut, s, &Op::Ins { k: k.clone(), v: v.clone(), ts: None, ttl, api: ttl > 0, bytes_api: false });
            exec(&mut sut, s, &Op::Flush);
            exec(&mut sut, s, &Op::Get { k: k.clone(), bytes_api: rng.chance(1, 2) });
            exec(&mut sut, s, &Op::Get { k: k.clone(), bytes_api: false });
            match rng.below(4) {
                0 => exec(&mut sut, s, &Op::Advance { ns: (ttl + 1) * 1_000_000_000 + rng.below(1000) }),
                1 => exec(&mut sut, s, &Op::Del { k: k.clone(), ts: None }),
                2 => exec(&mut sut, s, &Op::UTtl { k: k.clone(), ttl: rng.range(1, 2), persist: rng.chance(1, 3) }),
                _ => exec(&mut sut, s, &Op::Ins { k: k.clone(), v: gen_value(rng), ts: None, ttl: 0, api: false, bytes_api: false }),
            }
            exec(&mut sut, s, &Op::Get { k: k.clone(), bytes_api: false });
            let swap_to = if rng.chance(1, 3) { v.clone() } else { gen_value(rng) };
            exec(&mut sut, s, &Op::Cas { k: k.clone(), e: v.clone(), n: swap_to, ts: None, ttl: 0 });
            exec(&mut sut, s, &Op::TtlQ { k: k.clone() });
            exec(&mut sut, s, &Op::Range { a: vec![], b: vec![0xFF; 8], lim: 100 });
            exec(&mut sut, s, &Op::Advance { ns: 3_000_000_000 });
            exec(&mut sut, s, &Op::Get { k: k.clone(), bytes_api: true });
            // both indexes once more, after every expiry in play has passed
            exec(&mut sut, s, &Op::Range { a: vec![], b: vec![0xFF; 8], lim: 100 });
            // small limits: entries that linger expired in the index must not count towards the limit
            exec(&mut sut, s, &Op::Range { a: vec![], b: vec![0xFF; 8], lim: rng.range(1, 3) as usize });
            exec(&mut sut, s, &Op::Range { a: k.clone(), b: vec![0xFF; 8], lim: 1 });
            exec(&mut sut, s, &Op::TtlQ { k: k.clone() });
            // the other calls on a key that may linger expired: each has its own expiry check
            for _ in 0..2 {
                let op = match rng.below(8) {
                    0 => Op::Has { k: k.clone() },
                    1 => Op::Size { k: k.clone() },
                    2 => Op::IfAbs { k: k.clone(), v: gen_value(rng) },
                    3 => Op::Inc { k: k.clone(), d: 1, ts: None, ttl: 0 },
                    4 => Op::Patch { k: k.clone(), p: rng.pick(&PATCHES).as_bytes().to_vec(), ts: None },
                    5 => Op::Del { k: k.clone(), ts: None },
                    6 => Op::UTtl { k: k.clone(), ttl: rng.range(1, 3), persist: rng.chance(1, 2) },
                    _ => Op::Get { k: k.clone(), bytes_api: true },
                };
                exec(&mut sut, s, &op);
            }
            exec(&mut sut, s, &Op::Get { k: k.clone(), bytes_api: false });
            continue;
        }
        let op = gen_op(rng, &sut, &mut last_explicit);
        if rng.chance(1, 3) {
            sut.now += rng.range(1, 5000);
        }
        exec(&mut sut, s, &op);
    }
    if !sut.panicked {
        exec(&mut sut, s, &Op::Dump);
        for k in sut.keys.clone() {
            exec(&mut sut, s, &Op::Clock { k });
        }
    }
    close_case(&mut sut);
}

// --------------------------------------------------------------------------------------
// replay

fn pts(x: &str) -> Option<u64> {
    if x == "-" { None } else { Some(x.parse().unwrap()) }
}

fn parse_line(t: &[&str]) -> Option<Op> {
    Some(match t {
        ["ins", k, v, ts, ttl, api, _, _] => Op::Ins { k: unhex(k), v: unhex(v), ts: pts(ts), ttl: ttl.parse().ok()?, api: *api == "1", bytes_api: false },
        ["get", k, _] => Op::Get { k: unhex(k), bytes_api: false },
        ["size", k] => Op::Size { k: unhex(k) },
        ["has", k] => Op::Has { k: unhex(k) },
        ["del", k, ts, _, _] => Op::Del { k: unhex(k), ts: pts(ts) },
        ["cas", k, e, n, ts, ttl, _, _] => Op::Cas { k: unhex(k), e: unhex(e), n: unhex(n), ts: pts(ts), ttl: ttl.parse().ok()? },
        ["inc", k, d, ts, ttl, _, _] => Op::Inc { k: unhex(k), d: d.parse().ok()?, ts: pts(ts), ttl: ttl.parse().ok()? },
        ["ifabs", k, v, _, _] => Op::IfAbs { k: unhex(k), v: unhex(v) },
        ["ttl?", k, _] => Op::TtlQ { k: unhex(k) },
        ["uttl", k, ttl, p, _, _] => Op::UTtl { k: unhex(k), ttl: ttl.parse().ok()?, persist: *p == "1" },
        ["range", a, b, lim, _] => Op::Range { a: unhex(a), b: unhex(b), lim: lim.parse().ok()? },
        ["len"] => Op::Len,
        ["mem"] => Op::Mem,
        ["flush"] => Op::Flush,
        ["sweep", _] => Op::Sweep,
        ["dump"] => Op::Dump,
        _ => return None,
    })
}

fn now_of(t: &[&str]) -> Option<u64> {
    match t {
        ["ins", ..] | ["get", ..] | ["del", ..] | ["cas", ..] | ["inc", ..] | ["ifabs", ..] | ["ttl?", ..] | ["uttl", ..] | ["range", ..] | ["sweep", ..] => t.last()?.parse().ok(),
        ["patch", _, _, _, now, _] => now.parse().ok(),
        ["reopen", _, now, _] => now.parse().ok(),
        _ => None,
    }
}

fn replay(path: &str, s: &mut Sink, dir: &str, recsize: usize) {
    s.replaying = true;
    let f = std::io::BufReader::new(std::fs::File::open(path).unwrap());
    let mut sut: Option<Sut> = None;
    for line in f.lines() {
        let line = line.unwrap();
        if line.starts_with('#') || line.trim().is_empty() {
            continue;
        }
        let t: Vec<&str> = line.split_whitespace().collect();
        if t[0] != "kv" {
            continue;
        }
        let t = &t[1..];
        if t[0] == "cfg" {
            if let Some(mut old) = sut.take() {
                close_case(&mut old);
            }
            let get = |k: &str| t.iter().find_map(|x| x.strip_prefix(&format!("{}=", k))).unwrap_or("").to_string();
            let cfg = Cfg {
                mem: get("mem") == "1", ttl: get("ttl") == "1", fmt: get("fmt").parse().unwrap_or(3),
                max: get("max").parse().ok(), cache: get("cache") == "1", blocks: get("blocks").parse().unwrap_or(256),
            };
            let mut n = Sut { panicked: false, store: None, cfg, path: format!("{}/kvreplay.feox", dir), now: 1_700_000_000_000_000_000, keys: vec![] };
            let ok = start_case(&mut n, s, recsize);
            if ok { sut = Some(n); }
            continue;
        }
        let Some(sut) = sut.as_mut() else { continue };
        if let Some(n) = now_of(t) {
            sut.now = n;
        }
        // remember keys for reopen shard tables
        if t.len() > 1 && !["range", "sweep", "reopen", "clock"].contains(&t[0]) {
            let k = unhex(t[1]);
            if !sut.keys.contains(&k) && !k.is_empty() && k.len() < 5000 {
                sut.keys.push(k);
            }
        }
        let op = match t {
            ["patch", k, ts, _, _, _] => {
                // the patch bytes are not on the line (only their result is); replays of patch ops
                // use the recorded result table: find a patch from the pool that reproduces it
                let kk = unhex(k);
                let cur = sut.st().verif_peek_value(&kk);
                let want = t[5];
                let mut chosen = PATCHES[5].as_bytes().to_vec();
                if let Some(c) = cur {
                    for p in PATCHES.iter() {
                        let r = match feoxdb::utils::json_patch::apply_json_patch(&c, p.as_bytes()) { Ok(v) => format!("ok:{}", hex(&v)), Err(_) => "errJ".to_string() };
                        if r == want { chosen = p.as_bytes().to_vec(); break; }
                    }
                }
                Some(Op::Patch { k: kk, p: chosen, ts: pts(ts) })
            }
            ["reopen", ttl, _, _] => Some(Op::Reopen { ttl: *ttl == "1", cache: sut.cfg.cache }),
            ["clock", _, k] => Some(Op::Clock { k: unhex(k) }),
            ["clock", _] => sut.keys.first().cloned().map(|k| Op::Clock { k }),
            _ => parse_line(t),
        };
        if let Some(op) = op {
            exec(sut, s, &op);
        }
    }
    if let Some(mut old) = sut.take() {
        close_case(&mut old);
    }
}

/// C14 at a scale the reference-map cases do not reach (the model's lists are small): a few thousand keys,
/// windows and limits on both sides of every internal batch size of the scan (pre-allocation bound, re-pin
/// interval), judged directly: exactly the live keys of the window, ascending, the first `limit` of them.
fn scale_case(rng: &mut Rng, s: &mut Sink, dir: &str) {
    use std::collections::BTreeMap as Map;
    let mem = rng.chance(1, 2);
    let path = format!("{}/scale.feox", dir);
    let _ = std::fs::remove_file(&path);
    let mut b = FeoxStore::builder().hash_bits(12).enable_ttl(false).no_memory_limit();
    if !mem { b = b.device_path(path.clone()).file_size(64 << 20).enable_caching(rng.chance(1, 2)); }
    let Ok(store) = b.build() else { return };
    let n = rng.range(1100, 3000);
    let mut model: Map<Vec<u8>, Vec<u8>> = Map::new();
    for i in 0..n {
        let k = format!("s{:06}", i * 3 + rng.below(3)).into_bytes();
        let v = format!("v{}-{}", i, rng.below(1000)).into_bytes();
        if store.insert(&k, &v).is_ok() { model.insert(k, v); }
    }
    let keys: Vec<Vec<u8>> = model.keys().cloned().collect();
    for _ in 0..n / 7 {
        let k = rng.pick(&keys).clone();
        if rng.chance(1, 2) { if store.delete(&k).is_ok() { model.remove(&k); } }
        else { let v = format!("w{}", rng.below(100000)).into_bytes(); if store.insert(&k, &v).is_ok() { model.insert(k, v); } }
    }
    if !mem && rng.chance(1, 2) { let _ = store.flush(); }
    *s.hist.entry("scale case (range queries over thousands of keys)".into()).or_insert(0) += 1;
    let windows: Vec<(Vec<u8>, Vec<u8>)> = vec![(b"s".to_vec(), b"t".to_vec()), (keys[keys.len() / 10].clone(), keys[keys.len() - keys.len() / 10].clone()), (keys[3].clone(), keys[keys.len() / 2].clone())];
    for (a, z) in &windows {
        for limit in [1usize, 255, 256, 257, 1000, 1023, 1024, 1025, 2000, 100_000, usize::MAX] {
            let want: Vec<(Vec<u8>, Vec<u8>)> = model.range(a.clone()..=z.clone()).take(limit).map(|(k, v)| (k.clone(), v.clone())).collect();
            match store.range_query(a, z, limit) {
                Ok(got) if got == want => {}
                Ok(got) => {
                    if s.inv_fail.len() < 6 {
                        let first_bad = got.iter().zip(want.iter()).position(|(g, w)| g != w).unwrap_or(got.len().min(want.len()));
                        s.inv_fail.push(format!("C14\tscale case ({} store, {} live keys s000000.., inserted / deleted / rewritten{}): range_query({}, {}, {}) returned {} pairs where exactly {} live keys are in range (first difference at position {})",
                            if mem { "memory-only" } else { "persistent" }, model.len(), if mem { "" } else { ", possibly flushed" }, String::from_utf8_lossy(a), String::from_utf8_lossy(z), limit, got.len(), want.len(), first_bad));
                    }
                }
                Err(e) => if s.inv_fail.len() < 6 { s.inv_fail.push(format!("C14\tscale case: range_query over {} keys with limit {} failed: {}", model.len(), limit, err_name(&e))); }
            }
        }
    }
    if store.len() != model.len() && s.inv_fail.len() < 6 {
        s.inv_fail.push(format!("C14,C13\tscale case: len() = {} with {} live keys", store.len(), model.len()));
    }
    drop(store);
    let _ = std::fs::remove_file(&path);
}

fn main() {
    let args = parse_args();
    std::fs::create_dir_all(&args.out).unwrap();
    let open = |n: &str| std::io::BufWriter::new(std::fs::File::create(format!("{}/{}", args.out, n)).unwrap());
    let mut s = Sink { ops: open("kv.ops"), imp: open("kv.impl"), hist: BTreeMap::new(), errs: BTreeMap::new(), tiers: BTreeMap::new(), lines: 0, cases: 0,
        tops: open("kv.tiers.ops"), tlines: 0, tfail: vec![], opno: 0, inv_fail: vec![], inv_checks: 0, last_res_ok: false, replaying: false };
    let recsize = feoxdb::verif::pure::record_struct_size();
    feoxdb::verif::io::disable_ring(true);
    feoxdb::verif::proto::fast_shutdown(true);
    let mut rng = Rng::new(args.seed);
    if let Some(p) = &args.replay {
        replay(p, &mut s, &args.out, recsize);
    } else {
        let cases: u64 = args.extra.iter().find_map(|e| e.strip_prefix("cases=").map(|v| v.parse().unwrap())).unwrap_or(if args.thorough { 400 } else { 40 });
        scale_case(&mut Rng::new(args.seed ^ 0x5ca1e), &mut s, &args.out);
        for i in 0..cases {
            // all 2 x 2 x 2 x 3 configurations in rotation (memory-only ignores cache/format)
            let mem = i % 4 == 0;
            let cfg = Cfg {
                mem,
                cache: (i / 4) % 2 == 0,
                ttl: (i / 8) % 2 == 0 || rng.chance(1, 2),
                fmt: if mem { 3 } else { [3u32, 2, 1][(i as usize / 2) % 3] },
                max: if rng.chance(1, 5) { Some(recsize * 3 + rng.range(100, 9000) as usize) } else { None },
                blocks: 256,
            };
            let cfg = Cfg { ttl: cfg.ttl && (cfg.mem || cfg.fmt != 1 || rng.chance(1, 3)), ..cfg };
            let len = if rng.chance(1, 8) { rng.range(200, 400) } else { rng.range(5, 120) };
            gen_case(&mut rng, &mut s, &args.out, recsize, cfg, len);
        }
    }
    s.ops.flush().unwrap();
    s.imp.flush().unwrap();
    s.tops.flush().unwrap();
    std::fs::write(format!("{}/kv.inv.fail", args.out), s.inv_fail.iter().map(|l| format!("{}\n", l)).collect::<String>()).unwrap();
    std::fs::write(format!("{}/kv.tiers.fail", args.out), s.tfail.iter().map(|l| format!("{}\n", l)).collect::<String>()).unwrap();
    let j = |m: &BTreeMap<String, u64>| m.iter().map(|(k, v)| format!("\"{}\": {}", k, v)).collect::<Vec<_>>().join(", ");
    let meta = format!(
        "{{\"engine\": \"kv\", \"seed\": {}, \"lines\": {}, \"cases\": {}, \"recsize\": {}, \"ops\": {{{}}}, \"errors\": {{{}}}, \"read_tiers\": {{{}}}}}\n",
        args.seed, s.lines, s.cases, recsize, j(&s.hist), j(&s.errs), j(&s.tiers)
    );
    std::fs::write(format!("{}/kv.meta.json", args.out), meta).unwrap();
}
