//! Correspondence harness for the `Fmt` model (C10, C17 and the byte half of C03/C04/C11):
//! codecs through the `feoxdb::verif::pure` wrappers, whole-file recovery through the real
//! `FeoxStore` open.  Writes `fmt.ops` (driver input) and `fmt.impl` (what the code did).
use feox_verif_harness::*;
use feoxdb::storage::metadata::Metadata;
use feoxdb::verif::pure as fx;
use feoxdb::FeoxStore;
use std::collections::BTreeMap;
use std::io::Write;
use std::panic::{catch_unwind, AssertUnwindSafe};

const BS: usize = 4096;

struct Sink {
    ops: std::io::BufWriter<std::fs::File>,
    imp: std::io::BufWriter<std::fs::File>,
    hist: BTreeMap<String, u64>,
    lines: u64,
    dir: String,
    blob: u64,
    recsize: usize,
}

impl Sink {
    fn emit(&mut self, kind: &str, op: String, res: String) {
        writeln!(self.ops, "fmt {}", op).unwrap();
        writeln!(self.imp, "{}", res).unwrap();
        *self.hist.entry(kind.to_string()).or_insert(0) += 1;
        self.lines += 1;
    }
    fn blob_path(&mut self, bytes: &[u8]) -> String {
        self.blob += 1;
        let p = format!("{}/blob{}.bin", self.dir, self.blob);
        std::fs::write(&p, bytes).unwrap();
        p
    }
}

fn fnv(b: &[u8]) -> u64 {
    let mut h: u64 = 14695981039346656037;
    for x in b {
        h = (h ^ (*x as u64)).wrapping_mul(1099511628211);
    }
    h
}

fn digest(b: &[u8]) -> String {
    format!("{}:{}", b.len(), fnv(b))
}

fn show_extents(es: &[(u64, usize)]) -> String {
    if es.is_empty() {
        "-".into()
    } else {
        es.iter().map(|e| format!("{}:{}", e.0, e.1)).collect::<Vec<_>>().join(",")
    }
}

fn fold(crc: u32) -> u16 {
    ((crc >> 16) ^ (crc & 0xFFFF)) as u16
}

// ------------------------------------------------------------------------------------
// codec sections

fn sec_crc(s: &mut Sink, rng: &mut Rng, n: usize) {
    s.emit("crc", format!("crc 0 {}", hex(b"123456789")), format!("ok {}", fx::crc32c(0, b"123456789")));
    for _ in 0..n {
        let len = match rng.below(4) { 0 => rng.below(9), 1 => rng.below(64), _ => rng.below(600) } as usize;
        let data = rng.bytes(len);
        let seed = if rng.chance(1, 2) { 0 } else { rng.next() as u32 };
        s.emit("crc", format!("crc {} {}", seed, hex(&data)), format!("ok {}", fx::crc32c(seed, &data)));
    }
}

fn sec_tokens(s: &mut Sink, rng: &mut Rng, n: usize, zero_fold: usize) {
    for _ in 0..n {
        let sector = if rng.chance(1, 4) { rng.next() } else { rng.range(16, 5000) };
        let n = rng.below(80) as usize;
        let data = rng.bytes(n);
        s.emit("token", format!("token {} {}", sector, hex(&data)), format!("ok {}", fx::seq_token(sector, &data)));
        let n = match rng.below(3) { 0 => rng.below(4), _ => rng.range(4, 200) } as usize;
        let data = rng.bytes(n);
        s.emit("rectoken", format!("rectoken {} {}", sector, hex(&data)), format!("ok {}", fx::record_seq_token(sector, &data)));
    }
    // directed: inputs whose CRC folds to zero (the token must then be 1).  Found by an
    // independent fold over the crate's crc32c (itself checked above).
    let mut found = 0;
    let mut ctr: u64 = rng.next();
    let mut tries = 0u64;
    while found < zero_fold && tries < 3_000_000 {
        tries += 1;
        ctr = ctr.wrapping_add(1);
        let sector = 16 + (ctr % 64);
        let data = ctr.to_le_bytes();
        let crc = fx::crc32c(fx::crc32c(0, &sector.to_le_bytes()), &data);
        if fold(crc) == 0 {
            found += 1;
            s.emit("token-zero-fold", format!("token {} {}", sector, hex(&data)), format!("ok {}", fx::seq_token(sector, &data)));
            // same bytes as a record image: marker(2) seq(2) rest -> crc over data[..2], 00 00, data[4..]
            let mut rec = vec![data[0], data[1], 0xEE, 0xEE];
            rec.extend_from_slice(&data[2..]);
            // crc(sector) . data[0..2] . 0 0 . data[2..]  — not the same stream; search separately below
            let _ = rec;
        }
    }
    let mut found = 0;
    tries = 0;
    while found < zero_fold && tries < 3_000_000 {
        tries += 1;
        ctr = ctr.wrapping_add(1);
        let sector = 16 + (ctr % 64);
        let mut data = vec![0xCD, 0xAB, 0x12, 0x34];
        data.extend_from_slice(&ctr.to_le_bytes());
        let mut crc = fx::crc32c(0, &sector.to_le_bytes());
        crc = fx::crc32c(crc, &data[..2]);
        crc = fx::crc32c(crc, &[0, 0]);
        crc = fx::crc32c(crc, &data[4..]);
        if fold(crc) == 0 {
            found += 1;
            s.emit("rectoken-zero-fold", format!("rectoken {} {}", sector, hex(&data)), format!("ok {}", fx::record_seq_token(sector, &data)));
        }
    }
    // marker whose token stream folds to zero
    let mut found = 0;
    tries = 0;
    while found < zero_fold.min(2) && tries < 3_000_000 {
        tries += 1;
        ctr = ctr.wrapping_add(1);
        let sector = 16 + (ctr % 100_000);
        let remaining = 1 + (ctr >> 20) % 50;
        let mut protected = Vec::new();
        protected.extend_from_slice(b"\0DELETED");
        protected.extend_from_slice(&remaining.to_le_bytes());
        protected.push(1);
        let crc = fx::crc32c(fx::crc32c(0, &sector.to_le_bytes()), &protected);
        if fold(crc) == 0 {
            found += 1;
            let mut buf = vec![0u8; BS];
            fx::fill_retirement_markers(&mut buf, sector, remaining as usize);
            let tok = fx::retirement_marker_token(sector, &buf[..19]);
            s.emit("markers-zero-fold", format!("markers {} {} 1", sector, remaining), format!("ok {} tok={}", digest(&buf), tok));
        }
    }
}

fn head_bytes(rng: &mut Rng, v: u32, key_len: usize, value_len: u64, ts: u64, exp: u64, total: usize) -> Vec<u8> {
    let mut d = vec![0xCD, 0xAB, 0, 0];
    d.extend_from_slice(&(key_len as u16).to_le_bytes());
    d.extend_from_slice(&rng.bytes(key_len));
    d.extend_from_slice(&value_len.to_le_bytes());
    d.extend_from_slice(&ts.to_le_bytes());
    if v != 1 {
        d.extend_from_slice(&exp.to_le_bytes());
    }
    while d.len() < total {
        d.push(rng.next() as u8);
    }
    d.truncate(total);
    d
}

fn sec_heads(s: &mut Sink, rng: &mut Rng, n: usize) {
    for _ in 0..n {
        let v = *rng.pick(&[1u32, 2, 3]);
        let key_len = match rng.below(6) { 0 => 0, 1 => rng.range(1, 8), 2 => rng.range(4040, 4100), _ => rng.range(1, 300) } as usize;
        let total = match rng.below(5) { 0 => rng.below(12) as usize, 1 => rng.range(1, 400) as usize, _ => BS };
        let value_len = match rng.below(4) { 0 => 0, 1 => rng.next(), _ => rng.range(1, 10000) };
        let ts = rng.next() >> rng.below(64);
        let exp = if rng.chance(1, 2) { 0 } else { rng.next() >> rng.below(64) };
        let mut d = head_bytes(rng, v, key_len, value_len, ts, exp, total);
        if rng.chance(1, 5) && !d.is_empty() {
            let i = rng.below(d.len() as u64) as usize;
            d[i] ^= 1 << rng.below(8);
        }
        // (a decoder that panics on some bytes is an answer, with those bytes on the line - not the end of the run)
        let hok = catch_unwind(AssertUnwindSafe(|| fx::header_ok(&d, v))).map(|b| format!("ok {}", b as u8)).unwrap_or_else(|_| "panic header_ok".to_string());
        s.emit("headerok", format!("headerok {} {}", v, hex(&d)), hok);
        let parsed = catch_unwind(AssertUnwindSafe(|| feoxdb::storage::format::get_format(v).parse_record(&d)));
        let pres = match parsed {
            Ok(Some((k, vl, ts, e))) => format!("ok {}:{}:{}:{}", hex(&k), vl, ts, e),
            Ok(None) => "ok none".to_string(),
            Err(_) => "panic parse_record".to_string(),
        };
        s.emit("parse", format!("parse {} {}", v, hex(&d)), pres);
        let sector = rng.range(16, 100000);
        let mut st = d.clone();
        let stamped = catch_unwind(AssertUnwindSafe(|| { let mut x = d.clone(); fx::stamp_seq_token(&mut x, sector, v); x }));
        if let Ok(x) = &stamped { st = x.clone(); }
        s.emit("stamp", format!("stamp {} {} {}", v, sector, hex(&d)), if stamped.is_ok() { format!("ok {}", digest(&st)) } else { "panic stamp_seq_token".to_string() });
        // sector_holds_record against a record with matching / perturbed identity
        if d.len() >= 6 {
            let kl = u16::from_le_bytes([d[4], d[5]]) as usize;
            if 6 + kl + 16 <= d.len() {
                let key = d[6..6 + kl].to_vec();
                let vl = u64::from_le_bytes(d[6 + kl..14 + kl].try_into().unwrap());
                let t = u64::from_le_bytes(d[14 + kl..22 + kl].try_into().unwrap());
                for variant in 0..4 {
                    let (k2, vl2, t2) = match variant {
                        0 => (key.clone(), vl, t),
                        1 => { let mut k = key.clone(); if !k.is_empty() { k[0] ^= 1; } (k, vl, t) }
                        2 => (key.clone(), vl.wrapping_add(1), t),
                        _ => (key.clone(), vl, t.wrapping_add(1)),
                    };
                    if vl2 as usize as u64 != vl2 || vl2 > (1 << 40) || k2.is_empty() {
                        continue;
                    }
                    let mut rec = feoxdb::core::record::Record::new(k2.clone(), vec![1], t2);
                    rec.value_len = vl2 as usize;
                    let holds = feoxdb::storage::format::sector_holds_record(&d, &rec);
                    s.emit("holds", format!("holds {} {} {} {}", hex(&d), hex(&k2), vl2, t2), format!("ok {}", holds as u8));
                }
            }
        }
    }
}

fn sec_markers(s: &mut Sink, rng: &mut Rng, n: usize) {
    for _ in 0..n {
        let sector = rng.range(16, 1 << 30);
        let blocks = rng.range(1, 6) as usize;
        let remaining = blocks + rng.below(300) as usize;
        let mut buf = vec![0u8; blocks * BS];
        fx::fill_retirement_markers(&mut buf, sector, remaining);
        let tok = fx::retirement_marker_token(sector, &buf[..19]);
        s.emit("markers", format!("markers {} {} {}", sector, remaining, blocks), format!("ok {} tok={}", digest(&buf), tok));
    }
}

fn rand_extents(rng: &mut Rng, total: u64, valid: bool) -> Vec<(u64, usize)> {
    let n = match rng.below(10) { 0 => 0, 1 => rng.range(500, 1100), _ => rng.range(1, 12) } as usize;
    let mut out = vec![];
    let mut cur = 16u64;
    for _ in 0..n {
        if valid {
            cur += rng.below(3);
            let len = rng.range(1, 4);
            out.push((cur, len as usize));
            cur += len;
        } else {
            let st = match rng.below(8) { 0 => rng.below(16), 1 => total + rng.below(3), 2 => 1 << 33, _ => rng.range(16, total.max(17)) };
            let len = match rng.below(8) { 0 => 0, 1 => (1usize << 32) + 1, _ => rng.range(1, 5) as usize };
            out.push((st, len));
        }
    }
    if valid && rng.chance(1, 2) {
        // shuffle: the journal stores extents in batch order, not sorted
        for i in (1..out.len()).rev() {
            let j = rng.below(i as u64 + 1) as usize;
            out.swap(i, j);
        }
    }
    out
}

fn sec_journal(s: &mut Sink, rng: &mut Rng, n: usize) {
    for _ in 0..n {
        let total = rng.range(17, 5000);
        let valid = rng.chance(3, 4);
        let es = rand_extents(rng, total, valid);
        let gen = match rng.below(10) { 0 => 0, 1 => u64::MAX, _ => rng.range(1, 1000) };
        let r = fx::journal_encode_active(gen, &es);
        let res = match &r { Ok(b) => format!("ok {}", digest(b)), Err(e) => format!("err {}", err_name(e)) };
        s.emit(if r.is_ok() { "jactive" } else { "jactive-err" }, format!("jactive {} {}", gen, show_extents(&es)), res);
        let c = fx::journal_encode_clear(gen);
        let res = match &c { Ok(b) => format!("ok {}", digest(b)), Err(e) => format!("err {}", err_name(e)) };
        s.emit("jclear", format!("jclear {}", gen), res);

        // coalescing
        let co = fx::coalesce_extents(&es);
        let res = match &co { Ok(v) => format!("ok {}", show_extents(v)), Err(e) => format!("err {}", err_name(e)) };
        s.emit(if co.is_ok() { "coalesce" } else { "coalesce-err" }, format!("coalesce {}", show_extents(&es)), res);

        // a 6-block journal area: two slots with assorted contents, then decode
        let mut area = vec![0u8; 6 * BS];
        for slot in 0..2 {
            let kind = rng.below(8);
            let g = rng.range(1, 6);
            let img: Option<Vec<u8>> = match kind {
                0 => None,
                1 | 2 => fx::journal_encode_clear(g).ok(),
                3 | 4 | 5 => {
                    let es2 = rand_extents(rng, total, true);
                    fx::journal_encode_active(g, &es2).ok()
                }
                6 => Some(rng.bytes(200)),
                _ => r.as_ref().ok().cloned(),
            };
            if let Some(img) = img {
                let off = slot * 3 * BS;
                let l = img.len().min(3 * BS);
                area[off..off + l].copy_from_slice(&img[..l]);
                match rng.below(10) {
                    0 => { let i = off + rng.below(l as u64) as usize; area[i] ^= 1 << rng.below(8); }
                    1 => { let i = off + l + rng.below((3 * BS - l).max(1) as u64) as usize; if i < off + 3 * BS { area[i] = 0x5A; } }
                    2 => {
                        // forge count / state / version with a self-consistent checksum pair left stale
                        let f = *rng.pick(&[8usize, 24, 28]);
                        let val = *rng.pick(&[0u32, 1, 2, 3, 1024, 1025, 1531, 1532, 4000, u32::MAX]);
                        area[off + f..off + f + 4].copy_from_slice(&val.to_le_bytes());
                        if rng.chance(1, 2) {
                            let c = rng.next() as u32;
                            area[off + 12..off + 16].copy_from_slice(&c.to_le_bytes());
                            area[off + 32..off + 36].copy_from_slice(&(!c).to_le_bytes());
                        }
                    }
                    _ => {}
                }
            }
        }
        let tot = if rng.chance(1, 5) { rng.range(17, 40) } else { total };
        let path = s.blob_path(&area);
        let d = catch_unwind(AssertUnwindSafe(|| fx::journal_decode(&area, tot)));
        let res = match d {
            Ok(Ok((g, slot, es))) => format!("ok gen={} slot={} ext={}", g, slot, show_extents(&es)),
            Ok(Err(e)) => format!("err {}", err_name(&e)),
            Err(_) => "panic journal_decode".to_string(),
        };
        s.emit(if res.starts_with("ok") { "jdecode" } else { "jdecode-err" }, format!("jdecode {} {}", tot, path), res);
    }
}

fn meta_line(b: &[u8]) -> String {
    match Metadata::from_bytes(b) {
        Some(m) => {
            let mut re = m;
            re.device_size = m.device_size; // refresh keeps everything
            // `update()` would change the time; re-encode equality is checked through encode()
            let same = m.encode().as_slice() == &b[..136];
            let mut adv = m;
            let advd = match fx::metadata_advance(&mut adv) { Ok(()) => digest(&adv.encode()), Err(_) => "none".into() };
            format!("ok v={} recs={} size={} dev={} frag={} gen={} re={} adv={}", m.version, m.total_records, m.total_size,
                m.device_size, m.fragmentation, fx::metadata_generation(&m), same as u8, advd)
        }
        None => "ok invalid".to_string(),
    }
}

fn rand_meta(rng: &mut Rng) -> Vec<u8> {
    let mut m = Metadata::new();
    m.version = *rng.pick(&[1u32, 2, 3, 3, 3, 0, 4]);
    m.total_records = rng.below(1000);
    m.total_size = rng.below(1 << 30);
    m.device_size = match rng.below(8) { 0 => 0, 1 => (1u64 << 40) + 4096, _ => rng.range(17, 4096) * 4096 };
    m.fragmentation = rng.below(100) as u32;
    if rng.chance(1, 10) { m.block_size = 512; }
    m.update();
    for _ in 0..rng.below(4) {
        let _ = fx::metadata_advance(&mut m);
    }
    let mut b = m.encode().to_vec();
    match rng.below(10) {
        0 => { let i = rng.below(136) as usize; b[i] ^= 1 << rng.below(8); }
        1 => { for x in &mut b[64..76] { *x = 0; } }  // legacy: no checksum magic
        2 => { b[0] = b'X'; }
        _ => {}
    }
    b
}

fn sec_meta(s: &mut Sink, rng: &mut Rng, n: usize) {
    for _ in 0..n {
        let b = rand_meta(rng);
        s.emit("metadec", format!("metadec {}", hex(&b)), meta_line(&b));
        // selection between two copies through the real DiskIO::read_metadata
        let b2 = rand_meta(rng);
        let mut p = vec![0u8; BS];
        p[..b.len()].copy_from_slice(&b);
        let mut q = vec![0u8; BS];
        q[..b2.len()].copy_from_slice(&b2);
        let mut file = vec![0u8; 8 * BS];
        file[..BS].copy_from_slice(&p);
        file[7 * BS..].copy_from_slice(&q);
        let fp = s.blob_path(&file);
        let f = std::fs::OpenOptions::new().read(true).write(true).open(&fp).unwrap();
        let dio = feoxdb::storage::io::DiskIO::new(std::sync::Arc::new(f), false).unwrap();
        let chosen = dio.read_metadata().unwrap();
        let pp = s.blob_path(&p);
        let qp = s.blob_path(&q);
        s.emit("metasel", format!("metasel {} {}", pp, qp), format!("ok {}", digest(&chosen)));
        let _ = std::fs::remove_file(&fp);
    }
}

// ------------------------------------------------------------------------------------
// whole-file recovery

fn all_zero(b: &[u8]) -> bool {
    b.iter().all(|x| *x == 0)
}

struct IoCounter {
    events: std::sync::atomic::AtomicU64,
}

impl feoxdb::verif::io::Observer for IoCounter {
    fn event(&self, kind: feoxdb::verif::io::Kind, _fd: i32, _sector: u64, _len: usize, _data: &[u8]) -> feoxdb::verif::io::Decision {
        use feoxdb::verif::io::Kind::*;
        if matches!(kind, Write | RingWrite | Fsync) {
            self.events.fetch_add(1, std::sync::atomic::Ordering::SeqCst);
        }
        feoxdb::verif::io::Decision::Proceed
    }
}

/// creates a foreign file at `path` at the first device write it sees (i.e. while a migration is
/// filling its temporary file, after the up-front existence check)
struct Appear {
    path: String,
    armed: std::sync::atomic::AtomicBool,
}

impl feoxdb::verif::io::Observer for Appear {
    fn event(&self, kind: feoxdb::verif::io::Kind, _fd: i32, _sector: u64, _len: usize, _data: &[u8]) -> feoxdb::verif::io::Decision {
        use feoxdb::verif::io::Kind::*;
        if matches!(kind, Write | RingWrite) && self.armed.swap(false, std::sync::atomic::Ordering::SeqCst) {
            if let Ok(mut f) = std::fs::OpenOptions::new().write(true).create_new(true).open(&self.path) {
                use std::io::Write as _;
                let _ = f.write_all(b"foreign file, not ours");
            }
        }
        feoxdb::verif::io::Decision::Proceed
    }
}

/// moves the source file's modification time at the first device write it sees (i.e. while the
/// migration is copying): the source "changed" under the migration's feet
struct Touch {
    path: String,
    armed: std::sync::atomic::AtomicBool,
}

impl feoxdb::verif::io::Observer for Touch {
    fn event(&self, kind: feoxdb::verif::io::Kind, _fd: i32, _sector: u64, _len: usize, _data: &[u8]) -> feoxdb::verif::io::Decision {
        use feoxdb::verif::io::Kind::*;
        if matches!(kind, Write | RingWrite) && self.armed.swap(false, std::sync::atomic::Ordering::SeqCst) {
            if let Ok(f) = std::fs::OpenOptions::new().write(true).open(&self.path) {
                let later = std::time::SystemTime::now() + std::time::Duration::from_secs(10);
                let _ = f.set_modified(later);
            }
        }
        feoxdb::verif::io::Decision::Proceed
    }
}

fn body_digest(path: &str) -> u64 {
    let after = std::fs::read(path).unwrap();
    if after.len() < 16 * BS {
        return fnv(&[]);
    }
    let mut body = after[BS..7 * BS].to_vec();
    body.extend_from_slice(&after[16 * BS..]);
    fnv(&body)
}

/// open `path` with the real store and print the canonical outcome line
fn recover_line(s: &mut Sink, path: &str, amb: bool, ttl: bool, now: u64) -> (String, String) {
    let before = std::fs::read(path).unwrap();
    let fresh = all_zero(&before);
    feoxdb::verif::clock::pin(now);
    let counter = std::sync::Arc::new(IoCounter { events: std::sync::atomic::AtomicU64::new(0) });
    feoxdb::verif::io::set_observer(Some(counter.clone()));
    let p = path.to_string();
    // the open runs under a watchdog: a scan that never ends (or eats memory until the address-space
    // limit kills the process) must not take the whole run with it silently
    let (tx, rx) = std::sync::mpsc::channel();
    let opener = std::thread::spawn(move || {
        let r = catch_unwind(AssertUnwindSafe(|| {
            FeoxStore::builder()
                .device_path(p.clone())
                .hash_bits(6)
                .enable_caching(false)
                .enable_ttl(ttl)
                .allow_ambiguous_legacy_recovery(amb)
                .build()
        }));
        let _ = tx.send(r);
    });
    let r = match rx.recv_timeout(std::time::Duration::from_secs(20)) {
        Ok(r) => { let _ = opener.join(); r }
        Err(_) => {
            let keep = format!("{}/hang_image.feox", s.dir);
            let _ = std::fs::write(&keep, &before);
            eprintln!("HANG: opening {} did not return within 20 s (image before the open kept as {}; amb={} ttl={} now={})", path, keep, amb, ttl, now);
            let _ = s.ops.flush();
            let _ = s.imp.flush();
            std::process::exit(3);
        }
    };
    let io_events = counter.events.load(std::sync::atomic::Ordering::SeqCst);
    feoxdb::verif::io::set_observer(None);
    let line = match r {
        Err(_) => "panic open".to_string(),
        Ok(Err(e)) => {
            let same = std::fs::read(path).unwrap() == before;
            let body = if same { "same".to_string() } else { format!("{}", body_digest(path)) };
            format!("err {} body={} writes={}", err_name(&e), body, io_events)
        }
        Ok(Ok(store)) => {
            let snap = store.verif_snapshot();
            let lives: Vec<String> = snap
                .iter()
                .map(|r| {
                    let v = catch_unwind(AssertUnwindSafe(|| store.get(&r.key)));
                    let vd = match v {
                        Ok(Ok(v)) => format!("{}", fnv(&v)),
                        Ok(Err(e)) => format!("E{}", err_name(&e)),
                        Err(_) => "PANIC".to_string(),
                    };
                    format!("{}:{}:{}:{}:{}:{}", hex(&r.key), r.timestamp, r.ttl_expiry, r.value_len, r.sector, vd)
                })
                .collect();
            let free: Vec<(u64, usize)> = store.verif_free_runs().iter().map(|r| (r.0, r.1 as usize)).collect();
            let line = format!(
                "ok v={} fresh={} n={} mem={} disk={} amb={} live=[{}] free=[{}]",
                store.verif_format_version(), fresh as u8, store.len(), store.memory_usage(), store.verif_disk_usage(),
                store.verif_ambiguous_legacy_markers(), lives.join(","), show_extents(&free)
            );
            drop(store);
            format!("{} body={}", line, body_digest(path))
        }
    };
    feoxdb::verif::clock::unpin();
    let op = format!("recover {} 0 {} {} {} {}", path, amb as u8, ttl as u8, now, s.recsize);
    (op, line)
}

/// after a read-write recovery that succeeded: the device as recovery left it must represent a tiling of its
/// data area by exactly the recovered index (the model recovers the same pre-image, and its post-image and index
/// are compared with the real ones on the `recover` line).  Format v3 on any image; the tolerant legacy formats
/// (which step over unrecognisable blocks) only on undamaged files; never with ambiguous legacy tombstones.
fn rep_op(op: &str, line: &str, clean: bool) -> Option<(String, String)> {
    if !line.starts_with("ok ") || !line.contains(" amb=0 ") || line.contains(" fresh=1 ") { return None; }
    if !(line.contains(" v=3 ") || clean) { return None; }
    let n = line.split(" n=").nth(1)?.split(' ').next()?.to_string();
    Some((op.replacen("recover ", "reptiled ", 1), format!("ok rt=1 n={}", n)))
}

/// the same question put to the *real* outcome: the file as the real recovery left it (`post`, a copy taken right
/// after the store was dropped) against the index the real store reported on its `recover` line
fn rep_post_op(post: &str, line: &str, clean: bool) -> Option<(String, String)> {
    if !line.starts_with("ok ") || !line.contains(" amb=0 ") || line.contains(" fresh=1 ") { return None; }
    if !(line.contains(" v=3 ") || clean) { return None; }
    let v = line.split(" v=").nth(1)?.split(' ').next()?.to_string();
    let lives = line.split(" live=[").nth(1)?.split(']').next()?;
    let idx: Vec<String> = lives.split(',').filter(|t| !t.is_empty()).filter_map(|t| { let f: Vec<&str> = t.split(':').collect(); if f.len() >= 5 { Some(f[..5].join(":")) } else { None } }).collect();
    Some((format!("repfile {} {} {}", post, v, if idx.is_empty() { "-".to_string() } else { idx.join(",") }), format!("ok rt=1 n={} clean=1", idx.len())))
}

fn new_device(path: &str, blocks: u64, version: u32) {
    let _ = std::fs::remove_file(path);
    let f = std::fs::File::create(path).unwrap();
    f.set_len(blocks * BS as u64).unwrap();
    if version != 3 {
        // legacy device: metadata of that version in block 0 (as the crate's own tests do)
        let mut m = Metadata::new();
        m.version = version;
        m.device_size = blocks * BS as u64;
        m.update();
        use std::os::unix::fs::FileExt;
        f.write_all_at(&m.encode(), 0).unwrap();
    }
}

struct Workload {
    keys: Vec<Vec<u8>>,
    /// what the store held when it was closed: `key:ts:exp:vlen:fnv(value)` per key (None if it never opened)
    fin: Option<Vec<String>>,
    /// the index at close with extents: `key:ts:exp:vlen:sector` per key (after an acknowledged final flush)
    idx: Option<Vec<String>>,
}

/// run a random workload on a real store at `path`; returns after a clean drop
fn run_workload(rng: &mut Rng, path: &str, blocks: u64, version: u32, ttl: bool, now: u64, steps: u64) -> Workload {
    feoxdb::verif::clock::pin(now);
    let store = FeoxStore::builder()
        .device_path(path.to_string())
        .file_size(blocks * BS as u64)
        .hash_bits(6)
        .enable_ttl(ttl && version != 1)
        .build();
    let mut keys: Vec<Vec<u8>> = vec![];
    let nkeys = rng.range(1, 6);
    for i in 0..nkeys {
        let kl = match rng.below(8) { 0 => 1, 1 => rng.range(200, 600) as usize, 2 => if version == 1 { 4074 } else { 4066 }, _ => rng.range(2, 24) as usize };
        let mut k = rng.bytes(kl);
        k[0] = b'a' + i as u8;
        keys.push(k);
    }
    if let Ok(store) = store {
        for step in 0..steps {
            let k = rng.pick(&keys).clone();
            match rng.below(10) {
                0..=5 => {
                    let vl = match rng.below(6) { 0 => 1, 1 => rng.range(3900, 4200) as usize, 2 => rng.range(8000, 9000) as usize, _ => rng.range(1, 300) as usize };
                    let mut v = rng.bytes(vl);
                    if rng.chance(1, 6) && vl > 64 {
                        // plant a deletion-marker / record-head look-alike inside the value
                        let at = rng.below((vl - 24) as u64) as usize;
                        if rng.chance(1, 2) { v[at..at + 8].copy_from_slice(b"\0DELETED"); } else { v[at] = 0xCD; v[at + 1] = 0xAB; }
                    }
                    let ts = match rng.below(6) { 0 => Some(now / 2 + step), 1 => Some(now * 2 + step), _ => None };
                    if ttl && version != 1 && rng.chance(1, 3) {
                        let secs = *rng.pick(&[1u64, 5, 1000, u64::MAX / 2]);
                        let _ = store.insert_with_ttl(&k, &v, secs);
                    } else {
                        let _ = store.insert_with_timestamp(&k, &v, ts);
                    }
                }
                6 => { let _ = store.delete(&k); }
                7 => {
                    // the other writing calls reach the device through the same record writer: a swap (also to
                    // an empty or an over-long value, which the format cannot hold and the call must refuse), a
                    // counter, a TTL change, a zero-copy insert
                    match rng.below(5) {
                        0 => {
                            if let Ok(cur) = store.get(&k) {
                                let nv = match rng.below(5) { 0 => vec![], 1 => vec![7u8; (4 << 20) + 1], _ => { let n = rng.range(1, 5000) as usize; rng.bytes(n) } };
                                let _ = store.compare_and_swap(&k, &cur, &nv);
                            }
                        }
                        1 => { let _ = store.atomic_increment(b"zcounter", rng.range(1, 9) as i64); }
                        2 => { if ttl && version != 1 { let _ = store.update_ttl(&k, *rng.pick(&[1u64, 30, 100_000])); } }
                        3 => { let n = rng.range(1, 6000) as usize; let _ = store.insert_bytes(&k, bytes::Bytes::from(rng.bytes(n))); }
                        _ => { let _ = store.delete(&k); }
                    }
                }
                8 => { let _ = store.flush(); }
                _ => { let _ = store.get(&k); }
            }
        }
        // (the device is small: only an acknowledged final flush makes the file say what the store holds)
        let flushed = store.flush().is_ok();
        let fin = contents(&store);
        let idx: Vec<String> = store.verif_snapshot().iter().map(|r| format!("{}:{}:{}:{}:{}", hex(&r.key), r.timestamp, r.ttl_expiry, r.value_len, r.sector)).collect();
        drop(store);
        feoxdb::verif::clock::unpin();
        return Workload { keys, fin: if flushed { Some(fin) } else { None }, idx: if flushed { Some(idx) } else { None } };
    }
    feoxdb::verif::clock::unpin();
    Workload { keys, fin: None, idx: None }
}

fn restamp_journal_checksum(_slot: &mut [u8]) {}

/// structure-aware damage for C17 (and the recovery model's error branches)
/// a second generation of a key that is already on the device: its single-block record is
/// copied to a free block (below or above), with a newer or older timestamp and an expiry that
/// is absent, already over at recovery time, or still ahead; the token is re-stamped for the
/// new sector.  (What a crash between a replacement's write and the old extent's retirement
/// leaves behind.)
fn dup_generation(rng: &mut Rng, img: &mut Vec<u8>, version: u32, now: u64) -> bool {
    let blocks = img.len() / BS;
    let heads: Vec<usize> = (16..blocks).filter(|b| {
        let o = b * BS;
        if !(img[o] == 0xCD && img[o + 1] == 0xAB) { return false; }
        let kl = u16::from_le_bytes([img[o + 4], img[o + 5]]) as usize;
        if 6 + kl + 24 > BS { return false; }
        let vl = u64::from_le_bytes(img[o + 6 + kl..o + 14 + kl].try_into().unwrap()) as usize;
        vl > 0 && 6 + kl + 24 + vl <= BS
    }).collect();
    let free: Vec<usize> = (16..blocks).filter(|b| all_zero(&img[b * BS..b * BS + BS])).collect();
    if heads.is_empty() || free.is_empty() { return false; }
    let h = *rng.pick(&heads);
    let below: Vec<usize> = free.iter().cloned().filter(|f| *f < h).collect();
    let above: Vec<usize> = free.iter().cloned().filter(|f| *f > h).collect();
    let src = img[h * BS..h * BS + BS].to_vec();
    // where the second generation goes: a free block below, above, or - so that "newer below
    // older" does not depend on holes - the original moves up and the new generation takes its place
    let f = if !above.is_empty() && rng.chance(1, 2) {
        let up = *rng.pick(&above);
        img[up * BS..up * BS + BS].copy_from_slice(&src);
        if version >= 3 {
            fx::stamp_seq_token(&mut img[up * BS..up * BS + BS], up as u64, version);
        }
        h
    } else if !below.is_empty() && rng.chance(1, 2) { *rng.pick(&below) } else { *rng.pick(&free) };
    let o = f * BS;
    img[o..o + BS].copy_from_slice(&src);
    let kl = u16::from_le_bytes([src[4], src[5]]) as usize;
    let ts = u64::from_le_bytes(src[14 + kl..22 + kl].try_into().unwrap());
    let nts = if rng.chance(1, 8) || FORCE_TIE.load(std::sync::atomic::Ordering::Relaxed) { ts } else if rng.chance(2, 3) { ts.saturating_add(rng.range(1, 9)) } else { ts.saturating_sub(rng.range(1, 9)) };
    img[o + 14 + kl..o + 22 + kl].copy_from_slice(&nts.to_le_bytes());
    if version >= 2 {
        let e = match rng.below(4) { 0 => 0u64, 1 | 2 => now.saturating_sub(rng.range(1, 3_000_000_000)), _ => now.saturating_add(1_000_000_000_000) };
        img[o + 22 + kl..o + 30 + kl].copy_from_slice(&e.to_le_bytes());
    }
    // often a different value length too (a generation that grew or shrank)
    if rng.chance(1, 2) {
        let vl = u64::from_le_bytes(img[o + 6 + kl..o + 14 + kl].try_into().unwrap());
        if vl > 1 {
            let nvl = rng.range(1, vl);
            img[o + 6 + kl..o + 14 + kl].copy_from_slice(&nvl.to_le_bytes());
        }
    }
    // change the value's first byte so the generations differ in content
    let voff = if version >= 2 { 30 + kl } else { 22 + kl };
    img[o + voff] ^= 0x5A;
    if version >= 3 {
        fx::stamp_seq_token(&mut img[o..o + BS], f as u64, version);
    }
    true
}

/// A newer single-block generation of a key BELOW its multi-block generation (what a crash between
/// a shrinking replacement's commit and the old extent's retirement leaves when the new record
/// went into a hole further down).  The old generation's tail blocks are given contents that look
/// like block heads - another record stamped for that very block (under a key nobody wrote), a
/// retirement marker, the record's own head - and its token is re-stamped over the whole extent:
/// it is a valid record, it loses by timestamp, and the scan has to step over ALL of its blocks.
fn dup_generation_below_multi(rng: &mut Rng, img: &mut Vec<u8>, version: u32, now: u64) -> bool {
    let blocks = img.len() / BS;
    let hdr = if version >= 2 { 30 } else { 22 };
    let geometry = |img: &Vec<u8>, b: usize| -> Option<(usize, usize)> {
        let o = b * BS;
        if !(img[o] == 0xCD && img[o + 1] == 0xAB) { return None; }
        let kl = u16::from_le_bytes([img[o + 4], img[o + 5]]) as usize;
        if 6 + kl + 24 > BS { return None; }
        let vl = u64::from_le_bytes(img[o + 6 + kl..o + 14 + kl].try_into().unwrap()) as usize;
        if vl == 0 || vl > (1 << 22) { return None; }
        Some((kl, (hdr + kl + vl).div_ceil(BS)))
    };
    let multi: Vec<(usize, usize, usize)> = (16..blocks).filter_map(|b| geometry(img, b).filter(|(_, n)| *n >= 2 && b + n <= blocks).map(|(kl, n)| (b, kl, n))).collect();
    let singles: Vec<usize> = (16..blocks).filter(|b| geometry(img, *b).map(|(_, n)| n == 1).unwrap_or(false)).collect();
    if multi.is_empty() { return false; }
    let (mut h, kl, n) = *rng.pick(&multi);
    let below: Vec<usize> = (16..h).filter(|b| all_zero(&img[b * BS..b * BS + BS])).collect();
    let f = if !below.is_empty() && rng.chance(1, 2) { *rng.pick(&below) } else {
        // no hole below (or not this time): the old extent moves up into a free run, the newer generation takes its place
        let runs: Vec<usize> = (h + n..blocks.saturating_sub(n - 1)).filter(|u| (*u..*u + n).all(|b| all_zero(&img[b * BS..b * BS + BS]))).collect();
        if runs.is_empty() { return false; }
        let u = *rng.pick(&runs);
        let ext = img[h * BS..(h + n) * BS].to_vec();
        img[u * BS..(u + n) * BS].copy_from_slice(&ext);
        for x in &mut img[h * BS..(h + n) * BS] { *x = 0; }
        let at = h;
        h = u;
        at
    };
    let head = img[h * BS..h * BS + BS].to_vec();
    // the newer generation: one block
    let o = f * BS;
    img[o..o + BS].copy_from_slice(&head);
    let room = BS - hdr - kl;
    if room < 2 { for x in &mut img[o..o + BS] { *x = 0; } return false; }
    let nvl = rng.range(1, (room as u64).min(300));
    img[o + 6 + kl..o + 14 + kl].copy_from_slice(&nvl.to_le_bytes());
    let ts = u64::from_le_bytes(head[14 + kl..22 + kl].try_into().unwrap());
    img[o + 14 + kl..o + 22 + kl].copy_from_slice(&ts.saturating_add(rng.range(1, 9)).to_le_bytes());
    if version >= 2 {
        let e = match rng.below(4) { 0 | 1 => 0u64, 2 => now.saturating_add(1_000_000_000_000), _ => now.saturating_sub(rng.range(1, 3_000_000_000)) };
        img[o + 22 + kl..o + 30 + kl].copy_from_slice(&e.to_le_bytes());
    }
    img[o + hdr + kl - 0] ^= 0x5A;
    if version >= 3 { fx::stamp_seq_token(&mut img[o..o + BS], f as u64, version); }
    // the old generation's tails
    for t in h + 1..h + n {
        let to = t * BS;
        match rng.below(4) {
            0 if !singles.is_empty() => {
                let g = *rng.pick(&singles);
                let mut blk = img[g * BS..g * BS + BS].to_vec();
                let gkl = u16::from_le_bytes([blk[4], blk[5]]) as usize;
                if gkl > 0 { blk[6] ^= 0x21; }   // a key nobody wrote
                if version >= 3 { fx::stamp_seq_token(&mut blk, t as u64, version); }
                img[to..to + BS].copy_from_slice(&blk);
            }
            1 => {
                let mut m = vec![0u8; BS];
                fx::fill_retirement_markers(&mut m, t as u64, (rng.range(1, 4) as usize).min(blocks - t));
                img[to..to + BS].copy_from_slice(&m);
            }
            2 => { img[to..to + BS].copy_from_slice(&head); }
            _ => {}
        }
    }
    if version >= 3 { fx::stamp_seq_token(&mut img[h * BS..(h + n) * BS], h as u64, version); }
    true
}

/// The mirror image: a *newer, multi-block* generation of a key in a free run BELOW its older single-block generation,
/// which has other live records right behind it (a growing update that went into a hole further down, crash before
/// the old extent's retirement).  The scan meets the newer generation first; at the older one it has to step over
/// exactly the older one's extent - one block - or it jumps over its neighbours.
fn dup_generation_newer_multi_below(rng: &mut Rng, img: &mut Vec<u8>, version: u32) -> bool {
    let blocks = img.len() / BS;
    let hdr = if version >= 2 { 30 } else { 22 };
    let geometry = |img: &Vec<u8>, b: usize| -> Option<(usize, usize)> {
        let o = b * BS;
        if !(img[o] == 0xCD && img[o + 1] == 0xAB) { return None; }
        let kl = u16::from_le_bytes([img[o + 4], img[o + 5]]) as usize;
        if kl == 0 || 6 + kl + 24 > BS { return None; }
        let vl = u64::from_le_bytes(img[o + 6 + kl..o + 14 + kl].try_into().unwrap()) as usize;
        if vl == 0 || vl > (1 << 22) { return None; }
        Some((kl, (hdr + kl + vl).div_ceil(BS)))
    };
    // single-block records with another record's head right behind them
    let cands: Vec<(usize, usize)> = (16..blocks.saturating_sub(1)).filter_map(|b| geometry(img, b).filter(|(_, n)| *n == 1).map(|(kl, _)| (b, kl)))
        .filter(|(b, _)| geometry(img, b + 1).is_some()).collect();
    if cands.is_empty() { return false; }
    let (h, kl) = *rng.pick(&cands);
    let n = rng.range(2, 4) as usize;
    let runs: Vec<usize> = (16..h.saturating_sub(n - 1)).filter(|u| *u + n <= h && (*u..*u + n).all(|b| all_zero(&img[b * BS..b * BS + BS]))).collect();
    if runs.is_empty() { return false; }
    let f = *rng.pick(&runs);
    let head = img[h * BS..h * BS + BS].to_vec();
    let o = f * BS;
    let mut ext = rng.bytes(n * BS);
    ext[..hdr + kl].copy_from_slice(&head[..hdr + kl]);
    ext[2] = 0; ext[3] = 0;
    // a value that ends in the extent's last block
    let nvl = ((n - 1) * BS + rng.range(1, 2000) as usize - (hdr + kl).min((n - 1) * BS)) as u64;
    let nvl = nvl.max(((n - 1) * BS + 1).saturating_sub(hdr + kl) as u64).min((n * BS - hdr - kl) as u64);
    ext[6 + kl..14 + kl].copy_from_slice(&nvl.to_le_bytes());
    let ts = u64::from_le_bytes(head[14 + kl..22 + kl].try_into().unwrap());
    ext[14 + kl..22 + kl].copy_from_slice(&ts.saturating_add(rng.range(1, 9)).to_le_bytes());
    if version >= 2 { ext[22 + kl..30 + kl].copy_from_slice(&0u64.to_le_bytes()); }
    if (hdr + kl + nvl as usize).div_ceil(BS) != n { return false; }
    if version >= 3 { fx::stamp_seq_token(&mut ext, f as u64, version); }
    img[o..o + n * BS].copy_from_slice(&ext);
    true
}

/// A device built with the real store so that a *newer, larger* generation of a key sits in a hole BELOW its older
/// one-block generation, which has other live records right behind it: a three-block filler is written first, then the
/// key and two neighbours; the filler is deleted (its hole is the best fit for a three-block value), the key is
/// updated with such a value, and the "crash before the old extent's retirement" is made by putting the old block
/// back from a copy taken before the update.
fn stale_behind_winner_device(rng: &mut Rng, path: &str, version: u32, now: u64) -> Option<Vec<u8>> {
    let blocks = 40u64;
    new_device(path, blocks, version);
    feoxdb::verif::clock::pin(now);
    let open = || FeoxStore::builder().device_path(path.to_string()).file_size(blocks * BS as u64).hash_bits(6).enable_caching(false).build();
    let r = (|| -> Option<Vec<u8>> {
        let store = open().ok()?;
        let tag = rng.below(1000);
        let filler = format!("filler-{}", tag).into_bytes();
        let key = format!("grow-{}", tag).into_bytes();
        store.insert(&filler, &rng.bytes(2 * BS + 500)).ok()?;
        store.flush().ok()?;
        store.insert(&key, &rng.bytes(200)).ok()?;
        store.flush().ok()?;
        for i in 0..rng.range(2, 4) { store.insert(format!("next-{}-{}", tag, i).as_bytes(), &rng.bytes(100 + 50 * i as usize)).ok()?; store.flush().ok()?; }
        let old_sector = store.verif_snapshot().iter().find(|r| r.key == key)?.sector as usize;
        store.delete(&filler).ok()?;
        store.flush().ok()?;
        let before = std::fs::read(path).ok()?;
        store.insert(&key, &rng.bytes(2 * BS + 300)).ok()?;
        store.flush().ok()?;
        let new_sector = store.verif_snapshot().iter().find(|r| r.key == key)?.sector as usize;
        drop(store);
        let mut img = std::fs::read(path).ok()?;
        if !(new_sector < old_sector) || old_sector == 0 { return None; }
        // the old one-block generation is back (its retirement never became durable)
        img[old_sector * BS..(old_sector + 1) * BS].copy_from_slice(&before[old_sector * BS..(old_sector + 1) * BS]);
        Some(img)
    })();
    feoxdb::verif::clock::unpin();
    r
}

fn mutate_image(rng: &mut Rng, img: &mut Vec<u8>, version: u32) -> &'static str {
    let blocks = img.len() / BS;
    let data_blocks: Vec<usize> = (16..blocks).filter(|b| !all_zero(&img[b * BS..b * BS + 64])).collect();
    let pick_block = |rng: &mut Rng| -> usize {
        if !data_blocks.is_empty() && rng.chance(4, 5) { *rng.pick(&data_blocks) } else { rng.range(16, blocks as u64 - 1) as usize }
    };
    match rng.below(13) {
        0 => { let i = rng.below(img.len() as u64) as usize; img[i] ^= 1 << rng.below(8); "bitflip-any" }
        1 => { let b = pick_block(rng); let i = b * BS + rng.below(40) as usize; img[i] ^= 1 << rng.below(8); "bitflip-head" }
        2 => { let a = pick_block(rng); let b = pick_block(rng); for i in 0..BS { img.swap(a * BS + i, b * BS + i); } "block-swap" }
        3 => { let a = pick_block(rng); let b = rng.range(16, blocks as u64 - 1) as usize; let src = img[a * BS..a * BS + BS].to_vec(); img[b * BS..b * BS + BS].copy_from_slice(&src); "block-dup" }
        4 => { let b = pick_block(rng); for x in &mut img[b * BS..b * BS + BS] { *x = 0; } "block-zero" }
        5 => {
            // forged value_len / key_len in a head, token restamped half of the time
            let b = pick_block(rng);
            let off = b * BS;
            if img[off] == 0xCD && img[off + 1] == 0xAB {
                let kl = u16::from_le_bytes([img[off + 4], img[off + 5]]) as usize;
                if rng.chance(1, 2) && 6 + kl + 8 <= BS {
                    let v = *rng.pick(&[0u64, 1, 4096, 5000, 1 << 22, (1 << 22) + 1, u64::MAX, 1 << 40]);
                    img[off + 6 + kl..off + 14 + kl].copy_from_slice(&v.to_le_bytes());
                } else {
                    let v = *rng.pick(&[0u16, 1, 4066, 4067, 4074, 4075, 5000, u16::MAX]);
                    img[off + 4..off + 6].copy_from_slice(&v.to_le_bytes());
                }
                if version >= 3 && rng.chance(1, 2) {
                    let t = fx::record_seq_token(b as u64, &img[off..off + BS]);
                    img[off + 2..off + 4].copy_from_slice(&t.to_le_bytes());
                }
            }
            "forged-head"
        }
        6 => {
            // forged marker
            let b = pick_block(rng);
            let off = b * BS;
            let rem = *rng.pick(&[0u64, 1, 2, 3, 1000, u64::MAX, (blocks - b) as u64, (blocks - b) as u64 + 1]);
            let mut m = vec![0u8; BS];
            fx::fill_retirement_markers(&mut m, b as u64, rem as usize);
            match rng.below(6) {
                0 => m[18] = 0,
                1 => m[16] ^= 1,
                2 => { for x in &mut m[8..] { *x = 0; } }
                3 | 4 => {
                    // a *pending* marker (state byte 0) whose token is valid for it: any remaining count
                    m[18] = 0;
                    let rem2 = *rng.pick(&[u64::MAX, u64::MAX - b as u64, u64::MAX - b as u64 + 1, 1u64 << 63, 2, (blocks - b) as u64]);
                    m[8..16].copy_from_slice(&rem2.to_le_bytes());
                    let t = fx::retirement_marker_token(b as u64, &m[..19]);
                    m[16..18].copy_from_slice(&t.to_le_bytes());
                }
                _ => {}
            }
            img[off..off + BS].copy_from_slice(&m);
            "forged-marker"
        }
        7 => {
            // journal slot forgery
            let slot = rng.below(2) as usize;
            let off = (1 + slot * 3) * BS;
            let total = blocks as u64;
            let vv = rng.chance(2, 3);
            let es = rand_extents(rng, total, vv);
            let g = rng.range(1, 50);
            let j = if rng.chance(2, 3) { fx::journal_encode_active(g, &es) } else { fx::journal_encode_clear(g) };
            if let Ok(j) = j {
                let l = j.len().min(3 * BS);
                for x in &mut img[off..off + 3 * BS] { *x = 0; }
                img[off..off + l].copy_from_slice(&j[..l]);
                if rng.chance(1, 3) {
                    let f = *rng.pick(&[8usize, 24, 28]);
                    let val = *rng.pick(&[0u32, 1, 2, 3, 1024, 1025, 1531, 1532, 4000, u32::MAX]);
                    img[off + f..off + f + 4].copy_from_slice(&val.to_le_bytes());
                    if rng.chance(1, 2) {
                        let c = rng.next() as u32;
                        img[off + 12..off + 16].copy_from_slice(&c.to_le_bytes());
                        img[off + 32..off + 36].copy_from_slice(&(!c).to_le_bytes());
                    }
                }
            }
            let _ = restamp_journal_checksum;
            "forged-journal"
        }
        8 => {
            // metadata damage
            let which = if rng.chance(1, 2) { 0 } else { 7 };
            let off = which * BS;
            match rng.below(5) {
                0 => { let i = off + rng.below(136) as usize; img[i] ^= 1 << rng.below(8); }
                1 => { for x in &mut img[off..off + BS] { *x = 0; } }
                2 => { let b = rand_meta(rng); img[off..off + b.len()].copy_from_slice(&b); }
                3 => { img[off] = b'Z'; }
                _ => { for x in &mut img[off..off + BS] { *x = 0; } let o2 = (7 - which) * BS; for x in &mut img[o2..o2 + BS] { *x = 0; } }
            }
            "meta-damage"
        }
        9 => {
            // truncate an extent: zero its tail block
            let b = pick_block(rng);
            if b + 1 < blocks { for x in &mut img[(b + 1) * BS..(b + 2) * BS] { *x = 0; } }
            "extent-truncate"
        }
        10 => { let b = pick_block(rng); let r = rng.bytes(BS); img[b * BS..b * BS + BS].copy_from_slice(&r); "block-random" }
        11 => {
            // a well-formed ACTIVE journal over blocks that hold data, on a file whose metadata copies are BOTH
            // unacceptable: the open has to be refused before the journal is looked at, let alone replayed
            let slot = rng.below(2) as usize;
            let off = (1 + slot * 3) * BS;
            let mut es: Vec<(u64, usize)> = vec![];
            for _ in 0..rng.range(1, 3) {
                let b = pick_block(rng);
                let n = (rng.range(1, 4) as usize).min(blocks - b);
                if es.iter().all(|(s, l)| b as u64 + n as u64 <= *s || *s + *l as u64 <= b as u64) { es.push((b as u64, n)); }
            }
            if let Ok(j) = fx::journal_encode_active(rng.range(60, 90), &es) {
                let l = j.len().min(3 * BS);
                for x in &mut img[off..off + 3 * BS] { *x = 0; }
                img[off..off + l].copy_from_slice(&j[..l]);
            }
            let how = rng.below(3);
            for which in [0usize, 7] {
                let o = which * BS;
                match how {
                    0 => { for x in &mut img[o..o + BS] { *x = 0; } }
                    1 => { img[o] = b'Z'; }
                    _ => { let i = o + 16 + rng.below(100) as usize; img[i] ^= 0x10; }
                }
            }
            "bad-metadata-active-journal"
        }
        _ => { let n = rng.range(1, 4); for _ in 0..n { let i = rng.below(img.len() as u64) as usize; img[i] = rng.next() as u8; } "bytes-random" }
    }
}

/// `dupgen` section: only multi-generation images (C11's no-resurrection clause)
/// records the device writes (with their bytes) and fsyncs of an open
struct Tracer {
    log: std::sync::Mutex<Vec<(bool, u64, Vec<u8>)>>, // (is_write, block, bytes)
}

impl feoxdb::verif::io::Observer for Tracer {
    fn event(&self, kind: feoxdb::verif::io::Kind, _fd: i32, sector: u64, _len: usize, data: &[u8]) -> feoxdb::verif::io::Decision {
        use feoxdb::verif::io::Kind::*;
        match kind {
            Write | RingWrite => self.log.lock().unwrap().push((true, sector, data.to_vec())),
            Fsync => self.log.lock().unwrap().push((false, 0, vec![])),
            _ => {}
        }
        feoxdb::verif::io::Decision::Proceed
    }
}

/// what a completed recovery of `path` exposes: key -> (timestamp, expiry, value digest)
fn recovered_contents(path: &str, amb: bool, ttl: bool, now: u64, tracer: Option<std::sync::Arc<Tracer>>) -> Result<std::collections::BTreeMap<Vec<u8>, (u64, u64, String)>, String> {
    recovered_contents_at(path, amb, ttl, now, tracer).map(|m| m.into_iter().map(|(k, v)| (k, (v.0, v.1, v.2))).collect())
}

/// as above, with the sector of each record
fn recovered_contents_at(path: &str, amb: bool, ttl: bool, now: u64, tracer: Option<std::sync::Arc<Tracer>>) -> Result<std::collections::BTreeMap<Vec<u8>, (u64, u64, String, u64)>, String> {
    feoxdb::verif::clock::pin(now);
    if let Some(t) = &tracer { feoxdb::verif::io::set_observer(Some(t.clone())); }
    let p = path.to_string();
    let (tx, rx) = std::sync::mpsc::channel();
    let opener = std::thread::spawn(move || {
        let r = catch_unwind(AssertUnwindSafe(|| {
            FeoxStore::builder().device_path(p.clone()).hash_bits(6).enable_caching(false).enable_ttl(ttl)
                .allow_ambiguous_legacy_recovery(amb).build()
        }));
        let _ = tx.send(r);
    });
    let r = match rx.recv_timeout(std::time::Duration::from_secs(20)) {
        Ok(r) => { let _ = opener.join(); r }
        Err(_) => { eprintln!("HANG: opening {} did not return within 20 s", path); std::process::exit(3); }
    };
    feoxdb::verif::io::set_observer(None);
    let res = match r {
        Err(_) => Err("panic".to_string()),
        Ok(Err(e)) => Err(format!("err {}", err_name(&e))),
        Ok(Ok(store)) => {
            let mut m = std::collections::BTreeMap::new();
            for r in store.verif_snapshot() {
                let vd = match catch_unwind(AssertUnwindSafe(|| store.get(&r.key))) {
                    Ok(Ok(v)) => format!("{}", fnv(&v)),
                    Ok(Err(e)) => format!("E{}", err_name(&e)),
                    Err(_) => "PANIC".to_string(),
                };
                m.insert(r.key.clone(), (r.timestamp, r.ttl_expiry, vd, r.sector));
            }
            if m.len() != store.len() { m.insert(b"#len".to_vec(), (store.len() as u64, 0, String::new(), 0)); }
            drop(store);
            Ok(m)
        }
    };
    feoxdb::verif::clock::unpin();
    res
}

/// the record heads of a cleanly closed v2/v3 device (plus forged copies), in scan order:
/// (key, timestamp, expiry, sector)
fn image_generations(img: &[u8]) -> Vec<(Vec<u8>, u64, u64, u64)> {
    let blocks = img.len() / BS;
    let mut out = vec![];
    let mut b = 16;
    while b < blocks {
        let o = b * BS;
        if img[o] == 0xCD && img[o + 1] == 0xAB {
            let kl = u16::from_le_bytes([img[o + 4], img[o + 5]]) as usize;
            if kl > 0 && 30 + kl <= BS {
                let vl = u64::from_le_bytes(img[o + 6 + kl..o + 14 + kl].try_into().unwrap()) as usize;
                let ts = u64::from_le_bytes(img[o + 14 + kl..o + 22 + kl].try_into().unwrap());
                let ex = u64::from_le_bytes(img[o + 22 + kl..o + 30 + kl].try_into().unwrap());
                let n = (30 + kl + vl).div_ceil(BS).max(1);
                if b + n <= blocks {
                    out.push((img[o + 6..o + 6 + kl].to_vec(), ts, ex, b as u64));
                    b += n;
                    continue;
                }
            }
        }
        b += 1;
    }
    out
}

/// recover `img` (ttl on, clock at `later`), then restart recovery from every cut of its own write trace
fn reccut_image(s: &mut Sink, rng: &mut Rng, img: &[u8], amb: bool, later: u64, tag: &str, sparse: bool, oracle: &mut Vec<String>) {
    let mp = format!("{}/{}.feox", s.dir, tag);
    std::fs::write(&mp, img).unwrap();
    let tracer = std::sync::Arc::new(Tracer { log: std::sync::Mutex::new(vec![]) });
    let r0at = match recovered_contents_at(&mp, amb, true, later, Some(tracer.clone())) {
        Ok(r) => r,
        Err(_) => { *s.hist.entry("reccut-first-recovery-refused".into()).or_insert(0) += 1; let _ = std::fs::remove_file(&mp); return; }
    };
    // generation-level model (Feox.Proto.Gens.exposed) on the same device
    {
        let gens = image_generations(img);
        let mut keys: Vec<Vec<u8>> = gens.iter().map(|g| g.0.clone()).collect();
        keys.sort();
        keys.dedup();
        let idx = |k: &Vec<u8>| keys.binary_search(k).ok();
        let line = if gens.is_empty() { "-".to_string() } else { gens.iter().map(|g| format!("{}:{}:{}:{}", idx(&g.0).unwrap(), g.1, g.2, g.3)).collect::<Vec<_>>().join(",") };
        let mut known = true;
        let shown: Vec<String> = r0at.iter().filter(|(k, _)| k.as_slice() != b"#len").map(|(k, v)| match idx(k) { Some(i) => format!("{}:{}:{}:{}", i, v.0, v.1, v.3), None => { known = false; String::new() } }).collect();
        let multi = keys.len() < gens.len();
        let res = if known { format!("ok {}", shown.join(",")).trim_end().to_string() } else { "recovered a key the image walk did not see".to_string() };
        s.emit(if multi { "gens-multi-generation" } else { "gens" }, format!("gens {} {}", later, line), res);
    }
    let r0: std::collections::BTreeMap<Vec<u8>, (u64, u64, String)> = r0at.into_iter().map(|(k, v)| (k, (v.0, v.1, v.2))).collect();
    // an instant after every expiry found on the device
    let later2 = image_generations(img).iter().map(|g| g.2).max().unwrap_or(0).saturating_add(1_000_000_000).max(later);
    let trace = tracer.log.lock().unwrap().clone();
    let nwrites = trace.iter().filter(|e| e.0).count();
    *s.hist.entry(if sparse { format!("reccut-big-image-{}-journal-transactions", trace.iter().filter(|e| e.0 && e.1 < 16).count() / 2) } else { format!("reccut-image-{}-repair-writes", nwrites.min(9)) }).or_insert(0) += 1;
    // sparse (long traces): every journal / metadata write is a cut, of the marker writes a sample
    let cuts: Vec<usize> = trace.iter().enumerate().filter(|(_, e)| e.0 && (!sparse || e.1 < 16 || rng.chance(1, 100))).map(|(i, _)| i + 1).collect();
    let mut cuts = cuts;
    cuts.insert(0, 0); // nothing of the first recovery reached the device: only the later restart is of interest
    for &cut in &cuts {
        for variant in 0..3 {
            if cut == 0 && variant >= 1 { continue; }
            // 0: everything issued up to the cut is on the device; 1: fsynced writes + a random subset of the rest;
            // 2: as 0, but the write right before the cut is torn at 512-byte sectors (some of them still hold the
            //    old bytes) - a torn journal slot fails its checksum and the *other* slot decides what recovery sees
            if variant == 2 {
                let last = &trace[cut - 1];
                if !last.0 || last.2.len() <= 512 || (sparse && last.1 >= 16 && !rng.chance(1, 20)) { continue; }
            }
            let mut img2 = img.to_vec();
            let mut pending: Vec<&(bool, u64, Vec<u8>)> = vec![];
            let apply = |img2: &mut Vec<u8>, e: &(bool, u64, Vec<u8>)| {
                let off = e.1 as usize * BS;
                if off + e.2.len() <= img2.len() { img2[off..off + e.2.len()].copy_from_slice(&e.2); }
            };
            for (ei, e) in trace[..cut].iter().enumerate() {
                if e.0 {
                    if variant == 2 && ei == cut - 1 {
                        // torn: each 512-byte sector lands or not; at least one of each kind
                        let off = e.1 as usize * BS;
                        let nsec = e.2.len() / 512;
                        let mut land: Vec<bool> = (0..nsec).map(|_| rng.chance(1, 2)).collect();
                        let a = rng.below(nsec as u64) as usize;
                        let b = (a + 1 + rng.below(nsec as u64 - 1) as usize) % nsec;
                        land[a] = true; land[b] = false;
                        for (si, l) in land.iter().enumerate() {
                            let o = off + si * 512;
                            if *l && o + 512 <= img2.len() { img2[o..o + 512].copy_from_slice(&e.2[si * 512..si * 512 + 512]); }
                        }
                        *s.hist.entry(if e.1 < 16 { "reccut-torn-journal-write".to_string() } else { "reccut-torn-data-write".to_string() }).or_insert(0) += 1;
                    } else if variant != 1 { apply(&mut img2, e); } else { pending.push(e); }
                }
                else { for q in pending.drain(..) { apply(&mut img2, q); } }
            }
            if variant == 1 {
                if pending.is_empty() { continue; }
                for q in pending.drain(..) { if rng.chance(1, 2) { apply(&mut img2, q); } }
            }
            let cp = format!("{}/{}_c{}_{}.feox", s.dir, tag, cut, variant);
            std::fs::write(&cp, &img2).unwrap();
            *s.hist.entry("reccut-restart".into()).or_insert(0) += 1;
            let r1 = recovered_contents(&cp, amb, true, later, None);
            let same = matches!(&r1, Ok(r) if *r == r0);
            if !same {
                let keep0 = format!("{}/{}.image", s.dir, tag);
                let keep1 = format!("{}/{}_c{}_{}.image", s.dir, tag, cut, variant);
                std::fs::write(&keep0, img).unwrap();
                std::fs::write(&keep1, &img2).unwrap();
                let show = |r: &std::collections::BTreeMap<Vec<u8>, (u64, u64, String)>| r.iter().take(6).map(|(k, v)| format!("{}@{}/{}={}", hex(&k[..k.len().min(12)]), v.0, v.1, v.2)).collect::<Vec<_>>().join(",");
                let diff = match &r1 {
                    Err(e) => format!("the restarted recovery fails: {}", e),
                    Ok(r) => {
                        let k = r.keys().chain(r0.keys()).find(|k| r.get(*k) != r0.get(*k)).unwrap();
                        format!("key {}: uninterrupted recovery {:?}, restarted recovery {:?}", hex(k), r0.get(k), r.get(k))
                    }
                };
                oracle.push(format!("reccut{}: recovery (ttl on, now={}, amb={}) of {} interrupted after {} of its {} device events ({}) and restarted on {} exposes different contents — {} [first: {}{}]",
                    if sparse { "-big" } else { "" }, later, amb as u8, keep0, cut, trace.len(), if variant == 0 { "all issued writes landed" } else if variant == 1 { "un-synced writes partly lost" } else { "the last write torn at 512-byte sectors" }, keep1, diff, show(&r0), if r0.len() > 6 { ",..." } else { "" }));
                if sparse { let _ = std::fs::remove_file(&cp); let _ = std::fs::remove_file(&mp); return; }
            }
            let _ = std::fs::remove_file(&cp);
            // … and the same cut restarted *later*, when every expiry on the device has passed: apart from the
            // keys whose (newest) generation has expired in between, the contents are those of the first recovery
            if variant == 0 && same && later2 > later {
                std::fs::write(&cp, &img2).unwrap();
                *s.hist.entry("reccut-restart-after-expiries".into()).or_insert(0) += 1;
                let r2 = recovered_contents(&cp, amb, true, later2, None);
                let want: std::collections::BTreeMap<Vec<u8>, (u64, u64, String)> = r0.iter().filter(|(_, v)| v.1 == 0 || later2 <= v.1).map(|(k, v)| (k.clone(), v.clone())).collect();
                if !matches!(&r2, Ok(r) if *r == want) {
                    let keep0 = format!("{}/{}.image", s.dir, tag);
                    let keep1 = format!("{}/{}_c{}_late.image", s.dir, tag, cut);
                    std::fs::write(&keep0, img).unwrap();
                    std::fs::write(&keep1, &img2).unwrap();
                    let diff = match &r2 {
                        Err(e) => format!("the restarted recovery fails: {}", e),
                        Ok(r) => {
                            let k = r.keys().chain(want.keys()).find(|k| r.get(*k) != want.get(*k)).unwrap();
                            format!("key {}: the first recovery reported {:?}, the restarted one (all expiries passed) {:?}, expected {:?}", hex(k), r0.get(k), r.get(k), want.get(k))
                        }
                    };
                    oracle.push(format!("reccut-late: recovery (ttl on, now={}, amb={}) of {} interrupted after {} of its {} device events and restarted on {} at now={} (every expiry on the device has passed) does not expose the first recovery's contents minus the expired keys — {}",
                        later, amb as u8, keep0, cut, trace.len(), keep1, later2, diff));
                    let _ = std::fs::remove_file(&cp);
                    let _ = std::fs::remove_file(&mp);
                    return;
                }
                let _ = std::fs::remove_file(&cp);
            }
        }
    }
    let _ = std::fs::remove_file(&mp);
}

/// a device on which recovery has more than ALLOCATION_JOURNAL_MAX_ENTRIES (1024) separate extents to
/// retire - `pairs` expired keys interleaved with live ones - and one of the expired winners (lowest
/// sector) has an older, unexpired generation in the last block
fn sec_reccut_big(s: &mut Sink, rng: &mut Rng, pairs: u64, oracle: &mut Vec<String>) {
    let now = 1_700_000_000_000_000_000u64 + rng.below(1_000_000_000);
    let blocks = 16 + 2 * pairs + 64;
    let path = format!("{}/rcbig.feox", s.dir);
    new_device(&path, blocks, 3);
    feoxdb::verif::clock::pin(now);
    let Ok(store) = FeoxStore::builder().device_path(path.clone()).file_size(blocks * BS as u64).hash_bits(10).enable_ttl(true).build() else { return };
    for i in 0..pairs {
        // one flush per record: the two kinds alternate on the device, so nothing coalesces
        let _ = store.insert(format!("live-{:05}", i).as_bytes(), &rng.bytes(40));
        let _ = store.flush();
        let _ = store.insert_with_ttl(format!("gone-{:05}", i).as_bytes(), &rng.bytes(40), 1);
        let _ = store.flush();
    }
    // the last transaction before the close is a write batch of a few *live* records: its intent stays in the
    // older journal slot, under the clear record that ended it (a recovery that falls back to that slot - because
    // the slot it is writing is torn - must not take the old intent for unfinished business)
    for i in 0..3 { let _ = store.insert(format!("last-{:05}", i).as_bytes(), &rng.bytes(40)); }
    let _ = store.flush();
    drop(store);
    feoxdb::verif::clock::unpin();
    let mut img = std::fs::read(&path).unwrap();
    let _ = std::fs::remove_file(&path);
    let nblocks = img.len() / BS;
    // lowest expiring record
    let head = (16..nblocks).find(|b| {
        let o = b * BS;
        img[o] == 0xCD && img[o + 1] == 0xAB && {
            let kl = u16::from_le_bytes([img[o + 4], img[o + 5]]) as usize;
            kl == 10 && &img[o + 6..o + 11] == b"gone-"
        }
    });
    let free = (16..nblocks).rev().find(|b| all_zero(&img[b * BS..b * BS + BS]));
    let (Some(h), Some(f)) = (head, free) else { *s.hist.entry("reccut-big-skipped".into()).or_insert(0) += 1; return };
    if f < h { *s.hist.entry("reccut-big-skipped".into()).or_insert(0) += 1; return; }
    // half of the devices get no stale generation: recovery's first journal transaction is then the large one
    // that retires the expired winners (a torn image of *that* record is what makes the other slot decide)
    if rng.chance(1, 2) {
        *s.hist.entry("reccut-big-without-stale-generation".into()).or_insert(0) += 1;
        let later = now + 10_000_000_000;
        reccut_image(s, rng, &img, false, later, "rcbig", true, oracle);
        return;
    }
    let src = img[h * BS..h * BS + BS].to_vec();
    let o = f * BS;
    img[o..o + BS].copy_from_slice(&src);
    let kl = 10usize;
    let ts = u64::from_le_bytes(src[14 + kl..22 + kl].try_into().unwrap());
    img[o + 14 + kl..o + 22 + kl].copy_from_slice(&(ts - 5).to_le_bytes());
    img[o + 22 + kl..o + 30 + kl].copy_from_slice(&0u64.to_le_bytes());
    img[o + 30 + kl] ^= 0x5A;
    fx::stamp_seq_token(&mut img[o..o + BS], f as u64, 3);
    let later = now + 10_000_000_000;
    reccut_image(s, rng, &img, false, later, "rcbig", true, oracle);
}

/// C04 on devices that hold several generations of a key with expiries on both sides of the
/// recovery time: recovery's own write trace is cut at every write (everything up to the cut on the
/// device; or only what was fsynced plus a subset of the rest) and the resulting device is recovered
/// again; what the restarted recovery exposes must be what the uninterrupted one exposed
fn sec_reccut(s: &mut Sink, rng: &mut Rng, workloads: usize, mutations: usize, oracle: &mut Vec<String>) {
    let base = 1_700_000_000_000_000_000u64;
    for w in 0..workloads {
        let version = *rng.pick(&[3u32, 3, 2]);
        let blocks = rng.range(20, 64);
        let path = format!("{}/rc{}.feox", s.dir, w);
        new_device(&path, blocks, version);
        let now = base + rng.below(1_000_000_000);
        let steps = rng.range(1, 40);
        let _ = run_workload(rng, &path, blocks, version, true, now, steps);
        let pristine = std::fs::read(&path).unwrap();
        let later = now + *rng.pick(&[0u64, 2_000_000_000, 6_000_000_000, 2_000_000_000_000]);
        for m in 0..mutations {
            let mut img = pristine.clone();
            let mut gens = 0;
            for _ in 0..rng.range(1, 3) { if dup_generation(rng, &mut img, version, later) { gens += 1; } }
            if gens == 0 { *s.hist.entry("reccut-skipped-no-generation".into()).or_insert(0) += 1; continue; }
            let amb = rng.chance(1, 3);
            reccut_image(s, rng, &img, amb, later, &format!("rc{}_m{}", w, m), false, oracle);
        }
        let _ = std::fs::remove_file(&path);
    }
}

static DUPGEN_ONLY: std::sync::atomic::AtomicBool = std::sync::atomic::AtomicBool::new(false);
/// the second generation made by `dup_generation` carries the *same* timestamp as the first (the tie rule of
/// recovery - the later extent wins - is then what decides the key's value)
static FORCE_TIE: std::sync::atomic::AtomicBool = std::sync::atomic::AtomicBool::new(false);
static RECOVER_ORACLE: std::sync::Mutex<Vec<String>> = std::sync::Mutex::new(Vec::new());

/// C12 on a recovered device: the version clock of every key's shard is at or above the timestamp
/// the index holds for the key (so the next automatic version exceeds it), and an automatic write
/// right after the open is not refused as older
fn clock_floor_check(image: &str, amb: bool, ttl: bool, now: u64, dir: &str) {
    let Ok(bytes) = std::fs::read(image) else { return };
    let p = format!("{}/clockfloor.feox", dir);
    if std::fs::write(&p, &bytes).is_err() { return; }
    feoxdb::verif::clock::pin(now);
    let r = catch_unwind(AssertUnwindSafe(|| {
        FeoxStore::builder().device_path(p.clone()).hash_bits(6).enable_caching(false).enable_ttl(ttl)
            .allow_ambiguous_legacy_recovery(amb).build()
    }));
    if let Ok(Ok(store)) = r {
        let mut bad: Option<String> = None;
        for rec in store.verif_snapshot() {
            let shard = store.verif_clock_shard(&rec.key);
            let clock = store.verif_clock_value(shard);
            if clock < rec.timestamp && rec.timestamp != u64::MAX && bad.is_none() {
                bad = Some(format!("clockfloor: after recovering {} (now={}) key {} is indexed with timestamp {} but its clock shard stands at {}: the next automatic version would not exceed it", image, now, hex(&rec.key), rec.timestamp, clock));
            }
        }
        if bad.is_none() {
            for rec in store.verif_snapshot() {
                if rec.timestamp >= u64::MAX - 1 { continue; }
                if let Err(feoxdb::FeoxError::OlderTimestamp) = store.insert(&rec.key, b"after-recovery") {
                    bad = Some(format!("clockfloor: after recovering {} (now={}) an automatic insert of key {} (indexed timestamp {}) is refused as older", image, now, hex(&rec.key), rec.timestamp));
                    break;
                }
            }
        }
        if let Some(b) = bad {
            let keep = format!("{}.clockfloor", image);
            let _ = std::fs::write(&keep, &bytes);
            RECOVER_ORACLE.lock().unwrap().push(b.replace(image, &keep));
        }
        drop(store);
    }
    feoxdb::verif::clock::unpin();
    let _ = std::fs::remove_file(&p);
}

fn sec_recover(s: &mut Sink, rng: &mut Rng, workloads: usize, mutations: usize) {
    let base = 1_700_000_000_000_000_000u64;
    for w in 0..workloads {
        let dupgen = DUPGEN_ONLY.load(std::sync::atomic::Ordering::Relaxed);
        let version = if dupgen { *rng.pick(&[3u32, 3, 2]) } else { *rng.pick(&[3u32, 3, 2, 1]) };
        let blocks = rng.range(20, 64);
        let ttl = dupgen || rng.chance(1, 2);
        let path = format!("{}/dev{}.feox", s.dir, w);
        new_device(&path, blocks, version);
        let now = base + rng.below(1_000_000_000);
        let steps = rng.range(1, 40);
        let wl = run_workload(rng, &path, blocks, version, ttl, now, steps);
        let _ = wl.keys;
        let pristine = std::fs::read(&path).unwrap();
        // the file as the store left it represents a tiling of its data area by exactly the store's index
        // (Fmt.repTiledB on the bytes, with the extents the store reported before it was dropped)
        if let Some(idx) = &wl.idx {
            let rp = format!("{}/dev{}_repfile.feox", s.dir, w);
            std::fs::write(&rp, &pristine).unwrap();
            let lives = if idx.is_empty() { "-".to_string() } else { idx.join(",") };
            s.emit(&format!("repfile-v{}", version), format!("repfile {} {} {}", rp, version, lives), format!("ok rt=1 n={} clean=1", idx.len()));
        }
        // a file the store wrote and closed in good order reopens, and to what the store held (judged without the
        // model; TTL off and the clock where it was, so that nothing expires in between)
        if let Some(fin) = &wl.fin {
            let cp = format!("{}/dev{}_cleanclose.feox", s.dir, w);
            std::fs::write(&cp, &pristine).unwrap();
            feoxdb::verif::clock::pin(now);
            let r = catch_unwind(AssertUnwindSafe(|| FeoxStore::builder().device_path(cp.clone()).hash_bits(6).enable_caching(false).enable_ttl(false).build()
                .map(|st| { let c = contents(&st); drop(st); c }).map_err(|e| err_name(&e).to_string())));
            feoxdb::verif::clock::unpin();
            *s.hist.entry("clean-close-reopen-compared".into()).or_insert(0) += 1;
            let strip = |l: &String| -> String { let t: Vec<&str> = l.split(':').collect(); if t.len() == 5 && t[4].starts_with('E') { t[..4].join(":") + ":?" } else { l.clone() } };
            let problem = match r {
                Err(_) => Some("the reopen panics".to_string()),
                Ok(Err(e)) => Some(format!("it does not reopen: {}", e)),
                Ok(Ok(got)) => {
                    // (an entry that was already past its expiry at close reads as an error on the TTL-enabled side only)
                    let a: Vec<String> = fin.iter().map(|l| { let t: Vec<&str> = l.split(':').collect(); if t.len() == 5 && t[4].starts_with('E') { t[..4].join(":") } else { l.clone() } }).collect();
                    let b: Vec<String> = got.iter().zip(fin.iter()).map(|(g, f)| if strip(f).ends_with(":?") { let t: Vec<&str> = g.split(':').collect(); t[..4.min(t.len())].join(":") } else { g.clone() }).collect();
                    if got.len() != fin.len() || a != b {
                        let k = a.iter().zip(b.iter()).position(|(x, y)| x != y).unwrap_or(a.len().min(b.len()));
                        Some(format!("it reopens to {} keys where the store held {} at close; first difference: held {:?}, reopened {:?}", got.len(), fin.len(), a.get(k), b.get(k)))
                    } else { None }
                }
            };
            if let Some(why) = problem {
                let keep = format!("{}/dev{}_cleanclose.image", s.dir, w);
                std::fs::write(&keep, &pristine).unwrap();
                RECOVER_ORACLE.lock().unwrap().push(format!("cleanclose: format v{} device {} written by the store (inserts, swaps, counters, TTL changes, deletes, flushes) and closed in good order: {}", version, keep, why));
            }
            let _ = std::fs::remove_file(&cp);
        }
        // 1. the flushed, cleanly closed file as it is (C10: independent reader)
        let later = now + *rng.pick(&[0u64, 2_000_000_000, 6_000_000_000, 2_000_000_000_000]);
        let ttl_open = ttl && version != 1 && (dupgen || rng.chance(3, 4));
        let (op, line) = recover_line(s, &path, false, ttl_open, later);
        let rt = rep_op(&op, &line, true);
        let post = format!("{}/dev{}_post.feox", s.dir, w);
        let rp = if std::fs::copy(&path, &post).is_ok() { rep_post_op(&post, &line, true) } else { None };
        s.emit(&format!("recover-clean-v{}", version), op, line);
        if let Some((o, l)) = rt { s.emit("reptiled-clean", o, l); }
        if let Some((o, l)) = rp { s.emit("repfile-after-recovery", o, l); }
        // 2. damaged variants (C17 + error branches of the model)
        for m in 0..mutations {
            let mut img = pristine.clone();
            let mut kinds = vec![];
            if rng.chance(1, 4) || DUPGEN_ONLY.load(std::sync::atomic::Ordering::Relaxed) {
                if rng.chance(1, 3) && dup_generation_below_multi(rng, &mut img, version, later) {
                    kinds.push("dup-generation");
                    *s.hist.entry("dup-generation-multiblock-loser-above".into()).or_insert(0) += 1;
                }
                if rng.chance(2, 3) && dup_generation_newer_multi_below(rng, &mut img, version) {
                    kinds.push("dup-generation");
                    *s.hist.entry("dup-generation-multiblock-winner-below".into()).or_insert(0) += 1;
                }
                if dup_generation(rng, &mut img, version, later) { kinds.push("dup-generation"); }
                if rng.chance(1, 3) && dup_generation(rng, &mut img, version, later) { kinds.push("dup-generation"); }
            }
            if kinds.is_empty() {
                for _ in 0..rng.range(1, 2) {
                    kinds.push(mutate_image(rng, &mut img, version));
                }
            }
            let mp = format!("{}/dev{}_m{}.feox", s.dir, w, m);
            std::fs::write(&mp, &img).unwrap();
            let keep = format!("{}.orig", mp);
            std::fs::write(&keep, &img).unwrap();
            let amb = rng.chance(1, 3);
            let (op, line) = recover_line(s, &mp, amb, ttl_open, later);
            // the driver must see the image as it was *before* the real open modified it
            let op = op.replace(&mp, &keep);
            if line.starts_with("ok") && kinds[0] == "dup-generation" {
                clock_floor_check(&keep, amb, ttl_open, later, &s.dir.clone());
                *s.hist.entry("clock-floor-checked".into()).or_insert(0) += 1;
            }
            let kind = if line.starts_with("ok") { format!("recover-mut-ok-{}", kinds[0]) } else { format!("recover-mut-{}-{}", line.replace(' ', "-"), kinds[0]) };
            let rt = rep_op(&op, &line, false);
            let post = format!("{}/dev{}_m{}_post.feox", s.dir, w, m);
            let rp = if std::fs::copy(&mp, &post).is_ok() { rep_post_op(&post, &line, false) } else { None };
            s.emit(&kind, op, line);
            if let Some((o, l)) = rt { s.emit("reptiled-mut", o, l); }
            if let Some((o, l)) = rp { s.emit("repfile-after-recovery", o, l); } else { let _ = std::fs::remove_file(&post); }
            let _ = std::fs::remove_file(&mp);
        }
        // the clean recover above read `path` after the store possibly modified it on open; the
        // driver gets the pre-open bytes
        std::fs::write(&path, &pristine).unwrap();
    }
    // larger files whose head is blank but which hold foreign content further in (the blank-device check must
    // look at the whole file before the store claims it): a wiped header over a payload, a payload at the very end,
    // a single non-zero byte somewhere
    for i in 0..(if DUPGEN_ONLY.load(std::sync::atomic::Ordering::Relaxed) { 0 } else { 2 }) {
        let blocks = rng.range(300, 800) as usize;
        let mut img = vec![0u8; blocks * BS];
        match rng.below(3) {
            0 => { let from = rng.range(257, blocks as u64 - 1) as usize * BS; let tail = rng.bytes(img.len() - from); img[from..].copy_from_slice(&tail); }
            1 => { let at = img.len() - 1 - rng.below(4096) as usize; img[at] = 0x5A; }
            _ => { let at = rng.range(1 << 20, img.len() as u64 - 1) as usize; img[at] = 1 + rng.below(255) as u8; }
        }
        let mp = format!("{}/blankhead{}.feox", s.dir, i);
        std::fs::write(&mp, &img).unwrap();
        let keep = format!("{}.orig", mp);
        std::fs::write(&keep, &img).unwrap();
        let (op, line) = recover_line(s, &mp, false, false, base);
        let op = op.replace(&mp, &keep);
        let after = std::fs::read(&mp).unwrap();
        let line = if after != img { format!("{} FILE-MODIFIED", line) } else { line };
        s.emit("recover-blank-head", op, line);
        let _ = std::fs::remove_file(&mp);
    }
    // random bytes / unrecognisable files / size errors
    for i in 0..(workloads / 2).max(2) {
        let blocks = rng.range(17, 40) as usize;
        let mut img = rng.bytes(blocks * BS);
        match rng.below(4) {
            0 => { for x in &mut img[..BS] { *x = 0; } for x in &mut img[7 * BS..8 * BS] { *x = 0; } }
            1 => { img.truncate(blocks * BS - 100); }
            2 => { img.truncate(16 * BS); }
            _ => {}
        }
        let mp = format!("{}/rnd{}.feox", s.dir, i);
        std::fs::write(&mp, &img).unwrap();
        let keep = format!("{}.orig", mp);
        std::fs::write(&keep, &img).unwrap();
        let (op, line) = recover_line(s, &mp, false, false, base);
        let op = op.replace(&mp, &keep);
        let after = std::fs::read(&mp).unwrap();
        let line = if line.starts_with("err") && after != img { format!("{} FILE-MODIFIED", line) } else { line };
        s.emit("recover-random", op, line);
    }
}

fn merr_name(e: &feoxdb::MigrationError) -> String {
    use feoxdb::MigrationError::*;
    match e {
        InvalidDestination(_) => "InvalidDestination".into(),
        DestinationExists(_) => "DestinationExists".into(),
        CurrentFormat(_) => "CurrentFormat".into(),
        KeyTooLarge { .. } => "KeyTooLarge".into(),
        DestinationTooLarge => "DestinationTooLarge".into(),
        SourceChanged => "SourceChanged".into(),
        DestinationChanged => "DestinationChanged".into(),
        VerificationFailed(_) => "VerificationFailed".into(),
        AmbiguousLegacyRecovery => "AmbiguousLegacyRecovery".into(),
        Io { .. } => "Io".into(),
        Store(e) => format!("Store:{}", err_name(e)),
    }
}

/// legacy (and a few current-format) images through the real `migrate`, with and without the
/// ambiguous-marker opt-in; the driver reads both files and compares what they hold
fn sec_migrate(s: &mut Sink, rng: &mut Rng, workloads: usize, oracle: &mut Vec<String>) {
    let base = 1_700_000_000_000_000_000u64;
    for w in 0..workloads {
        let version = *rng.pick(&[2u32, 2, 1, 1, 3]);
        let blocks = rng.range(20, 64);
        let ttl = rng.chance(1, 2);
        let path = format!("{}/mig{}.feox", s.dir, w);
        new_device(&path, blocks, version);
        let now = base + rng.below(1_000_000_000);
        let steps = rng.range(1, 40);
        let _ = run_workload(rng, &path, blocks, version, ttl, now, steps);
        let mut img = std::fs::read(&path).unwrap();
        let mut kind = "clean";
        let mut directed = false;
        if w % 3 == 2 && version != 3 {
            if let Some(d) = stale_behind_winner_device(rng, &path, version, now) { img = d; kind = "stale-one-block-generation-behind-its-larger-successor"; directed = true; }
        }
        if !directed && rng.chance(1, 2) {
            kind = mutate_image(rng, &mut img, version);
        }
        if !directed && rng.chance(1, 2) {
            // a source that a crash left with two generations of a key (between a replacement's commit and the old
            // extent's retirement), half of the time with equal timestamps: what the copy must hold is what a recovery
            // of the source exposes, not merely some generation of each key
            if dup_generation_newer_multi_below(rng, &mut img, version) { kind = "dup-generation-multiblock-winner-below"; *s.hist.entry("migrate-source-with-multiblock-winner-below".into()).or_insert(0) += 1; }
            FORCE_TIE.store(rng.chance(1, 2), std::sync::atomic::Ordering::Relaxed);
            if kind != "dup-generation-multiblock-winner-below" && dup_generation(rng, &mut img, version, now) {
                kind = if FORCE_TIE.load(std::sync::atomic::Ordering::Relaxed) { "dup-generation-tie" } else { "dup-generation" };
            }
            FORCE_TIE.store(false, std::sync::atomic::Ordering::Relaxed);
        }
        if !directed && rng.chance(1, 3) {
            // a crashed source: an ACTIVE intent journal (extents in allocation order, i.e. not sorted)
            // over some of the record extents and free blocks
            let scratch = format!("{}/mig{}_probe.feox", s.dir, w);
            std::fs::write(&scratch, &img).unwrap();
            let mut extents: Vec<(u64, usize)> = vec![];
            if let Ok(st) = FeoxStore::builder().device_path(scratch.clone()).hash_bits(6).enable_caching(false).build() {
                for r in st.verif_snapshot() {
                    let hdr = if version == 1 { 4 + 2 + 8 + 8 } else { 4 + 2 + 8 + 8 + 8 };
                    let n = (hdr + r.key.len() + r.value_len).div_ceil(BS);
                    if r.sector >= 16 { extents.push((r.sector, n)); }
                }
                for f in st.verif_free_runs() {
                    if f.1 >= 1 { extents.push((f.0, 1)); }
                }
                drop(st);
            }
            let _ = std::fs::remove_file(&scratch);
            if extents.len() >= 2 {
                // pick 2..4, put them in descending / shuffled order
                let k = (rng.range(2, 4) as usize).min(extents.len());
                for i in (1..extents.len()).rev() { let j = rng.below(i as u64 + 1) as usize; extents.swap(i, j); }
                let mut chosen: Vec<(u64, usize)> = extents[..k].to_vec();
                chosen.sort_by(|a, b| b.0.cmp(&a.0));
                if rng.chance(1, 3) { chosen.reverse(); }
                if let Ok(j) = fx::journal_encode_active(900 + rng.below(50), &chosen) {
                    let slot = rng.below(2) as usize;
                    let off = (1 + slot * 3) * BS;
                    for x in &mut img[off..off + 3 * BS] { *x = 0; }
                    let l = j.len().min(3 * BS);
                    img[off..off + l].copy_from_slice(&j[..l]);
                    kind = "active-journal";
                }
            }
        }
        if !directed && rng.chance(1, 4) {
            // an ambiguous legacy marker: tag only, everything else zero, in some data block
            let b = rng.range(16, blocks - 1) as usize;
            for x in &mut img[b * BS..(b + 1) * BS] { *x = 0; }
            img[b * BS..b * BS + 8].copy_from_slice(b"\0DELETED");
            kind = "ambiguous-marker";
        }
        let src = format!("{}/mig{}_src.feox", s.dir, w);
        std::fs::write(&src, &img).unwrap();
        for amb in [false, true] {
            if amb && kind != "ambiguous-marker" && rng.chance(2, 3) {
                continue;
            }
            let dst = format!("{}/mig{}_dst{}.feox", s.dir, w, amb as u8);
            let _ = std::fs::remove_file(&dst);
            let pre_existing = rng.chance(1, 10);
            if pre_existing {
                std::fs::write(&dst, b"precious").unwrap();
            }
            // sometimes the source is touched while the copy is under way: whatever migrate() answers, an error
            // must leave nothing at the destination
            let touched = !pre_existing && rng.chance(1, 6);
            if touched {
                let t = std::sync::Arc::new(Touch { path: src.clone(), armed: std::sync::atomic::AtomicBool::new(true) });
                feoxdb::verif::io::set_observer(Some(t));
                let r = catch_unwind(AssertUnwindSafe(|| {
                    feoxdb::migrate(feoxdb::MigrationOptions::new(src.clone(), dst.clone()).allow_ambiguous_legacy_recovery(amb))
                }));
                feoxdb::verif::io::set_observer(None);
                *s.hist.entry("migrate-source-touched-meanwhile".to_string()).or_insert(0) += 1;
                match &r {
                    Ok(Err(e)) if std::path::Path::new(&dst).exists() => oracle.push(format!("migrate {}: the source was touched during the copy, migrate() failed ({}) but left a file at the destination", src, merr_name(e))),
                    Err(_) => oracle.push(format!("migrate {}: panicked when the source was touched during the copy", src)),
                    _ => {}
                }
                for e in std::fs::read_dir(&s.dir).unwrap().flatten() {
                    let n = e.file_name().to_string_lossy().to_string();
                    if n.contains(".feox-migrate-") {
                        oracle.push(format!("migrate {}: temporary file {} left behind", src, n));
                        let _ = std::fs::remove_file(e.path());
                    }
                }
                let _ = std::fs::remove_file(&dst);
                // (the mtime moved: restore the bytes' file for the next variant)
                std::fs::write(&src, &img).unwrap();
                continue;
            }
            // sometimes a foreign file appears at the destination while the migration is under way
            let appears = !pre_existing && rng.chance(1, 6);
            if appears {
                let ap = std::sync::Arc::new(Appear { path: dst.clone(), armed: std::sync::atomic::AtomicBool::new(true) });
                feoxdb::verif::io::set_observer(Some(ap));
            }
            let r = catch_unwind(AssertUnwindSafe(|| {
                feoxdb::migrate(feoxdb::MigrationOptions::new(src.clone(), dst.clone()).allow_ambiguous_legacy_recovery(amb))
            }));
            if appears {
                feoxdb::verif::io::set_observer(None);
                *s.hist.entry("migrate-destination-appears-meanwhile".to_string()).or_insert(0) += 1;
                let foreign_there = std::fs::read(&dst).map(|b| b == b"foreign file, not ours").unwrap_or(false);
                let appeared = std::path::Path::new(&dst).exists() && (foreign_there || matches!(r, Ok(Ok(_))));
                if appeared {
                    match &r {
                        Ok(Ok(_)) => oracle.push(format!("migrate {}: a foreign file that appeared at the destination during the migration was replaced and migrate() returned Ok", src)),
                        Ok(Err(_)) if !foreign_there => oracle.push(format!("migrate {}: a foreign file that appeared at the destination during the migration was modified or removed", src)),
                        _ => {}
                    }
                }
                for e in std::fs::read_dir(&s.dir).unwrap().flatten() {
                    let n = e.file_name().to_string_lossy().to_string();
                    if n.contains(".feox-migrate-") {
                        oracle.push(format!("migrate {}: temporary file {} left behind", src, n));
                        let _ = std::fs::remove_file(e.path());
                    }
                }
                let _ = std::fs::remove_file(&dst);
                continue;
            }
            if std::fs::read(&src).unwrap() != img {
                oracle.push(format!("migrate {}: the source file's bytes changed", src));
            }
            // no temporary file may be left behind
            for e in std::fs::read_dir(&s.dir).unwrap().flatten() {
                let n = e.file_name().to_string_lossy().to_string();
                if n.contains(".feox-migrate-") {
                    oracle.push(format!("migrate {}: temporary file {} left behind", src, n));
                    let _ = std::fs::remove_file(e.path());
                }
            }
            let line = match r {
                Err(_) => "panic migrate".to_string(),
                Ok(Err(e)) => {
                    if pre_existing {
                        if std::fs::read(&dst).unwrap() != b"precious" {
                            oracle.push(format!("migrate {}: an existing destination was modified", src));
                        }
                    } else if std::path::Path::new(&dst).exists() {
                        oracle.push(format!("migrate {}: failed ({}) but left a file at the destination", src, merr_name(&e)));
                    }
                    format!("err {} srcio=0", merr_name(&e))
                }
                Ok(Ok(rep)) => {
                    if pre_existing {
                        oracle.push(format!("migrate {}: overwrote an existing destination", src));
                    }
                    // faithful copy, judged without the model: an ordinary (read-write, TTL off) recovery of a COPY of the
                    // source and an ordinary open of a copy of the destination expose the same keys, values, timestamps, expiries
                    {
                        let sc = format!("{}/mig{}_srccopy.feox", s.dir, w);
                        let dc = format!("{}/mig{}_dstcopy.feox", s.dir, w);
                        std::fs::write(&sc, &img).unwrap();
                        let _ = std::fs::copy(&dst, &dc);
                        let open_r = |p: &str| catch_unwind(AssertUnwindSafe(|| FeoxStore::builder().device_path(p.to_string()).hash_bits(6).enable_caching(false).enable_ttl(false)
                            .allow_ambiguous_legacy_recovery(amb).build().map(|st| { let c = contents(&st); drop(st); c }).map_err(|e| err_name(&e).to_string())));
                        let (ra, rb) = (open_r(&sc), open_r(&dc));
                        if let Ok(Err(e)) = &ra {
                            // a source that an ordinary open refuses cannot have been copied faithfully
                            let keep = format!("{}/mig{}_src.image", s.dir, w);
                            std::fs::write(&keep, &img).unwrap();
                            oracle.push(format!("migrate {} (amb={}): migrate() = Ok ({} records) although an ordinary recovery of a copy of the source fails with {}", keep, amb as u8, rep.records, e));
                        }
                        if let Ok(Err(e)) = &rb {
                            oracle.push(format!("migrate {} (amb={}): migrate() = Ok but the destination does not open ({})", src, amb as u8, e));
                        }
                        if let (Ok(Ok(a)), Ok(Ok(b))) = (ra, rb) {
                            *s.hist.entry("migrate-oracle-compared".into()).or_insert(0) += 1;
                            if a != b {
                                let only_src: Vec<&String> = a.iter().filter(|x| !b.contains(x)).take(3).collect();
                                let only_dst: Vec<&String> = b.iter().filter(|x| !a.contains(x)).take(3).collect();
                                let keep = format!("{}/mig{}_src.image", s.dir, w);
                                std::fs::write(&keep, &img).unwrap();
                                oracle.push(format!("migrate {} (amb={}): migrate() = Ok ({} records) but the destination is not a faithful copy: a recovery of the source holds {} keys, the destination {}; only in the source: {:?}; only in the destination: {:?}",
                                    keep, amb as u8, rep.records, a.len(), b.len(), only_src, only_dst));
                            }
                        }
                        let _ = std::fs::remove_file(&sc);
                        let _ = std::fs::remove_file(&dc);
                    }
                    format!("ok records={} v={} dsize={} amb={} srcio=0 same=1 dv={} dsz={}", rep.records, rep.source_version,
                        rep.destination_size, rep.ambiguous_legacy_markers, rep.destination_version, std::fs::metadata(&dst).map(|m| m.len()).unwrap_or(0))
                }
            };
            if pre_existing {
                // the model has no notion of the destination path: this case is oracle-only
                let _ = std::fs::remove_file(&dst);
                continue;
            }
            let dst_arg = if line.starts_with("ok") { dst.clone() } else { "-".to_string() };
            s.emit(&format!("migrate-v{}-{}-{}", version, kind, line.split(' ').take(2).collect::<Vec<_>>().join("-")),
                format!("migrate {} {} {} {}", src, amb as u8, s.recsize, dst_arg), line);
        }
    }
}

fn kv(extra: &[String], key: &str, default: usize) -> usize {
    for e in extra {
        if let Some(v) = e.strip_prefix(&format!("{}=", key)) {
            return v.parse().unwrap();
        }
    }
    default
}

fn kvs(extra: &[String], key: &str) -> Option<String> {
    for e in extra {
        if let Some(v) = e.strip_prefix(&format!("{}=", key)) {
            return Some(v.to_string());
        }
    }
    None
}

/// contents of an opened store as `key:ts:exp:vlen:fnv(value)` lines (sorted by key)
fn contents(store: &FeoxStore) -> Vec<String> {
    store
        .verif_snapshot()
        .iter()
        .map(|r| {
            let v = store.get(&r.key).map(|v| fnv(&v).to_string()).unwrap_or_else(|e| format!("E{}", err_name(&e)));
            format!("{}:{}:{}:{}:{}", hex(&r.key), r.timestamp, r.ttl_expiry, r.value_len, v)
        })
        .collect()
}

/// produce the golden corpus with the tree this harness was built against (run once on the
/// pinned tree; the files are committed under /verif/golden)
fn golden_make(dir: &str) {
    std::fs::create_dir_all(dir).unwrap();
    let base = 1_700_000_000_000_000_000u64;
    let mut i = 0;
    for version in [3u32, 3, 2, 2, 1, 1] {
        i += 1;
        let mut rng = Rng::new(7000 + i);
        let name = format!("golden_v{}_{}", version, i);
        let path = format!("{}/{}.feox", dir, name);
        let blocks = 24 + (i as u64) * 4;
        new_device(&path, blocks, version);
        let _ = run_workload(&mut rng, &path, blocks, version, version != 1, base, 30 + i as u64 * 3);
        // a second session: updates, deletes, reuse after reopen
        let _ = run_workload(&mut rng, &path, blocks, version, version != 1, base + 1_000_000, 20);
        feoxdb::verif::clock::pin(base + 2_000_000);
        let store = FeoxStore::builder().device_path(path.clone()).hash_bits(6).enable_ttl(false).build().unwrap();
        let lines = contents(&store);
        drop(store);
        feoxdb::verif::clock::unpin();
        // the session above rewrote the metadata; keep the file exactly as the store left it
        std::fs::write(format!("{}/{}.contents", dir, name), lines.join("\n") + "\n").unwrap();
        println!("{} blocks={} records={}", name, blocks, lines.len());
    }
}

fn sec_golden(s: &mut Sink, dir: &str, oracle: &mut Vec<String>) {
    let mut names: Vec<String> = std::fs::read_dir(dir)
        .map(|d| d.filter_map(|e| e.ok()).map(|e| e.file_name().to_string_lossy().to_string()).filter(|n| n.ends_with(".feox")).collect())
        .unwrap_or_default();
    names.sort();
    let base = 1_700_000_000_000_000_000u64;
    for n in names {
        let src = format!("{}/{}", dir, n);
        let want: Vec<String> = std::fs::read_to_string(src.replace(".feox", ".contents")).unwrap_or_default().lines().map(|l| l.to_string()).collect();
        let version: u32 = n.split("_v").nth(1).and_then(|x| x[..1].parse().ok()).unwrap_or(3);
        let work = format!("{}/{}", s.dir, n);
        std::fs::copy(&src, &work).unwrap();
        let keep = format!("{}.orig", work);
        std::fs::copy(&src, &keep).unwrap();
        // 1. opens and reads back (implementation-only oracle: the recorded contents)
        feoxdb::verif::clock::pin(base + 3_000_000);
        match FeoxStore::builder().device_path(work.clone()).hash_bits(6).enable_ttl(false).build() {
            Ok(store) => {
                let got = contents(&store);
                if got != want {
                    oracle.push(format!("golden {}: contents differ from the released format's (want {} records, got {})", n, want.len(), got.len()));
                }
                if store.verif_format_version() != version {
                    oracle.push(format!("golden {}: format version {} opened as {}", n, version, store.verif_format_version()));
                }
                // 2. write to it: the file must keep its own record format
                let _ = store.insert(b"golden-added-key", &vec![0x5Au8; 5000]);
                let _ = store.flush();
                drop(store);
            }
            Err(e) => oracle.push(format!("golden {}: does not open: {}", n, err_name(&e))),
        }
        feoxdb::verif::clock::unpin();
        // model reads the released file
        let (op, line) = recover_line(s, &keep.clone(), false, false, base + 4_000_000);
        // `recover_line` opened `keep` itself (clean image: no repair writes); restore it for the driver
        std::fs::copy(&src, &keep).unwrap();
        s.emit(&format!("golden-read-v{}", version), op, line);
        // model reads the file after the current code wrote to it
        let after = format!("{}.after", work);
        std::fs::copy(&work, &after).unwrap();
        let (op, line) = recover_line(s, &work, false, false, base + 5_000_000);
        let op = op.replace(&work, &after);
        if !line.contains(&hex(b"golden-added-key")) {
            oracle.push(format!("golden {}: key written by the current code is not found after reopen", n));
        }
        s.emit(&format!("golden-written-v{}", version), op, line);
    }
}

fn main() {
    // a runaway allocation inside an open must kill this process, not the machine
    unsafe {
        let lim = libc::rlimit { rlim_cur: 8 << 30, rlim_max: 8 << 30 };
        libc::setrlimit(libc::RLIMIT_AS, &lim);
    }
    let args = parse_args();
    if let Some(dir) = kvs(&args.extra, "golden-make") {
        golden_make(&dir);
        return;
    }
    std::fs::create_dir_all(&args.out).unwrap();
    let open = |n: &str| std::io::BufWriter::new(std::fs::File::create(format!("{}/{}", args.out, n)).unwrap());
    let mut s = Sink { ops: open("fmt.ops"), imp: open("fmt.impl"), hist: BTreeMap::new(), lines: 0, dir: args.out.clone(), blob: 0, recsize: fx::record_struct_size() };
    let mut rng = Rng::new(args.seed);
    let sections: Vec<String> = args.extra.iter().filter(|x| !x.contains('=')).cloned().collect();
    let sections = if sections.is_empty() { vec!["codec".to_string(), "recover".to_string()] } else { sections };
    // a panic inside the store must not kill the harness silently
    std::panic::set_hook(Box::new(|_| {}));
    feoxdb::verif::io::disable_ring(true);
    feoxdb::verif::proto::fast_shutdown(true);
    let k = kv(&args.extra, "scale", if args.thorough { 20 } else { 1 });
    let mut oracle: Vec<String> = vec![];
    if sections.iter().any(|x| x == "codec") {
        sec_crc(&mut s, &mut rng, 200 * k);
        sec_tokens(&mut s, &mut rng, 200 * k, 3);
        sec_heads(&mut s, &mut rng, 150 * k);
        sec_markers(&mut s, &mut rng, 60 * k);
        sec_journal(&mut s, &mut rng, 60 * k);
        sec_meta(&mut s, &mut rng, 60 * k);
    }
    if sections.iter().any(|x| x == "golden") {
        let dir = kvs(&args.extra, "golden").unwrap_or_else(|| "/verif/golden".to_string());
        sec_golden(&mut s, &dir, &mut oracle);
    }
    if sections.iter().any(|x| x == "migrate") {
        let w = kv(&args.extra, "workloads", 30 * k);
        sec_migrate(&mut s, &mut rng, w, &mut oracle);
    }
    if sections.iter().any(|x| x == "dupgen") {
        DUPGEN_ONLY.store(true, std::sync::atomic::Ordering::Relaxed);
        let w = kv(&args.extra, "workloads", 30 * k);
        let m = kv(&args.extra, "mutations", 12);
        sec_recover(&mut s, &mut rng, w, m);
        DUPGEN_ONLY.store(false, std::sync::atomic::Ordering::Relaxed);
    }
    if sections.iter().any(|x| x == "reccut") {
        let w = kv(&args.extra, "workloads", 30 * k);
        let m = kv(&args.extra, "mutations", 8);
        sec_reccut(&mut s, &mut rng, w, m, &mut oracle);
        let big = kv(&args.extra, "big", 0);
        if big > 0 { sec_reccut_big(&mut s, &mut rng, big as u64, &mut oracle); }
    }
    if sections.iter().any(|x| x == "recover") {
        let w = kv(&args.extra, "workloads", 30 * k);
        let m = kv(&args.extra, "mutations", 12);
        sec_recover(&mut s, &mut rng, w, m);
    }
    s.ops.flush().unwrap();
    s.imp.flush().unwrap();
    oracle.extend(RECOVER_ORACLE.lock().unwrap().drain(..));
    std::fs::write(format!("{}/fmt.oracle", args.out), oracle.iter().map(|l| format!("{}\n", l)).collect::<String>()).unwrap();
    let hist: Vec<String> = s.hist.iter().map(|(k, v)| format!("\"{}\": {}", k, v)).collect();
    let meta = format!("{{\"engine\": \"fmt\", \"seed\": {}, \"lines\": {}, \"recsize\": {}, \"kinds\": {{{}}}}}\n", args.seed, s.lines, s.recsize, hist.join(", "));
    std::fs::write(format!("{}/fmt.meta.json", args.out), meta).unwrap();
}
