//! Correspondence harness for the read cache (C16): drives the real `ClockCache` with small
//! watermarks, untagged and record-tagged entries, and writes `cache.ops` / `cache.impl`.
use bytes::Bytes;
use feox_verif_harness::*;
use feoxdb::core::cache::ClockCache;
use feoxdb::core::record::Record;
use feoxdb::stats::Statistics;
use std::collections::BTreeMap;
use std::io::Write;
use std::sync::atomic::Ordering;
use std::sync::Arc;

struct Sink {
    ops: std::io::BufWriter<std::fs::File>,
    imp: std::io::BufWriter<std::fs::File>,
    hist: BTreeMap<String, u64>,
    lines: u64,
    cases: u64,
    oracle: Vec<String>,
}

impl Sink {
    fn emit(&mut self, kind: &str, op: String, res: String) {
        writeln!(self.ops, "cache {}", op).unwrap();
        writeln!(self.imp, "{}", res).unwrap();
        *self.hist.entry(kind.to_string()).or_insert(0) += 1;
        self.lines += 1;
    }
}

fn fnv(b: &[u8]) -> u64 {
    let mut h: u64 = 14695981039346656037;
    for x in b {
        h = (h ^ (*x as u64)).wrapping_mul(1099511628211);
    }
    h
}

struct GenRec {
    rec: Option<Arc<Record>>,
    ts: u64,
}

struct Sut {
    cache: ClockCache,
    stats: Arc<Statistics>,
    gens: Vec<GenRec>,
    /// reference: what an explicit remove leaves behind
    removed: std::collections::HashSet<Vec<u8>>,
}

impl Sut {
    fn tail(&self) -> String {
        format!(" | mem={}", self.stats.cache_memory.load(Ordering::Relaxed))
    }
}

fn g(o: Option<usize>) -> String {
    o.map(|x| x.to_string()).unwrap_or_else(|| "-".into())
}

fn emit_gen(s: &mut Sink, sut: &Sut, id: usize) {
    let gr = &sut.gens[id];
    let (cur, alive) = match &gr.rec {
        Some(r) => (r.refcount.load(Ordering::Acquire) != 0, true),
        None => (false, false),
    };
    s.emit("gen", format!("gen {} ts={} current={} alive={}", id, gr.ts, cur as u8, alive as u8), format!("ok{}", sut.tail()));
}

fn check_accounting(s: &mut Sink, sut: &Sut) {
    let total: usize = sut.cache.verif_entries().iter().map(|e| e.4).sum();
    let mem = sut.stats.cache_memory.load(Ordering::Relaxed);
    if total != mem {
        s.oracle.push(format!("case={} line={} reported cache memory {} != total size of held entries {}", s.cases, s.lines, mem, total));
    }
}

fn run_case(rng: &mut Rng, s: &mut Sink, len: u64) {
    s.cases += 1;
    let stats = Arc::new(Statistics::new());
    let mut sut = Sut { cache: ClockCache::new(stats.clone()), stats, gens: vec![], removed: Default::default() };
    let over = ClockCache::verif_entry_overhead();
    s.emit("new", format!("new over={}", over), format!("ok{}", sut.tail()));
    // small watermarks so eviction is reachable
    let (h, l) = *rng.pick(&[(1usize, 0usize), (2, 1), (3, 1), (2, 0)]);
    sut.cache.adjust_watermarks(h, l);
    let st = sut.cache.stats();
    s.emit("adjust", format!("adjust {} {}", h, l), format!("ok high={} low={}{}", st.high_watermark, st.low_watermark, sut.tail()));
    let nkeys = rng.range(3, 40);
    let mut keys: Vec<Vec<u8>> = (0..nkeys).map(|i| { let n = rng.below(9) as usize + 1; let mut k = rng.bytes(n); k.push(i as u8); k }).collect();
    // in half of the cases the keys share a few buckets (the sweep walks a bucket while it removes from it)
    if rng.chance(1, 2) {
        let nb = rng.range(1, 4);
        let targets: Vec<usize> = (0..nb).map(|_| rng.below(feoxdb::constants::CACHE_BUCKETS as u64) as usize).collect();
        for (i, k) in keys.iter_mut().enumerate() {
            let want = targets[i % targets.len()];
            let base = k.clone();
            let mut n = 0u32;
            loop {
                let mut cand = base.clone();
                cand.extend_from_slice(&n.to_le_bytes());
                if feoxdb::utils::hash::murmur3_32(&cand, 0) as usize % feoxdb::constants::CACHE_BUCKETS == want { *k = cand; break; }
                n += 1;
            }
        }
        *s.hist.entry("case-with-shared-buckets".into()).or_insert(0) += 1;
    }
    for _ in 0..len {
        let k = rng.pick(&keys).clone();
        match rng.below(100) {
            0..=39 => {
                // insert, untagged or tagged with a (new or existing) generation
                let n = match rng.below(6) { 0 => rng.range(1, 200), 1 => rng.range(200_000, 300_000), 2 => rng.range(500_000, 800_000), _ => rng.range(20_000, 120_000) } as usize;
                let b = rng.next() as u8;
                let tag = match rng.below(4) {
                    0 => None,
                    1 if !sut.gens.is_empty() => Some(rng.below(sut.gens.len() as u64) as usize),
                    _ => {
                        let ts = rng.range(1, 1000);
                        let rec = Arc::new(Record::new(k.clone(), vec![1], ts));
                        sut.gens.push(GenRec { rec: Some(rec), ts });
                        let id = sut.gens.len() - 1;
                        emit_gen(s, &sut, id);
                        Some(id)
                    }
                };
                let value = Bytes::from(vec![b; n]);
                match tag {
                    Some(id) if sut.gens[id].rec.is_some() => {
                        let rec = sut.gens[id].rec.clone().unwrap();
                        sut.cache.verif_insert_for_record(k.clone(), value, &rec);
                        s.emit("ins-tagged", format!("ins {} {} {} {}", hex(&k), n, b, id), format!("ok{}", sut.tail()));
                    }
                    _ => {
                        sut.cache.insert(k.clone(), value);
                        s.emit("ins", format!("ins {} {} {} -", hex(&k), n, b), format!("ok{}", sut.tail()));
                    }
                }
                sut.removed.remove(&k);
            }
            40..=64 => {
                let tag = if !sut.gens.is_empty() && rng.chance(1, 2) { Some(rng.below(sut.gens.len() as u64) as usize) } else { None };
                let r = match tag {
                    Some(id) if sut.gens[id].rec.is_some() => sut.cache.verif_get_for_record(&k, sut.gens[id].rec.as_ref().unwrap()),
                    Some(_) => continue,
                    None => sut.cache.get(&k),
                };
                if r.is_some() && sut.removed.contains(&k) {
                    s.oracle.push(format!("case={} line={} hit on {} after an explicit remove", s.cases, s.lines, hex(&k)));
                }
                let res = match &r { Some(v) => format!("hit {}:{}", v.len(), fnv(v)), None => "miss".into() };
                s.emit(if r.is_some() { "get-hit" } else { "get-miss" }, format!("get {} {}", hex(&k), g(tag)), res + &sut.tail());
            }
            65..=74 => {
                let tag = if !sut.gens.is_empty() && rng.chance(1, 2) { Some(rng.below(sut.gens.len() as u64) as usize) } else { None };
                match tag {
                    Some(id) if sut.gens[id].rec.is_some() => sut.cache.verif_remove_for_record(&k, sut.gens[id].rec.as_ref().unwrap()),
                    Some(_) => continue,
                    None => { sut.cache.remove(&k); sut.removed.insert(k.clone()); }
                }
                s.emit("rm", format!("rm {} {}", hex(&k), g(tag)), format!("ok{}", sut.tail()));
            }
            75..=79 => {
                let before: Vec<(Vec<u8>, usize)> = sut.cache.verif_entries().iter().map(|e| (e.1.clone(), e.4)).collect();
                sut.cache.evict_entries();
                s.emit("evict", "evict".into(), format!("ok{}", sut.tail()));
                let st = sut.cache.stats();
                let mem = sut.stats.cache_memory.load(Ordering::Relaxed);
                if mem > st.low_watermark {
                    s.oracle.push(format!("case={} line={} eviction left usage {} above the low watermark {}", s.cases, s.lines, mem, st.low_watermark));
                }
                // the sweep stops as soon as usage is at or below the low watermark: the entry evicted last was needed,
                // so at least one evicted entry would lift usage above the watermark again
                let after: std::collections::HashSet<Vec<u8>> = sut.cache.verif_entries().iter().map(|e| e.1.clone()).collect();
                let evicted: Vec<&(Vec<u8>, usize)> = before.iter().filter(|e| !after.contains(&e.0)).collect();
                if !evicted.is_empty() && evicted.iter().all(|e| mem + e.1 <= st.low_watermark) {
                    s.oracle.push(format!("case={} line={} the sweep evicted more than it needed: usage {} is so far below the low watermark {} that any one of the {} evicted entries (largest {} bytes) could have stayed", s.cases, s.lines, mem, st.low_watermark, evicted.len(), evicted.iter().map(|e| e.1).max().unwrap_or(0)));
                }
            }
            80..=81 => {
                sut.cache.clear();
                s.emit("clear", "clear".into(), format!("ok{}", sut.tail()));
            }
            82..=85 => {
                let (h, l) = *rng.pick(&[(1usize, 0usize), (2, 1), (3, 2), (1, 1), (0, 0), (2000, 1), (4, 1)]);
                sut.cache.adjust_watermarks(h, l);
                let st = sut.cache.stats();
                s.emit("adjust", format!("adjust {} {}", h, l), format!("ok high={} low={}{}", st.high_watermark, st.low_watermark, sut.tail()));
            }
            86..=93 if !sut.gens.is_empty() => {
                // generation life cycle: retire (refcount 0) or drop (Weak no longer upgrades)
                let id = rng.below(sut.gens.len() as u64) as usize;
                if rng.chance(1, 2) {
                    if let Some(r) = &sut.gens[id].rec { r.refcount.store(0, Ordering::Release); }
                } else {
                    sut.gens[id].rec = None;
                }
                emit_gen(s, &sut, id);
            }
            _ => {
                let es = sut.cache.verif_entries();
                let body: Vec<String> = es.iter().map(|e| format!("{}:{}:{}:{}:{}", e.0, hex(&e.1), e.2 as u8, e.3 as u8, e.4)).collect();
                let ev = sut.stats.snapshot().cache_evictions;
                s.emit("dump", "dump".into(), format!("ev={} [{}]{}", ev, body.join(","), sut.tail()));
            }
        }
        check_accounting(s, &sut);
    }
    let es = sut.cache.verif_entries();
    let body: Vec<String> = es.iter().map(|e| format!("{}:{}:{}:{}:{}", e.0, hex(&e.1), e.2 as u8, e.3 as u8, e.4)).collect();
    let ev = sut.stats.snapshot().cache_evictions;
    s.emit("dump", "dump".into(), format!("ev={} [{}]{}", ev, body.join(","), sut.tail()));
}

/// free-running: several threads fill (and refresh, remove, read) the same few keys of one real `ClockCache` at
/// once, as concurrent gets of one offloaded key do.  Judged at quiescence without the model: at most one entry
/// per key, reported memory = total size of the held entries, and an explicit remove is not followed by a hit.
fn fill_race(rng: &mut Rng, s: &mut Sink, idx: u64) {
    let stats = Arc::new(Statistics::new());
    let cache = Arc::new(ClockCache::new(stats.clone()));
    let nkeys = rng.range(1, 6);
    let keys: Arc<Vec<Vec<u8>>> = Arc::new((0..nkeys).map(|i| format!("fr{}-{}", idx, i).into_bytes()).collect());
    let recs: Arc<Vec<Arc<Record>>> = Arc::new(keys.iter().map(|k| Arc::new(Record::new(k.clone(), vec![1], 7))).collect());
    let tagged = rng.chance(1, 2);
    let rounds = rng.range(200, 2000);
    let nthreads = rng.range(2, 6);
    let barrier = Arc::new(std::sync::Barrier::new(nthreads as usize));
    let mut hs = vec![];
    for t in 0..nthreads {
        let (cache, keys, recs, barrier) = (cache.clone(), keys.clone(), recs.clone(), barrier.clone());
        let mut r = Rng::new(rng.next() ^ t);
        hs.push(std::thread::spawn(move || {
            barrier.wait();
            for _ in 0..rounds {
                let i = r.below(keys.len() as u64) as usize;
                let v = Bytes::from(vec![i as u8; 64 + 16 * i]);
                match r.below(10) {
                    0 => { if tagged { cache.verif_remove_for_record(&keys[i], &recs[i]); } else { cache.remove(&keys[i]); } }
                    1 | 2 => { if tagged { let _ = cache.verif_get_for_record(&keys[i], &recs[i]); } else { let _ = cache.get(&keys[i]); } }
                    _ => { if tagged { cache.verif_insert_for_record(keys[i].clone(), v, &recs[i]); } else { cache.insert(keys[i].clone(), v); } }
                }
            }
        }));
    }
    for h in hs { let _ = h.join(); }
    *s.hist.entry("fill-race".into()).or_insert(0) += 1;
    let es = cache.verif_entries();
    let mut seen = std::collections::HashMap::new();
    for e in &es { *seen.entry(e.1.clone()).or_insert(0usize) += 1; }
    if let Some((k, n)) = seen.iter().find(|(_, n)| **n > 1) {
        s.oracle.push(format!("fillrace={} after {} threads filled {} keys concurrently ({}) the cache holds {} entries for key {}", idx, nthreads, nkeys, if tagged { "tagged with the key's generation" } else { "untagged" }, n, String::from_utf8_lossy(k)));
    }
    let total: usize = es.iter().map(|e| e.4).sum();
    let mem = stats.cache_memory.load(Ordering::Relaxed);
    if total != mem {
        s.oracle.push(format!("fillrace={} after concurrent fills reported cache memory {} != total size of held entries {}", idx, mem, total));
    }
    for (i, k) in keys.iter().enumerate() {
        if tagged { cache.verif_remove_for_record(k, &recs[i]); } else { cache.remove(k); }
        let hit = if tagged { cache.verif_get_for_record(k, &recs[i]).is_some() } else { cache.get(k).is_some() };
        if hit {
            s.oracle.push(format!("fillrace={} hit on {} right after an explicit remove (single-threaded, after {} threads had filled the key concurrently)", idx, String::from_utf8_lossy(k), nthreads));
            break;
        }
    }
    let left = stats.cache_memory.load(Ordering::Relaxed);
    if left != 0 && cache.verif_entries().is_empty() {
        s.oracle.push(format!("fillrace={} every key removed, no entry held, but reported cache memory is {}", idx, left));
    }
}

fn main() {
    let args = parse_args();
    std::fs::create_dir_all(&args.out).unwrap();
    let open = |n: &str| std::io::BufWriter::new(std::fs::File::create(format!("{}/{}", args.out, n)).unwrap());
    let mut s = Sink { ops: open("cache.ops"), imp: open("cache.impl"), hist: BTreeMap::new(), lines: 0, cases: 0, oracle: vec![] };
    let mut rng = Rng::new(args.seed);
    // murmur3 spot checks
    for _ in 0..200 {
        let n = rng.below(40) as usize;
        let k = rng.bytes(n);
        s.emit("murmur", format!("murmur {}", hex(&k)), format!("ok {}", feoxdb::utils::hash::murmur3_32(&k, 0)));
    }
    let cases: u64 = args.extra.iter().find_map(|e| e.strip_prefix("cases=").map(|v| v.parse().unwrap())).unwrap_or(if args.thorough { 300 } else { 25 });
    for _ in 0..cases {
        let len = rng.range(10, 250);
        run_case(&mut rng, &mut s, len);
    }
    let races: u64 = args.extra.iter().find_map(|e| e.strip_prefix("fillraces=").map(|v| v.parse().unwrap())).unwrap_or(if args.thorough { 400 } else { 40 });
    for i in 0..races {
        fill_race(&mut rng, &mut s, i);
    }
    s.ops.flush().unwrap();
    s.imp.flush().unwrap();
    std::fs::write(format!("{}/cache.oracle", args.out), s.oracle.iter().map(|l| format!("{}\n", l)).collect::<String>()).unwrap();
    let hist: Vec<String> = s.hist.iter().map(|(k, v)| format!("\"{}\": {}", k, v)).collect();
    std::fs::write(format!("{}/cache.meta.json", args.out), format!("{{\"engine\": \"cache\", \"seed\": {}, \"lines\": {}, \"cases\": {}, \"oracle_failures\": {}, \"ops\": {{{}}}}}\n", args.seed, s.lines, s.cases, s.oracle.len(), hist.join(", "))).unwrap();
}
