//! conc — schedule-controlled runs of the real store against the Lean `Conc` system (C07, C18).
//!
//! 2–4 worker threads execute short programs on a shared key set.  A controller (installed
//! through `feoxdb::verif::sched`) parks every worker at each scheduling point; the main thread
//! picks which worker goes on, one at a time, so the interleaving is exactly the sequence of
//! choices.  Every choice is written as a `conc call …` / `conc run …` line for the Lean driver
//! and the worker's answer (`at` = parked at the next point, `ret <response>` = the call
//! returned) as the implementation's answer.  Every wait is under a watchdog.
use feoxdb::{FeoxError, FeoxStore};
use feox_verif_harness::*;
use std::cell::Cell;
use std::collections::BTreeMap;
use std::io::Write;
use std::sync::{Arc, Condvar, Mutex};
use std::time::{Duration, Instant};

const WALL: u64 = 1_000_000;
const BS: u64 = 4096;
const WATCHDOG: Duration = Duration::from_secs(20);

#[derive(Clone, Copy, Debug, PartialEq)]
enum Kind {
    Raw,
    Num,
    Json,
}

#[derive(Clone, Copy, Debug, PartialEq)]
struct Val {
    kind: Kind,
    n: i64,
}

impl Val {
    fn encode(&self) -> Vec<u8> {
        match self.kind {
            Kind::Raw => format!("raw:{:+07}", self.n).into_bytes(),
            Kind::Num => self.n.to_le_bytes().to_vec(),
            Kind::Json => format!("{{\"num\":{}}}", self.n).into_bytes(),
        }
    }
    fn text(&self) -> String {
        format!("{} {}", match self.kind { Kind::Raw => "raw", Kind::Num => "num", Kind::Json => "json" }, self.n)
    }
}

fn decode(b: &[u8]) -> String {
    if b.len() == 8 {
        return format!("num {}", i64::from_le_bytes(b.try_into().unwrap()));
    }
    let s = String::from_utf8_lossy(b);
    if let Some(r) = s.strip_prefix("raw:") {
        if let Ok(n) = r.parse::<i64>() {
            return format!("raw {}", n);
        }
    }
    if let Some(i) = s.find("\"num\":") {
        let d: String = s[i + 6..].chars().take_while(|c| c.is_ascii_digit() || *c == '-').collect();
        if let Ok(n) = d.parse::<i64>() {
            return format!("json {}", n);
        }
    }
    format!("unknown {}", hex(b))
}

#[derive(Clone, Debug)]
enum Op {
    Ins { v: Val, ts: Option<u64>, bytes: bool },
    Del { ts: Option<u64> },
    Get { bytes: bool },
    Cas { exp: Val, new: Val, ts: Option<u64> },
    Incr { d: i64, ts: Option<u64> },
    IfAbs { v: Val },
    Patch { c: i64, ts: Option<u64> },
}

fn ts_text(ts: &Option<u64>) -> String {
    ts.map(|t| t.to_string()).unwrap_or("-".into())
}

impl Op {
    fn line(&self) -> String {
        match self {
            Op::Ins { v, ts, .. } => format!("ins {} {}", v.text(), ts_text(ts)),
            Op::Del { ts } => format!("del {}", ts_text(ts)),
            Op::Get { .. } => "get".into(),
            Op::Cas { exp, new, ts } => format!("cas {} {} {}", exp.text(), new.text(), ts_text(ts)),
            Op::Incr { d, ts } => format!("incr {} {}", d, ts_text(ts)),
            Op::IfAbs { v } => format!("ifabs {}", v.text()),
            Op::Patch { c, ts } => format!("patch {} {}", c, ts_text(ts)),
        }
    }
    fn exec(&self, store: &FeoxStore, key: &[u8]) -> String {
        fn e(err: FeoxError) -> String {
            match err {
                FeoxError::KeyNotFound => "notFound".into(),
                FeoxError::OlderTimestamp => "older".into(),
                FeoxError::InvalidOperation => "invalidOp".into(),
                FeoxError::JsonPatchError(_) => "patchErr".into(),
                other => format!("error {}", err_name(&other)),
            }
        }
        match self {
            Op::Ins { v, ts, bytes } => {
                let r = if *bytes {
                    store.insert_bytes_with_timestamp(key, bytes::Bytes::from(v.encode()), *ts)
                } else {
                    store.insert_with_timestamp(key, &v.encode(), *ts)
                };
                match r {
                    Ok(true) => "created".into(),
                    Ok(false) => "updated".into(),
                    Err(x) => e(x),
                }
            }
            Op::Del { ts } => match store.delete_with_timestamp(key, *ts) {
                Ok(()) => "deleted".into(),
                Err(x) => e(x),
            },
            Op::Get { bytes } => {
                let r = if *bytes { store.get_bytes(key).map(|b| b.to_vec()) } else { store.get(key) };
                match r {
                    Ok(v) => format!("value {}", decode(&v)),
                    Err(x) => e(x),
                }
            }
            Op::Cas { exp, new, ts } => match store.compare_and_swap_with_timestamp(key, &exp.encode(), &new.encode(), *ts) {
                Ok(true) => "swapped".into(),
                Ok(false) => "notSwapped".into(),
                Err(x) => e(x),
            },
            Op::Incr { d, ts } => match store.atomic_increment_with_timestamp(key, *d, *ts) {
                Ok(n) => format!("counter {}", n),
                Err(x) => e(x),
            },
            Op::IfAbs { v } => match store.insert_if_absent(key, &v.encode()) {
                Ok(true) => "swapped".into(),
                Ok(false) => "notSwapped".into(),
                Err(x) => e(x),
            },
            Op::Patch { c, ts } => {
                let p = format!("[{{\"op\":\"replace\",\"path\":\"/num\",\"value\":{}}}]", c);
                match store.json_patch_with_timestamp(key, p.as_bytes(), *ts) {
                    Ok(()) => "patched".into(),
                    Err(x) => e(x),
                }
            }
        }
    }
}

fn parse_val(k: &str, n: &str) -> Val {
    Val { kind: match k { "num" => Kind::Num, "json" => Kind::Json, _ => Kind::Raw }, n: n.parse().unwrap() }
}

fn parse_ts(s: &str) -> Option<u64> {
    if s == "-" { None } else { Some(s.parse().unwrap()) }
}

fn parse_op(t: &[&str]) -> Op {
    match t[0] {
        "ins" => Op::Ins { v: parse_val(t[1], t[2]), ts: parse_ts(t[3]), bytes: t.get(4) == Some(&"bytes") },
        "del" => Op::Del { ts: parse_ts(t[1]) },
        "get" => Op::Get { bytes: false },
        "cas" => Op::Cas { exp: parse_val(t[1], t[2]), new: parse_val(t[3], t[4]), ts: parse_ts(t[5]) },
        "incr" => Op::Incr { d: t[1].parse().unwrap(), ts: parse_ts(t[2]) },
        "ifabs" => Op::IfAbs { v: parse_val(t[1], t[2]) },
        "patch" => Op::Patch { c: t[1].parse().unwrap(), ts: parse_ts(t[2]) },
        other => panic!("bad op {}", other),
    }
}

// ---------------------------------------------------------------- controller

#[derive(Clone, Debug, PartialEq)]
enum Phase {
    Idle,
    Running,
    AtPoint(&'static str),
    Returned(String),
}

struct Slot {
    phase: Phase,
    permit: bool,
    cmd: Option<(Op, Vec<u8>)>,
    exit: bool,
}

struct Ctl {
    slots: Mutex<Vec<Slot>>,
    cv: Condvar,
}

thread_local! {
    static WORKER: Cell<Option<usize>> = const { Cell::new(None) };
}

impl feoxdb::verif::sched::Controller for Ctl {
    fn point(&self, name: &'static str) {
        let Some(id) = WORKER.with(|w| w.get()) else { return };
        let mut g = self.slots.lock().unwrap();
        g[id].phase = Phase::AtPoint(name);
        self.cv.notify_all();
        while !g[id].permit {
            g = self.cv.wait(g).unwrap();
        }
        g[id].permit = false;
        g[id].phase = Phase::Running;
    }
}

impl Ctl {
    /// wait until worker `id` is parked or has returned; `None` = watchdog expired
    fn wait(&self, id: usize) -> Option<Phase> {
        let start = Instant::now();
        let mut g = self.slots.lock().unwrap();
        loop {
            match &g[id].phase {
                Phase::AtPoint(_) | Phase::Returned(_) => return Some(g[id].phase.clone()),
                _ => {}
            }
            if start.elapsed() > WATCHDOG {
                return None;
            }
            let (ng, _) = self.cv.wait_timeout(g, Duration::from_millis(200)).unwrap();
            g = ng;
        }
    }
    fn call(&self, id: usize, op: Op, key: Vec<u8>) -> Option<Phase> {
        {
            let mut g = self.slots.lock().unwrap();
            g[id].cmd = Some((op, key));
            g[id].phase = Phase::Running;
            self.cv.notify_all();
        }
        self.wait(id)
    }
    fn resume(&self, id: usize) -> Option<Phase> {
        {
            let mut g = self.slots.lock().unwrap();
            g[id].permit = true;
            g[id].phase = Phase::Running;
            self.cv.notify_all();
        }
        self.wait(id)
    }
    fn consume(&self, id: usize) {
        self.slots.lock().unwrap()[id].phase = Phase::Idle;
    }
}

fn worker(id: usize, ctl: Arc<Ctl>, store: Arc<FeoxStore>) {
    WORKER.with(|w| w.set(Some(id)));
    loop {
        let (op, key) = {
            let mut g = ctl.slots.lock().unwrap();
            loop {
                if g[id].exit {
                    return;
                }
                if let Some(c) = g[id].cmd.take() {
                    break c;
                }
                g = ctl.cv.wait(g).unwrap();
            }
        };
        let r = std::panic::catch_unwind(std::panic::AssertUnwindSafe(|| op.exec(&store, &key))).unwrap_or_else(|_| "panic".into());
        let mut g = ctl.slots.lock().unwrap();
        g[id].phase = Phase::Returned(r);
        ctl.cv.notify_all();
    }
}

// ---------------------------------------------------------------- cases

struct Out {
    ops: std::io::BufWriter<std::fs::File>,
    imp: std::io::BufWriter<std::fs::File>,
    lines: u64,
    hist: BTreeMap<String, u64>,
    failures: Vec<String>,
    cases: u64,
}

impl Out {
    fn emit(&mut self, op: String, res: String) {
        writeln!(self.ops, "{}", op).unwrap();
        writeln!(self.imp, "{}", res).unwrap();
        self.lines += 1;
    }
    fn count(&mut self, k: &str) {
        *self.hist.entry(k.to_string()).or_insert(0) += 1;
    }
}

fn gen_val(rng: &mut Rng) -> Val {
    let kind = *rng.pick(&[Kind::Raw, Kind::Raw, Kind::Num, Kind::Num, Kind::Json]);
    Val { kind, n: rng.range(0, 4) as i64 }
}

fn gen_ts(rng: &mut Rng) -> Option<u64> {
    match rng.below(10) {
        0..=4 => None,
        5 => Some(0),
        _ => Some(WALL - 3 + rng.below(16)),
    }
}

fn gen_op(rng: &mut Rng, family: u64) -> Op {
    // family 0: anything; 1: counters; 2: JSON documents; 3: raw values with explicit timestamps
    let val = |rng: &mut Rng| -> Val {
        match family {
            1 => Val { kind: Kind::Num, n: rng.range(0, 3) as i64 },
            2 => Val { kind: Kind::Json, n: rng.range(0, 3) as i64 },
            3 => Val { kind: Kind::Raw, n: rng.range(0, 2) as i64 },
            _ => gen_val(rng),
        }
    };
    let ts = |rng: &mut Rng| -> Option<u64> {
        if family == 3 { Some(WALL - 3 + rng.below(16)) } else { gen_ts(rng) }
    };
    let w: [u64; 7] = match family {
        1 => [10, 10, 10, 25, 40, 5, 0],
        2 => [15, 10, 10, 25, 0, 5, 35],
        3 => [35, 25, 10, 20, 0, 10, 0],
        _ => [25, 15, 10, 15, 15, 10, 10],
    };
    let mut x = rng.below(w.iter().sum());
    let mut which = 0;
    for (i, wi) in w.iter().enumerate() {
        if x < *wi { which = i; break; }
        x -= wi;
    }
    match which {
        0 => Op::Ins { v: val(rng), ts: ts(rng), bytes: rng.chance(1, 3) },
        1 => Op::Del { ts: ts(rng) },
        2 => Op::Get { bytes: rng.chance(1, 2) },
        3 => Op::Cas { exp: val(rng), new: val(rng), ts: ts(rng) },
        4 => Op::Incr { d: rng.range(0, 6) as i64 - 2, ts: ts(rng) },
        5 => Op::IfAbs { v: val(rng) },
        _ => Op::Patch { c: rng.range(0, 3) as i64, ts: ts(rng) },
    }
}

struct Config {
    mem: bool,
    cache: bool,
}

fn open(cfg: &Config, path: &str) -> Result<FeoxStore, FeoxError> {
    let mut b = FeoxStore::builder().hash_bits(6).enable_ttl(false).no_memory_limit();
    if !cfg.mem {
        let _ = std::fs::remove_file(path);
        b = b.device_path(path.to_string()).file_size(64 * BS).enable_caching(cfg.cache);
    }
    b.build()
}

fn accepted(r: &str) -> bool {
    matches!(r.split(' ').next().unwrap(), "created" | "updated" | "swapped" | "counter" | "patched")
}

fn tail(store: &FeoxStore, key: &[u8], ret: Option<&str>) -> String {
    let clock = store.verif_clock_value(store.verif_clock_shard(key));
    let ts = match ret {
        Some(r) if accepted(r) => store.verif_snapshot().iter().find(|x| x.key == key).map(|x| format!(" ts={}", x.timestamp)).unwrap_or(" ts=?".into()),
        _ => String::new(),
    };
    format!("{} clock={}", ts, clock)
}

enum Step {
    Call(usize, Vec<u8>, Op),
    Run(usize, Vec<u8>),
}

/// one case: fresh store, `n` workers; the schedule comes from `next` (random programs and
/// choices, or a recorded script)
fn drive(out: &mut Out, ctl: &Arc<Ctl>, dir: &str, idx: u64, cfg: &Config, n: usize, finals: bool, next: &mut dyn FnMut(&[bool]) -> Option<Step>) {
    feoxdb::verif::clock::pin(WALL);
    let path = format!("{}/conc{}.feox", dir, idx);
    let store = match open(cfg, &path) {
        Ok(s) => Arc::new(s),
        Err(_) => return,
    };
    {
        let mut g = ctl.slots.lock().unwrap();
        g.clear();
        for _ in 0..n {
            g.push(Slot { phase: Phase::Idle, permit: false, cmd: None, exit: false });
        }
    }
    let handles: Vec<_> = (0..n)
        .map(|id| {
            let c = ctl.clone();
            let s = store.clone();
            std::thread::spawn(move || worker(id, c, s))
        })
        .collect();
    out.emit(format!("conc new {} {} mem={} cache={}", n, WALL, cfg.mem as u8, cfg.cache as u8), "ok".into());
    out.cases += 1;
    out.count(if cfg.mem { "config memory-only" } else if cfg.cache { "config persistent+cache" } else { "config persistent" });
    let mut busy = vec![false; n];
    let mut stuck = false;
    let mut script = String::new();
    let mut keys_seen: Vec<Vec<u8>> = vec![];
    while let Some(step) = next(&busy) {
        let (t, key, line, phase) = match step {
            Step::Call(t, key, op) => {
                out.count(&format!("op {}", op.line().split(' ').next().unwrap()));
                let bytes = matches!(op, Op::Ins { bytes: true, .. });
                let line = format!("conc call {} {} s{} {}{}", t, hex(&key), store.verif_clock_shard(&key), op.line(), if bytes { " bytes" } else { "" });
                busy[t] = true;
                if !keys_seen.contains(&key) { keys_seen.push(key.clone()); }
                let ph = ctl.call(t, op, key.clone());
                (t, key, line, ph)
            }
            Step::Run(t, key) => {
                let line = format!("conc run {} {} s{}", t, hex(&key), store.verif_clock_shard(&key));
                let ph = ctl.resume(t);
                (t, key, line, ph)
            }
        };
        script.push_str(&line);
        script.push('\n');
        match phase {
            None => {
                let keep = format!("{}/conc{}_stuck.txt", dir, idx);
                std::fs::write(&keep, &script).unwrap();
                out.failures.push(format!("C18\tworker {} did not reach a scheduling point or return within {:?} (schedule in the file)\t{}", t, WATCHDOG, keep));
                stuck = true;
                break;
            }
            Some(Phase::AtPoint(name)) => {
                out.count(&format!("point {}", name));
                out.emit(line, format!("at{}", tail(&store, &key, None)));
            }
            Some(Phase::Returned(r)) => {
                out.count(&format!("resp {}", r.split(' ').next().unwrap()));
                ctl.consume(t);
                busy[t] = false;
                let tl = tail(&store, &key, Some(&r));
                out.emit(line, format!("ret {}{}", r, tl));
            }
            Some(_) => unreachable!(),
        }
    }
    if !stuck {
        // final reads
        for k in keys_seen.iter().filter(|_| finals) {
            let line = format!("conc call 0 {} s{} get", hex(k), store.verif_clock_shard(k));
            match ctl.call(0, Op::Get { bytes: false }, k.clone()) {
                Some(Phase::Returned(r)) => {
                    ctl.consume(0);
                    let tl = tail(&store, k, Some(&r));
                    out.emit(line, format!("ret {}{}", r, tl));
                }
                _ => out.failures.push(format!("C18\tfinal get of key {} did not return\t-", hex(k))),
            }
        }
        {
            let mut g = ctl.slots.lock().unwrap();
            for s in g.iter_mut() {
                s.exit = true;
            }
            ctl.cv.notify_all();
        }
        for h in handles {
            let _ = h.join();
        }
        // flush + drop under the watchdog
        let st = store.clone();
        let t0 = Instant::now();
        let j = std::thread::spawn(move || {
            let _ = st.flush();
        });
        while !j.is_finished() && t0.elapsed() < WATCHDOG {
            std::thread::sleep(Duration::from_millis(1));
        }
        if !j.is_finished() {
            out.failures.push("C18\tflush() after a concurrent case did not return within the watchdog\t-".into());
        } else {
            let _ = j.join();
        }
    }
    drop(store);
    let _ = std::fs::remove_file(&path);
}

fn run_case(rng: &mut Rng, out: &mut Out, ctl: &Arc<Ctl>, dir: &str, idx: u64, family: u64) {
    let directed = family != 0;
    out.count(&format!("family {}", family));
    let cfg = Config { mem: rng.chance(1, 2), cache: rng.chance(1, 2) };
    let n = rng.range(2, 4) as usize;
    // keys on distinct version-clock shards (the model keeps one clock per key): the shard map
    // is random per store, so the harness uses one key per case unless the probe store agrees
    let want_keys = if directed { 1 } else { rng.range(1, 2) as usize };
    let keys: Vec<Vec<u8>> = (0..want_keys).map(|i| format!("k{}-{}", i, idx).into_bytes()).collect();
    let mut progs: Vec<Vec<(usize, Op)>> = (0..n)
        .map(|_| (0..rng.range(1, 3)).map(|_| (rng.below(keys.len() as u64) as usize, gen_op(rng, family))).collect())
        .collect();
    if directed {
        let kind = match family { 1 => Kind::Num, 2 => Kind::Json, _ => Kind::Raw };
        progs[0].insert(0, (0, Op::Ins { v: Val { kind, n: 1 }, ts: None, bytes: false }));
    }
    let mut pcs = vec![0usize; n];
    let mut cur_key: Vec<Option<usize>> = vec![None; n];
    let mut r2 = rng.clone();
    let mut next = |busy: &[bool]| -> Option<Step> {
        let live: Vec<usize> = (0..n).filter(|t| busy[*t] || pcs[*t] < progs[*t].len()).collect();
        if live.is_empty() {
            return None;
        }
        let t = *r2.pick(&live);
        if busy[t] {
            Some(Step::Run(t, keys[cur_key[t].unwrap()].clone()))
        } else {
            let (ki, op) = progs[t][pcs[t]].clone();
            pcs[t] += 1;
            cur_key[t] = Some(ki);
            Some(Step::Call(t, keys[ki].clone(), op))
        }
    };
    drive(out, ctl, dir, idx, &cfg, n, true, &mut next);
    for _ in 0..64 { rng.next(); }
}

/// re-execute a recorded schedule (the `conc …` lines of one case)
fn replay_case(out: &mut Out, ctl: &Arc<Ctl>, dir: &str, lines: &[String]) {
    let head: Vec<&str> = lines[0].split(' ').collect();
    let n: usize = head[2].parse().unwrap();
    let cfg = Config { mem: head.iter().any(|x| *x == "mem=1"), cache: head.iter().any(|x| *x == "cache=1") };
    let mut it = lines[1..].iter();
    let mut next = |_busy: &[bool]| -> Option<Step> {
        let l = it.next()?;
        let t: Vec<&str> = l.split(' ').collect();
        match t[1] {
            "call" => Some(Step::Call(t[2].parse().unwrap(), unhex(t[3]), parse_op(&t[5..]))),
            "run" => Some(Step::Run(t[2].parse().unwrap(), unhex(t[3]))),
            _ => None,
        }
    };
    drive(out, ctl, dir, 0, &cfg, n, false, &mut next);
}

fn main() {
    let args = parse_args();
    std::fs::create_dir_all(&args.out).unwrap();
    let open = |n: &str| std::io::BufWriter::new(std::fs::File::create(format!("{}/{}", args.out, n)).unwrap());
    let mut out = Out { ops: open("conc.ops"), imp: open("conc.impl"), lines: 0, hist: BTreeMap::new(), failures: vec![], cases: 0 };
    std::panic::set_hook(Box::new(|_| {}));
    feoxdb::verif::proto::fast_shutdown(true);
    feoxdb::verif::io::disable_ring(true);
    let ctl = Arc::new(Ctl { slots: Mutex::new(vec![]), cv: Condvar::new() });
    feoxdb::verif::sched::set_controller(Some(ctl.clone()));
    let mut rng = Rng::new(args.seed);
    let get = |k: &str, d: u64| -> u64 { args.extra.iter().find_map(|e| e.strip_prefix(&format!("{}=", k)).map(|v| v.parse().unwrap())).unwrap_or(d) };
    let cases = get("cases", 200);
    if let Some(f) = &args.replay {
        let lines: Vec<String> = std::fs::read_to_string(f).unwrap().lines().filter(|l| l.starts_with("conc ")).map(|l| l.to_string()).collect();
        if !lines.is_empty() {
            replay_case(&mut out, &ctl, &args.out, &lines);
        }
    }
    for i in 0..(if args.replay.is_some() { 0 } else { cases }) {
        run_case(&mut rng, &mut out, &ctl, &args.out, i, i % 4);
        if out.failures.iter().any(|f| f.starts_with("C18")) {
            break; // a stuck worker cannot be cleaned up; stop this process
        }
    }
    feoxdb::verif::sched::set_controller(None);
    out.ops.flush().unwrap();
    out.imp.flush().unwrap();
    std::fs::write(format!("{}/conc.failures", args.out), out.failures.join("\n")).unwrap();
    let hist: Vec<String> = out.hist.iter().map(|(k, v)| format!("\"{}\": {}", k, v)).collect();
    std::fs::write(
        format!("{}/conc.meta.json", args.out),
        format!("{{\"engine\": \"conc\", \"seed\": {}, \"cases\": {}, \"lean_lines\": {}, \"failures\": {}, \"kinds\": {{{}}}}}", args.seed, out.cases, out.lines, out.failures.len(), hist.join(", ")),
    )
    .unwrap();
    if out.failures.iter().any(|f| f.starts_with("C18")) {
        std::process::exit(0);
    }
}
