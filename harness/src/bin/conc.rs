//! conc — schedule-controlled runs of the real store against the Lean `Conc` system (C07, C18).
//!
//! 2–4 worker threads execute short programs on a shared key set.  A controller (installed
//! through `feoxdb::verif::sched`) parks every worker at each scheduling point; the main thread
//! picks which worker goes on, one at a time, so the interleaving is exactly the sequence of
//! choices.  Every choice is written as a `conc call …` / `conc run …` line for the Lean driver
//! and the worker's answer (`at` = parked at the next point, `ret <response>` = the call
//! returned) as the implementation's answer.  Every wait is under a watchdog.
use feoxdb::{FeoxError, FeoxStore};
use feox_verif_harness::*;
use std::cell::Cell;
use std::collections::BTreeMap;
use std::io::Write;
use std::sync::{Arc, Condvar, Mutex};
use std::time::{Duration, Instant};

const WALL: u64 = 1_000_000;
const BS: u64 = 4096;
const WATCHDOG: Duration = Duration::from_secs(20);

#[derive(Clone, Copy, Debug, PartialEq)]
enum Kind {
    Raw,
    Num,
    Json,
}

#[derive(Clone, Copy, Debug, PartialEq)]
struct Val {
    kind: Kind,
    n: i64,
}

impl Val {
    fn encode(&self) -> Vec<u8> {
        match self.kind {
            Kind::Raw => format!("raw:{:+07}", self.n).into_bytes(),
            Kind::Num => self.n.to_le_bytes().to_vec(),
            Kind::Json => format!("{{\"num\":{}}}", self.n).into_bytes(),
        }
    }
    fn text(&self) -> String {
        format!("{} {}", match self.kind { Kind::Raw => "raw", Kind::Num => "num", Kind::Json => "json" }, self.n)
    }
}

fn decode(b: &[u8]) -> String {
    if b.len() == 8 {
        return format!("num {}", i64::from_le_bytes(b.try_into().unwrap()));
    }
    let s = String::from_utf8_lossy(b);
    if let Some(r) = s.strip_prefix("raw:") {
        if let Ok(n) = r.parse::<i64>() {
            return format!("raw {}", n);
        }
    }
    if let Some(i) = s.find("\"num\":") {
        let d: String = s[i + 6..].chars().take_while(|c| c.is_ascii_digit() || *c == '-').collect();
        if let Ok(n) = d.parse::<i64>() {
            return format!("json {}", n);
        }
    }
    format!("unknown {}", hex(b))
}

#[derive(Clone, Debug)]
enum Op {
    Ins { v: Val, ts: Option<u64>, bytes: bool },
    Del { ts: Option<u64> },
    Get { bytes: bool },
    Cas { exp: Val, new: Val, ts: Option<u64> },
    Incr { d: i64, ts: Option<u64> },
    IfAbs { v: Val },
    Patch { c: i64, ts: Option<u64> },
    /// range_query over the scan keys `r<id>`
    Range { lo: u64, hi: u64, limit: usize },
    /// one sweeper batch (handled by the worker itself: it needs the `Arc`)
    Sweep,
}

fn ts_text(ts: &Option<u64>) -> String {
    ts.map(|t| t.to_string()).unwrap_or("-".into())
}

impl Op {
    fn line(&self) -> String {
        match self {
            Op::Ins { v, ts, .. } => format!("ins {} {}", v.text(), ts_text(ts)),
            Op::Del { ts } => format!("del {}", ts_text(ts)),
            Op::Get { .. } => "get".into(),
            Op::Cas { exp, new, ts } => format!("cas {} {} {}", exp.text(), new.text(), ts_text(ts)),
            Op::Incr { d, ts } => format!("incr {} {}", d, ts_text(ts)),
            Op::IfAbs { v } => format!("ifabs {}", v.text()),
            Op::Patch { c, ts } => format!("patch {} {}", c, ts_text(ts)),
            Op::Range { lo, hi, limit } => format!("range {} {} {}", lo, hi, limit),
            Op::Sweep => "sweep".into(),
        }
    }
    fn exec(&self, store: &FeoxStore, key: &[u8]) -> String {
        fn e(err: FeoxError) -> String {
            match err {
                FeoxError::KeyNotFound => "notFound".into(),
                FeoxError::OlderTimestamp => "older".into(),
                FeoxError::InvalidOperation => "invalidOp".into(),
                FeoxError::JsonPatchError(_) => "patchErr".into(),
                other => format!("error {}", err_name(&other)),
            }
        }
        match self {
            Op::Ins { v, ts, bytes } => {
                let r = if *bytes {
                    store.insert_bytes_with_timestamp(key, bytes::Bytes::from(v.encode()), *ts)
                } else {
                    store.insert_with_timestamp(key, &v.encode(), *ts)
                };
                match r {
                    Ok(true) => "created".into(),
                    Ok(false) => "updated".into(),
                    Err(x) => e(x),
                }
            }
            Op::Del { ts } => match store.delete_with_timestamp(key, *ts) {
                Ok(()) => "deleted".into(),
                Err(x) => e(x),
            },
            Op::Get { bytes } => {
                let r = if *bytes { store.get_bytes(key).map(|b| b.to_vec()) } else { store.get(key) };
                match r {
                    Ok(v) => format!("value {}", decode(&v)),
                    Err(x) => e(x),
                }
            }
            // (half of the swaps and increments go through the `_and_ttl` entry points with an expiry far in the
            // future: same semantics, separate code path)
            Op::Cas { exp, new, ts } => match if new.n % 2 == 1 { store.compare_and_swap_with_timestamp_and_ttl(key, &exp.encode(), &new.encode(), *ts, 1_000_000) } else { store.compare_and_swap_with_timestamp(key, &exp.encode(), &new.encode(), *ts) } {
                Ok(true) => "swapped".into(),
                Ok(false) => "notSwapped".into(),
                Err(x) => e(x),
            },
            Op::Incr { d, ts } => match if *d % 2 == 0 { store.atomic_increment_with_timestamp_and_ttl(key, *d, *ts, 1_000_000) } else { store.atomic_increment_with_timestamp(key, *d, *ts) } {
                Ok(n) => format!("counter {}", n),
                Err(x) => e(x),
            },
            Op::IfAbs { v } => match store.insert_if_absent(key, &v.encode()) {
                Ok(true) => "swapped".into(),
                Ok(false) => "notSwapped".into(),
                Err(x) => e(x),
            },
            Op::Sweep => "sweep-needs-the-worker".into(),
            Op::Range { lo, hi, limit } => match store.range_query(&scan_key(*lo), &scan_key(*hi), *limit) {
                Ok(rows) => {
                    let ids: Vec<String> = rows.iter().map(|(k, v)| {
                        let id = scan_id(k);
                        if v != &scan_val(id) { format!("{}!", id) } else { id.to_string() }
                    }).collect();
                    format!("range {}", ids.join(" ")).trim_end().to_string()
                }
                Err(x) => e(x),
            },
            Op::Patch { c, ts } => {
                let p = format!("[{{\"op\":\"replace\",\"path\":\"/num\",\"value\":{}}}]", c);
                match store.json_patch_with_timestamp(key, p.as_bytes(), *ts) {
                    Ok(()) => "patched".into(),
                    Err(x) => e(x),
                }
            }
        }
    }
}

fn parse_val(k: &str, n: &str) -> Val {
    Val { kind: match k { "num" => Kind::Num, "json" => Kind::Json, _ => Kind::Raw }, n: n.parse().unwrap() }
}

fn parse_ts(s: &str) -> Option<u64> {
    if s == "-" { None } else { Some(s.parse().unwrap()) }
}

fn parse_op(t: &[&str]) -> Op {
    match t[0] {
        "ins" => Op::Ins { v: parse_val(t[1], t[2]), ts: parse_ts(t[3]), bytes: t.get(4) == Some(&"bytes") },
        "del" => Op::Del { ts: parse_ts(t[1]) },
        "get" => Op::Get { bytes: false },
        "cas" => Op::Cas { exp: parse_val(t[1], t[2]), new: parse_val(t[3], t[4]), ts: parse_ts(t[5]) },
        "incr" => Op::Incr { d: t[1].parse().unwrap(), ts: parse_ts(t[2]) },
        "ifabs" => Op::IfAbs { v: parse_val(t[1], t[2]) },
        "patch" => Op::Patch { c: t[1].parse().unwrap(), ts: parse_ts(t[2]) },
        other => panic!("bad op {}", other),
    }
}

// ---------------------------------------------------------------- controller

#[derive(Clone, Debug, PartialEq)]
enum Phase {
    Idle,
    Running,
    AtPoint(&'static str),
    Returned(String),
}

struct Slot {
    phase: Phase,
    permit: bool,
    cmd: Option<(Op, Vec<u8>)>,
    exit: bool,
}

struct Ctl {
    slots: Mutex<Vec<Slot>>,
    cv: Condvar,
    /// park workers at the read-path points too (`read_start`, `read_pinned`): only the
    /// read/retirement race cases want that; the Conc model has no such step
    park_reads: std::sync::atomic::AtomicBool,
}

thread_local! {
    static WORKER: Cell<Option<usize>> = const { Cell::new(None) };
}

impl feoxdb::verif::sched::Controller for Ctl {
    fn point(&self, name: &'static str) {
        let Some(id) = WORKER.with(|w| w.get()) else { return };
        if name.starts_with("read_") && !self.park_reads.load(std::sync::atomic::Ordering::SeqCst) {
            return;
        }
        let mut g = self.slots.lock().unwrap();
        g[id].phase = Phase::AtPoint(name);
        self.cv.notify_all();
        while !g[id].permit {
            g = self.cv.wait(g).unwrap();
        }
        g[id].permit = false;
        g[id].phase = Phase::Running;
    }
}

impl Ctl {
    /// wait until worker `id` is parked or has returned; `None` = watchdog expired
    fn wait(&self, id: usize) -> Option<Phase> {
        let start = Instant::now();
        let mut g = self.slots.lock().unwrap();
        loop {
            match &g[id].phase {
                Phase::AtPoint(_) | Phase::Returned(_) => return Some(g[id].phase.clone()),
                _ => {}
            }
            if start.elapsed() > WATCHDOG {
                return None;
            }
            let (ng, _) = self.cv.wait_timeout(g, Duration::from_millis(200)).unwrap();
            g = ng;
        }
    }
    fn call(&self, id: usize, op: Op, key: Vec<u8>) -> Option<Phase> {
        {
            let mut g = self.slots.lock().unwrap();
            g[id].cmd = Some((op, key));
            g[id].phase = Phase::Running;
            self.cv.notify_all();
        }
        self.wait(id)
    }
    fn resume(&self, id: usize) -> Option<Phase> {
        {
            let mut g = self.slots.lock().unwrap();
            g[id].permit = true;
            g[id].phase = Phase::Running;
            self.cv.notify_all();
        }
        self.wait(id)
    }
    fn consume(&self, id: usize) {
        self.slots.lock().unwrap()[id].phase = Phase::Idle;
    }
}

fn worker(id: usize, ctl: Arc<Ctl>, store: Arc<FeoxStore>) {
    WORKER.with(|w| w.set(Some(id)));
    loop {
        let (op, key) = {
            let mut g = ctl.slots.lock().unwrap();
            loop {
                if g[id].exit {
                    return;
                }
                if let Some(c) = g[id].cmd.take() {
                    break c;
                }
                g = ctl.cv.wait(g).unwrap();
            }
        };
        let r = std::panic::catch_unwind(std::panic::AssertUnwindSafe(|| {
            if let Op::Sweep = op {
                let (sampled, expired) = feoxdb::core::ttl_sweep::verif_sweep_batch(&store, 64);
                format!("swept {} {}", sampled, expired)
            } else {
                op.exec(&store, &key)
            }
        })).unwrap_or_else(|_| "panic".into());
        let mut g = ctl.slots.lock().unwrap();
        g[id].phase = Phase::Returned(r);
        ctl.cv.notify_all();
    }
}

// ---------------------------------------------------------------- cases

struct Out {
    ops: std::io::BufWriter<std::fs::File>,
    imp: std::io::BufWriter<std::fs::File>,
    lines: u64,
    hist: BTreeMap<String, u64>,
    failures: Vec<String>,
    cases: u64,
}

impl Out {
    fn emit(&mut self, op: String, res: String) {
        writeln!(self.ops, "{}", op).unwrap();
        writeln!(self.imp, "{}", res).unwrap();
        self.lines += 1;
    }
    fn count(&mut self, k: &str) {
        *self.hist.entry(k.to_string()).or_insert(0) += 1;
    }
}

fn gen_val(rng: &mut Rng) -> Val {
    let kind = *rng.pick(&[Kind::Raw, Kind::Raw, Kind::Num, Kind::Num, Kind::Json]);
    Val { kind, n: rng.range(0, 4) as i64 }
}

fn gen_ts(rng: &mut Rng) -> Option<u64> {
    match rng.below(10) {
        0..=4 => None,
        5 => Some(0),
        _ => Some(WALL - 3 + rng.below(16)),
    }
}

fn gen_op(rng: &mut Rng, family: u64) -> Op {
    // family 0: anything; 1: counters; 2: JSON documents; 3: raw values with explicit timestamps
    let val = |rng: &mut Rng| -> Val {
        match family {
            1 => Val { kind: Kind::Num, n: rng.range(0, 3) as i64 },
            2 => Val { kind: Kind::Json, n: rng.range(0, 3) as i64 },
            3 => Val { kind: Kind::Raw, n: rng.range(0, 2) as i64 },
            _ => gen_val(rng),
        }
    };
    let ts = |rng: &mut Rng| -> Option<u64> {
        if family == 3 { Some(WALL - 3 + rng.below(16)) } else { gen_ts(rng) }
    };
    let w: [u64; 7] = match family {
        1 => [10, 10, 10, 25, 40, 5, 0],
        2 => [15, 10, 10, 25, 0, 5, 35],
        3 => [35, 25, 10, 20, 0, 10, 0],
        _ => [25, 15, 10, 15, 15, 10, 10],
    };
    let mut x = rng.below(w.iter().sum());
    let mut which = 0;
    for (i, wi) in w.iter().enumerate() {
        if x < *wi { which = i; break; }
        x -= wi;
    }
    match which {
        0 => Op::Ins { v: val(rng), ts: ts(rng), bytes: rng.chance(1, 3) },
        1 => Op::Del { ts: ts(rng) },
        2 => Op::Get { bytes: rng.chance(1, 2) },
        3 => Op::Cas { exp: val(rng), new: val(rng), ts: ts(rng) },
        4 => Op::Incr { d: rng.range(0, 6) as i64 - 2, ts: ts(rng) },
        5 => Op::IfAbs { v: val(rng) },
        _ => Op::Patch { c: rng.range(0, 3) as i64, ts: ts(rng) },
    }
}

struct Config {
    mem: bool,
    cache: bool,
}

fn open(cfg: &Config, path: &str) -> Result<FeoxStore, FeoxError> {
    let mut b = FeoxStore::builder().hash_bits(6).enable_ttl(false).no_memory_limit();
    if !cfg.mem {
        let _ = std::fs::remove_file(path);
        b = b.device_path(path.to_string()).file_size(64 * BS).enable_caching(cfg.cache);
    }
    b.build()
}

fn accepted(r: &str) -> bool {
    matches!(r.split(' ').next().unwrap(), "created" | "updated" | "swapped" | "counter" | "patched")
}

/// usage the accounting property promises at a quiescent point: the footprints of the live records
fn footprint(store: &FeoxStore) -> (usize, usize) {
    let rs = feoxdb::verif::pure::record_struct_size();
    let snap = store.verif_snapshot();
    (snap.iter().map(|r| rs + r.key.len() + r.value_len).sum(), snap.len())
}

fn tail(store: &FeoxStore, key: &[u8], ret: Option<&str>) -> String {
    let clock = store.verif_clock_value(store.verif_clock_shard(key));
    let ts = match ret {
        Some(r) if accepted(r) => store.verif_snapshot().iter().find(|x| x.key == key).map(|x| format!(" ts={}", x.timestamp)).unwrap_or(" ts=?".into()),
        _ => String::new(),
    };
    format!("{} clock={} mem={} n={}", ts, clock, store.memory_usage(), store.len())
}

enum Step {
    Call(usize, Vec<u8>, Op),
    Run(usize, Vec<u8>),
}

/// one case: fresh store, `n` workers; the schedule comes from `next` (random programs and
/// choices, or a recorded script)
fn drive(out: &mut Out, ctl: &Arc<Ctl>, dir: &str, idx: u64, cfg: &Config, n: usize, finals: bool, next: &mut dyn FnMut(&[bool]) -> Option<Step>) {
    feoxdb::verif::clock::pin(WALL);
    let path = format!("{}/conc{}.feox", dir, idx);
    let store = match open(cfg, &path) {
        Ok(s) => Arc::new(s),
        Err(_) => return,
    };
    {
        let mut g = ctl.slots.lock().unwrap();
        g.clear();
        for _ in 0..n {
            g.push(Slot { phase: Phase::Idle, permit: false, cmd: None, exit: false });
        }
    }
    let handles: Vec<_> = (0..n)
        .map(|id| {
            let c = ctl.clone();
            let s = store.clone();
            std::thread::spawn(move || worker(id, c, s))
        })
        .collect();
    out.emit(format!("conc new {} {} mem={} cache={} rs={}", n, WALL, cfg.mem as u8, cfg.cache as u8, feoxdb::verif::pure::record_struct_size()), "ok".into());
    out.cases += 1;
    out.count(if cfg.mem { "config memory-only" } else if cfg.cache { "config persistent+cache" } else { "config persistent" });
    let mut busy = vec![false; n];
    let mut stuck = false;
    let mut script = String::new();
    let mut acc_reported = false;
    let mut keys_seen: Vec<Vec<u8>> = vec![];
    while let Some(step) = next(&busy) {
        let (t, key, line, phase) = match step {
            Step::Call(t, key, op) => {
                out.count(&format!("op {}", op.line().split(' ').next().unwrap()));
                let bytes = matches!(op, Op::Ins { bytes: true, .. });
                let line = format!("conc call {} {} s{} {}{}", t, hex(&key), store.verif_clock_shard(&key), op.line(), if bytes { " bytes" } else { "" });
                busy[t] = true;
                if !keys_seen.contains(&key) { keys_seen.push(key.clone()); }
                let ph = ctl.call(t, op, key.clone());
                (t, key, line, ph)
            }
            Step::Run(t, key) => {
                let line = format!("conc run {} {} s{}", t, hex(&key), store.verif_clock_shard(&key));
                let ph = ctl.resume(t);
                (t, key, line, ph)
            }
        };
        script.push_str(&line);
        script.push('\n');
        if phase.is_some() {
            let (want, n) = footprint(&store);
            let (got, len) = (store.memory_usage(), store.len());
            if (got != want || len != n) && !acc_reported {
                acc_reported = true;
                let keep = format!("{}/conc{}_acc.txt", dir, idx);
                std::fs::write(&keep, &script).unwrap();
                out.failures.push(format!("C13\tafter `{}` (all threads parked or idle) memory_usage() = {} but the live records add up to {}; len() = {} with {} live records\t{}", line, got, want, len, n, keep));
            }
        }
        match phase {
            None => {
                let keep = format!("{}/conc{}_stuck.txt", dir, idx);
                std::fs::write(&keep, &script).unwrap();
                out.failures.push(format!("C18\tworker {} did not reach a scheduling point or return within {:?} (schedule in the file)\t{}", t, WATCHDOG, keep));
                stuck = true;
                break;
            }
            Some(Phase::AtPoint(name)) => {
                out.count(&format!("point {}", name));
                out.emit(line, format!("at{}", tail(&store, &key, None)));
            }
            Some(Phase::Returned(r)) => {
                out.count(&format!("resp {}", r.split(' ').next().unwrap()));
                ctl.consume(t);
                busy[t] = false;
                let tl = tail(&store, &key, Some(&r));
                out.emit(line, format!("ret {}{}", r, tl));
            }
            Some(_) => unreachable!(),
        }
    }
    if !stuck {
        // final reads
        for k in keys_seen.iter().filter(|_| finals) {
            let line = format!("conc call 0 {} s{} get", hex(k), store.verif_clock_shard(k));
            match ctl.call(0, Op::Get { bytes: false }, k.clone()) {
                Some(Phase::Returned(r)) => {
                    ctl.consume(0);
                    let tl = tail(&store, k, Some(&r));
                    out.emit(line, format!("ret {}{}", r, tl));
                }
                _ => out.failures.push(format!("C18\tfinal get of key {} did not return\t-", hex(k))),
            }
        }
        {
            let mut g = ctl.slots.lock().unwrap();
            for s in g.iter_mut() {
                s.exit = true;
            }
            ctl.cv.notify_all();
        }
        let t9 = Instant::now();
        for h in handles {
            while !h.is_finished() && t9.elapsed() < WATCHDOG { std::thread::sleep(Duration::from_millis(1)); }
            if h.is_finished() { let _ = h.join(); } else {
                out.failures.push("C18\ta worker thread did not exit after its last call returned\t-".into());
            }
        }
        // flush + drop under the watchdog
        let st = store.clone();
        let t0 = Instant::now();
        let j = std::thread::spawn(move || {
            let _ = st.flush();
        });
        while !j.is_finished() && t0.elapsed() < WATCHDOG {
            std::thread::sleep(Duration::from_millis(1));
        }
        if !j.is_finished() {
            out.failures.push("C18\tflush() after a concurrent case did not return within the watchdog\t-".into());
        } else {
            let _ = j.join();
            // every call has returned and the flush is acknowledged: the standing invariants of a store at rest
            let mut found = feox_verif_harness::inv::quiescent(&store);
            if !cfg.mem { found.extend(feox_verif_harness::inv::after_flush(&store, &path)); }
            for f in found.iter().take(2) {
                for p in f.props {
                    out.failures.push(format!("{}\tafter the concurrent case (all calls returned, flush acknowledged): {}\t-", p, f.what));
                }
            }
        }
    }
    drop(store);
    let _ = std::fs::remove_file(&path);
}

fn run_case(rng: &mut Rng, out: &mut Out, ctl: &Arc<Ctl>, dir: &str, idx: u64, family: u64) {
    let directed = family != 0;
    out.count(&format!("family {}", family));
    let cfg = Config { mem: rng.chance(1, 2), cache: rng.chance(1, 2) };
    let n = rng.range(2, 4) as usize;
    // keys on distinct version-clock shards (the model keeps one clock per key): the shard map
    // is random per store, so the harness uses one key per case unless the probe store agrees
    let want_keys = if directed { 1 } else { rng.range(1, 2) as usize };
    let keys: Vec<Vec<u8>> = (0..want_keys).map(|i| format!("k{}-{}", i, idx).into_bytes()).collect();
    let mut progs: Vec<Vec<(usize, Op)>> = (0..n)
        .map(|_| (0..rng.range(1, 3)).map(|_| (rng.below(keys.len() as u64) as usize, gen_op(rng, family))).collect())
        .collect();
    if directed {
        let kind = match family { 1 => Kind::Num, 2 => Kind::Json, _ => Kind::Raw };
        progs[0].insert(0, (0, Op::Ins { v: Val { kind, n: 1 }, ts: None, bytes: false }));
    }
    let mut pcs = vec![0usize; n];
    let mut cur_key: Vec<Option<usize>> = vec![None; n];
    let mut r2 = rng.clone();
    let mut next = |busy: &[bool]| -> Option<Step> {
        let live: Vec<usize> = (0..n).filter(|t| busy[*t] || pcs[*t] < progs[*t].len()).collect();
        if live.is_empty() {
            return None;
        }
        let t = *r2.pick(&live);
        if busy[t] {
            Some(Step::Run(t, keys[cur_key[t].unwrap()].clone()))
        } else {
            let (ki, op) = progs[t][pcs[t]].clone();
            pcs[t] += 1;
            cur_key[t] = Some(ki);
            Some(Step::Call(t, keys[ki].clone(), op))
        }
    };
    drive(out, ctl, dir, idx, &cfg, n, true, &mut next);
    for _ in 0..64 { rng.next(); }
}

/// every interleaving (at the hooked granularity) of a small program set: two or three threads
/// with one or two calls each on one key of a memory-only store.  Schedules are enumerated in
/// lexicographic order of the thread chosen at each step, re-executing from scratch each time.
fn exhaust_set(rng: &mut Rng, out: &mut Out, ctl: &Arc<Ctl>, dir: &str, idx: u64, cap: u64) {
    let family = 1 + idx % 3;
    let n = if rng.chance(1, 4) { 3 } else { 2 };
    let key = format!("x{}", idx).into_bytes();
    let kind = match family { 1 => Kind::Num, 2 => Kind::Json, _ => Kind::Raw };
    let mut progs: Vec<Vec<Op>> = (0..n).map(|_| (0..rng.range(1, 2)).map(|_| gen_op(rng, family)).collect()).collect();
    if rng.chance(2, 3) {
        progs[0].insert(0, Op::Ins { v: Val { kind, n: 1 }, ts: None, bytes: false });
    }
    let cfg = Config { mem: true, cache: false };
    let mut prefix: Vec<usize> = vec![];
    let mut schedules = 0u64;
    loop {
        let mut pcs = vec![0usize; n];
        let mut trace: Vec<(usize, Vec<usize>)> = vec![];
        {
            let mut next = |busy: &[bool]| -> Option<Step> {
                let live: Vec<usize> = (0..n).filter(|t| busy[*t] || pcs[*t] < progs[*t].len()).collect();
                if live.is_empty() {
                    return None;
                }
                let i = trace.len();
                let t = if i < prefix.len() && live.contains(&prefix[i]) { prefix[i] } else { live[0] };
                trace.push((t, live));
                if busy[t] {
                    Some(Step::Run(t, key.clone()))
                } else {
                    let op = progs[t][pcs[t]].clone();
                    pcs[t] += 1;
                    Some(Step::Call(t, key.clone(), op))
                }
            };
            drive(out, ctl, dir, idx, &cfg, n, true, &mut next);
        }
        schedules += 1;
        out.count("exhaustive schedule");
        // next schedule in lexicographic order: bump the last step that still has a larger alternative
        let mut bumped = false;
        for i in (0..trace.len()).rev() {
            let (chosen, live) = &trace[i];
            if let Some(alt) = live.iter().find(|t| **t > *chosen) {
                prefix = trace[..i].iter().map(|x| x.0).collect();
                prefix.push(*alt);
                bumped = true;
                break;
            }
        }
        if !bumped {
            out.count("exhaustive set complete");
            break;
        }
        if schedules >= cap {
            out.count("exhaustive set capped");
            break;
        }
        if out.failures.iter().any(|f| f.starts_with("C18")) { break; }
    }
}

/// re-execute a recorded schedule (the `conc …` lines of one case)
fn replay_case(out: &mut Out, ctl: &Arc<Ctl>, dir: &str, lines: &[String]) {
    let head: Vec<&str> = lines[0].split(' ').collect();
    let n: usize = head[2].parse().unwrap();
    let cfg = Config { mem: head.iter().any(|x| *x == "mem=1"), cache: head.iter().any(|x| *x == "cache=1") };
    let mut it = lines[1..].iter();
    let mut next = |_busy: &[bool]| -> Option<Step> {
        let l = it.next()?;
        let t: Vec<&str> = l.split(' ').collect();
        match t[1] {
            "call" => Some(Step::Call(t[2].parse().unwrap(), unhex(t[3]), parse_op(&t[5..]))),
            "run" => Some(Step::Run(t[2].parse().unwrap(), unhex(t[3]))),
            _ => None,
        }
    };
    drive(out, ctl, dir, 0, &cfg, n, false, &mut next);
}

// ---------------------------------------------------------------- C08: the pin word, unit level

/// random walks of reader / retirer protocol steps on the real `extent_state` word
fn word_run(rng: &mut Rng, out: &mut Out) {
    use feoxdb::core::record::Record;
    let rec = Record::new(b"pin".to_vec(), vec![1, 2, 3], 7);
    out.emit("pin new".into(), "ok r=0 b=0 out=none".into());
    let (mut pins, mut reading, mut w) = (0u32, 0u32, 0u8);
    let mut content = "data";
    for _ in 0..rng.range(5, 60) {
        let mut enabled: Vec<&str> = vec!["acquire"];
        if pins > 0 { enabled.push("pread"); }
        if reading > 0 { enabled.push("release"); enabled.push("release"); }
        enabled.push(match w { 0 => "setBit", 1 => "check", 2 => "mark", 3 => "recheck", _ => "reuse" });
        let ev = *rng.pick(&enabled);
        let mut o = "none".to_string();
        match ev {
            "acquire" => {
                if rec.verif_extent_acquire() { pins += 1; } else { o = "refused".into(); }
            }
            "pread" => { pins -= 1; reading += 1; o = format!("saw-{}", content); }
            "release" => { rec.verif_extent_release(); reading -= 1; }
            "setBit" => { rec.verif_extent_retire(); w = 1; }
            "check" => {
                if rec.verif_extent_has_readers() { w = 0; o = "blocked".into(); } else { w = 2; o = "cleared".into(); }
            }
            "mark" => { w = 3; content = "markers"; }
            "recheck" => {
                if rec.verif_extent_has_readers() { o = "blocked".into(); } else { w = 4; o = "freed".into(); }
            }
            _ => { content = "reused"; }
        }
        if ev == "reuse" && rng.chance(1, 2) {
            let word = rec.verif_extent_word();
            out.emit(format!("pin {}", ev), format!("ok r={} b={} out={}", word & 0x7fff_ffff, word >> 31, o));
            break;
        }
        let word = rec.verif_extent_word();
        out.count(&format!("word {}", ev));
        out.emit(format!("pin {}", ev), format!("ok r={} b={} out={}", word & 0x7fff_ffff, word >> 31, o));
    }
    // balance the forgotten guards so the record drops cleanly
    for _ in 0..(pins + reading) { rec.verif_extent_release(); }
}

// ---------------------------------------------------------------- C07: free-running histories

/// threads released by a barrier run their calls without any scheduling: races inside the
/// guarded steps and in the index itself happen for real.  Every call is stamped with a global
/// sequence number at invocation and at response; the histories go to the linearizability search
/// (no model involved: this probes the guard-atomicity assumption of the Conc model).
fn stress_case(rng: &mut Rng, sink: &mut Vec<String>, dir: &str, idx: u64) {
    use std::sync::atomic::{AtomicU64, Ordering as O};
    let cfg = Config { mem: rng.chance(1, 2), cache: rng.chance(1, 2) };
    feoxdb::verif::clock::pin(WALL);
    let path = format!("{}/stress{}.feox", dir, idx);
    let store = match open(&cfg, &path) { Ok(s) => Arc::new(s), Err(_) => return };
    let family = 1 + idx % 3;
    let n = rng.range(2, 4) as usize;
    let key = format!("s{}", idx).into_bytes();
    let kind = match family { 1 => Kind::Num, 2 => Kind::Json, _ => Kind::Raw };
    let _ = store.insert(&key, &Val { kind, n: 1 }.encode());
    let seq = Arc::new(AtomicU64::new(1));
    let barrier = Arc::new(std::sync::Barrier::new(n));
    let progs: Vec<Vec<Op>> = (0..n).map(|_| (0..rng.range(1, 3)).map(|_| gen_op(rng, family)).collect()).collect();
    let handles: Vec<_> = progs.into_iter().enumerate().map(|(t, prog)| {
        let (st, k, sq, b) = (store.clone(), key.clone(), seq.clone(), barrier.clone());
        std::thread::spawn(move || {
            b.wait();
            let mut rows = vec![];
            for op in prog {
                let i = sq.fetch_add(1, O::SeqCst);
                let r = op.exec(&st, &k);
                let j = sq.fetch_add(1, O::SeqCst);
                rows.push(format!("{} {} {} | {} | {}", t, i, j, op.line(), r));
            }
            rows
        })
    }).collect();
    let mut rows = vec![format!("case {} seed-kind {} threads {}", idx, family, n), format!("0 0 0 | ins {} - | created", Val { kind, n: 1 }.text())];
    for h in handles {
        if let Ok(r) = h.join() { rows.extend(r); }
    }
    let fin = Op::Get { bytes: false }.exec(&store, &key);
    rows.push(format!("0 {} {} | get | {}", u64::MAX - 1, u64::MAX, fin));
    sink.extend(rows);
    drop(store);
    let _ = std::fs::remove_file(&path);
}

// ---------------------------------------------------------------- C14: a range scan racing with writers

fn scan_key(id: u64) -> Vec<u8> { format!("r{:03}", id).into_bytes() }
fn scan_id(k: &[u8]) -> u64 { String::from_utf8_lossy(&k[1..]).parse().unwrap_or(999) }
fn scan_val(id: u64) -> Vec<u8> { pattern(id as u8, 20 + (id as usize % 7) * 700) }

/// one range_query parked at every iteration while the main thread inserts and deletes keys
/// around it; the index at each instant goes to the Lean scan model, which must predict when the
/// scan returns and what; independently: ascending, in bounds, at most limit, stable keys exactly
/// once, absent keys never
fn scan_case(rng: &mut Rng, out: &mut Out, ctl: &Arc<Ctl>, dir: &str, idx: u64) {
    feoxdb::verif::clock::unpin();
    let cfg = Config { mem: rng.chance(1, 2), cache: rng.chance(1, 2) };
    let path = format!("{}/scan{}.feox", dir, idx);
    let store = match open(&cfg, &path) { Ok(s) => Arc::new(s), Err(_) => return };
    let universe = rng.range(6, 40);
    let mut present: Vec<bool> = (0..universe).map(|_| rng.chance(1, 2)).collect();
    for id in 0..universe { if present[id as usize] { let _ = store.insert(&scan_key(id), &scan_val(id)); } }
    if !cfg.mem && rng.chance(1, 2) { let _ = store.flush(); }
    let mut touched = vec![false; universe as usize];
    let mut ever = present.clone();
    let (lo, hi) = if rng.chance(1, 6) { (rng.below(universe), rng.below(universe + 2)) } else { (rng.below(universe / 2), universe / 2 + rng.below(universe / 2 + 2)) };
    let limit = *rng.pick(&[1usize, 2, 3, 100, 100, 100]);
    let ids_now = |st: &FeoxStore| -> String { st.verif_tree_keys().iter().map(|k| scan_id(k).to_string()).collect::<Vec<_>>().join(" ") };
    {
        let mut g = ctl.slots.lock().unwrap();
        g.clear();
        g.push(Slot { phase: Phase::Idle, permit: false, cmd: None, exit: false });
    }
    let h = { let c = ctl.clone(); let st = store.clone(); std::thread::spawn(move || worker(0, c, st)) };
    let before = ids_now(&store);
    let mut ph = ctl.call(0, Op::Range { lo, hi, limit }, vec![]);
    let answer = |ph: &Option<Phase>| -> String { match ph { Some(Phase::AtPoint(_)) => "at".into(), Some(Phase::Returned(r)) => r.replacen("range", "ret", 1), _ => "stuck".into() } };
    out.emit(format!("scan new {} {} {} {}", lo, hi, limit, before).trim_end().to_string(), answer(&ph));
    let mut steps = 0;
    while let Some(Phase::AtPoint(_)) = ph {
        // writers move around the scan
        for _ in 0..rng.below(4) {
            let id = rng.below(universe);
            touched[id as usize] = true;
            if present[id as usize] && rng.chance(1, 2) {
                if store.delete(&scan_key(id)).is_ok() { present[id as usize] = false; }
            } else {
                let _ = store.insert(&scan_key(id), &scan_val(id));
                present[id as usize] = true;
                ever[id as usize] = true;
            }
        }
        let now = ids_now(&store);
        ph = ctl.resume(0);
        out.emit(format!("scan step {}", now).trim_end().to_string(), answer(&ph));
        steps += 1;
        if steps > 200 { break; }
    }
    out.count("scan case");
    out.count(&format!("scan steps {}", if steps > 8 { "9+".to_string() } else { steps.to_string() }));
    match ph {
        Some(Phase::Returned(r)) => {
            ctl.consume(0);
            let ids: Vec<u64> = r.split(' ').skip(1).filter_map(|x| x.trim_end_matches('!').parse().ok()).collect();
            let mut bad: Option<String> = None;
            if r.contains('!') { bad = Some(format!("a returned value is not the key's value: {}", r)); }
            if ids.windows(2).any(|w| w[0] >= w[1]) { bad = Some(format!("result not strictly ascending: {:?}", ids)); }
            if ids.iter().any(|i| *i < lo || *i > hi) { bad = Some(format!("result outside the bounds {}..={}: {:?}", lo, hi, ids)); }
            if ids.len() > limit { bad = Some(format!("more than limit={} results: {:?}", limit, ids)); }
            if let Some(i) = ids.iter().find(|i| !ever[**i as usize]) { bad = Some(format!("key {} was never in the store during the scan but is in the result", i)); }
            // stable keys inside the window the scan covered
            let window_end = if ids.len() >= limit { *ids.last().unwrap_or(&0) } else { hi.min(universe - 1) };
            for id in lo..=window_end.min(universe - 1) {
                let stable = !touched[id as usize] && present[id as usize];
                if stable && !ids.contains(&id) && bad.is_none() && lo <= hi {
                    bad = Some(format!("key {} was present and untouched for the whole scan and lies inside the returned window {}..={} but is missing from {:?}", id, lo, window_end, ids));
                }
            }
            if let Some(b) = bad {
                out.failures.push(format!("C14\tscan case {}: {}\t-", idx, b));
            }
        }
        _ => out.failures.push(format!("C18\tscan case {}: the range query did not return\t-", idx)),
    }
    {
        let mut g = ctl.slots.lock().unwrap();
        g[0].exit = true;
        g[0].permit = true;
        ctl.cv.notify_all();
    }
    let t9 = Instant::now();
    while !h.is_finished() && t9.elapsed() < WATCHDOG { std::thread::sleep(Duration::from_millis(1)); }
    if h.is_finished() { let _ = h.join(); }
    drop(store);
    let _ = std::fs::remove_file(&path);
}

// ---------------------------------------------------------------- C18: contention under a watchdog

/// unscheduled writers, readers and concurrent flush() callers on a small (filling) or failing
/// device; every thread, the final flush and the drop must finish within the watchdog
/// a device far too small for what is buffered: every shard's batch fits only in part (some
/// records get their blocks, a later one of the same batch does not).  flush() must come back -
/// with OutOfSpace - and so must a second flush, deletes that make room, a flush after them, and drop.
fn overfull_case(rng: &mut Rng, out: &mut Out, dir: &str, idx: u64) {
    feoxdb::verif::clock::unpin();
    let blocks = rng.range(18, 26);
    let path = format!("{}/overfull{}.feox", dir, idx);
    let _ = std::fs::remove_file(&path);
    let store = match FeoxStore::builder().hash_bits(8).enable_ttl(false).no_memory_limit()
        .device_path(path.clone()).file_size(blocks * BS).enable_caching(false).build() {
        Ok(s) => Arc::new(s),
        Err(_) => return,
    };
    let n = rng.range(40, 240);
    let keys: Vec<Vec<u8>> = (0..n).map(|i| format!("of{}-{:04}", idx, i).into_bytes()).collect();
    let mut held: BTreeMap<Vec<u8>, Vec<u8>> = BTreeMap::new();
    for k in &keys {
        let v = pattern(k[k.len() - 1], *rng.pick(&[60usize, 200, 3000, 9000]));
        if store.insert(k, &v).is_ok() { held.insert(k.clone(), v); }
    }
    out.count("overfull device case");
    let step = |what: &str, f: Box<dyn FnOnce() + Send>| -> bool {
        let t0 = Instant::now();
        let j = std::thread::spawn(f);
        while !j.is_finished() && t0.elapsed() < WATCHDOG { std::thread::sleep(Duration::from_millis(1)); }
        if j.is_finished() { let _ = j.join(); true } else { let _ = what; false }
    };
    let mut stuck: Option<&str> = None;
    let st = store.clone();
    if !step("flush", Box::new(move || { let _ = st.flush(); })) { stuck = Some("flush() with more buffered than the device can hold"); }
    if stuck.is_none() {
        let st = store.clone();
        if !step("flush2", Box::new(move || { let _ = st.flush(); })) { stuck = Some("a second flush() on the full device"); }
    }
    if stuck.is_none() {
        for k in keys.iter().skip(4) { if store.delete(k).is_ok() { held.remove(k); } }
        let st = store.clone();
        if !step("flush3", Box::new(move || { let _ = st.flush(); })) { stuck = Some("flush() after deletes made room on the full device"); }
    }
    // what the batches that ran out of space gave back must really be free again: a few more records go in, and then
    // every key reads the value written for it - before and after a further flush (C08: genuine values only; C05: one
    // owner per block)
    if stuck.is_none() {
        for i in 0..3u8 {
            let k = format!("of{}-late-{}", idx, i).into_bytes();
            let v = pattern(0x70 + i, *rng.pick(&[100usize, 3000, 5000]));
            if store.insert(&k, &v).is_ok() { held.insert(k, v); }
        }
        for round in 0..2 {
            let mut wrong: Option<String> = None;
            for (k, v) in &held {
                match store.get(k) {
                    Ok(got) if &got == v => {}
                    Ok(got) => { wrong = wrong.or(Some(format!("key {} reads {} bytes that are not its value ({} bytes written; first difference at byte {})", String::from_utf8_lossy(k), got.len(), v.len(), got.iter().zip(v.iter()).position(|(a, b)| a != b).unwrap_or(got.len().min(v.len()))))); }
                    Err(e) => { wrong = wrong.or(Some(format!("key {} reads {} although it was written and never deleted", String::from_utf8_lossy(k), err_name(&e)))); }
                }
            }
            if let Some(w) = wrong {
                out.failures.push(format!("C08\toverfull device case {} ({} blocks, {} keys; flushes refused for space, room made, {}): {}\t-", idx, blocks, n, if round == 0 { "more records written" } else { "flushed again" }, w));
                out.failures.push(format!("C05\toverfull device case {}: {}\t-", idx, w));
                break;
            }
            let st = store.clone();
            if !step("flush4", Box::new(move || { let _ = st.flush(); })) { stuck = Some("flush() after the device had been full"); break; }
        }
    }
    match stuck {
        Some(what) => {
            out.failures.push(format!("C18\toverfull device case {} ({} blocks, {} keys): {} did not return within {:?}\t-", idx, blocks, n, what, WATCHDOG));
            std::mem::forget(store);
        }
        None => {
            let td = Instant::now();
            let dropper = std::thread::spawn(move || drop(store));
            while !dropper.is_finished() && td.elapsed() < 3 * WATCHDOG { std::thread::sleep(Duration::from_millis(2)); }
            if !dropper.is_finished() {
                out.failures.push(format!("C18\toverfull device case {}: dropping the store did not finish within {:?}\t-", idx, 3 * WATCHDOG));
            }
        }
    }
    let _ = std::fs::remove_file(&path);
}

fn contend_case(rng: &mut Rng, out: &mut Out, wl: &Arc<WriteLog>, dir: &str, idx: u64) {
    use std::sync::atomic::Ordering as O;
    feoxdb::verif::clock::unpin();
    let small = rng.chance(1, 2);
    let failing = rng.chance(1, 3);
    let blocks = if small { rng.range(20, 30) } else { 256 };
    let path = format!("{}/contend{}.feox", dir, idx);
    let _ = std::fs::remove_file(&path);
    let store = match FeoxStore::builder().hash_bits(6).enable_ttl(false).no_memory_limit()
        .device_path(path.clone()).file_size(blocks * BS).enable_caching(rng.chance(1, 2)).build() {
        Ok(s) => Arc::new(s),
        Err(_) => return,
    };
    out.count(match (small, failing) { (true, true) => "contend small+failing device", (true, false) => "contend small (filling) device", (false, true) => "contend failing device", _ => "contend healthy device" });
    wl.seen.store(0, O::SeqCst);
    let mode = if failing { *rng.pick(&[0u64, 0, 1, 1, 2, 3]) } else { 0 };
    wl.fail_mode.store(mode, O::SeqCst);
    let fa = if failing { if mode == 0 { rng.range(3, 60) } else { rng.range(1, 12) } } else { 0 };
    wl.fail_after.store(fa, O::SeqCst);
    if failing { out.count(match mode { 1 => "contend failure: record-data writes only (retryable, never poisoned)", 2 => "contend failure: fsyncs only", 3 => "contend failure: journal / metadata writes only", _ => "contend failure: every write and fsync" }); }
    // half of the failing devices recover after a short burst of failed writes / fsyncs
    let transient = failing && rng.chance(2, 3);
    wl.fail_until.store(if transient { fa + rng.range(1, 12) } else { u64::MAX }, O::SeqCst);
    if transient { out.count("contend transient failure burst"); }
    let keys: Vec<Vec<u8>> = (0..3).map(|i| format!("c{}-{}", idx, i).into_bytes()).collect();
    let mut handles = vec![];
    let nops = rng.range(50, 300);
    for t in 0..5u64 {
        let st = store.clone();
        let ks = keys.clone();
        let mut r = Rng::new(rng.next() ^ t);
        handles.push((t, std::thread::spawn(move || {
            for i in 0..nops {
                let k = r.pick(&ks).clone();
                match t {
                    0 | 1 => match r.below(5) {
                        0 => { let _ = st.delete(&k); }
                        1 => { let _ = st.atomic_increment(&k, 1); }
                        2 => { let _ = st.compare_and_swap(&k, b"x", b"y"); }
                        _ => { let _ = st.insert(&k, &pattern(i as u8, *r.pick(&[10usize, 8, 3000, 9000]))); }
                    },
                    2 => { if r.chance(1, 2) { let _ = st.get(&k); } else { let _ = st.range_query(b"c", b"d", 10); } }
                    _ => { if i % 8 == 0 { let _ = st.flush(); } else { std::thread::yield_now(); } }
                }
            }
        })));
    }
    let t0 = Instant::now();
    let mut stuck = vec![];
    for (t, h) in handles {
        while !h.is_finished() && t0.elapsed() < WATCHDOG {
            std::thread::sleep(Duration::from_millis(2));
        }
        if h.is_finished() { let _ = h.join(); } else { stuck.push(t); }
    }
    if !stuck.is_empty() {
        out.failures.push(format!("C18\tcontention case {} (blocks={}, failing={}): threads {:?} (0,1 writers; 2 reader; 3,4 flush callers) did not finish within {:?}\t-", idx, blocks, failing, stuck, WATCHDOG));
        wl.fail_after.store(0, O::SeqCst);
        std::mem::forget(store);
        return;
    }
    let st = store.clone();
    if !with_watchdog(move || { let _ = st.flush(); }) {
        out.failures.push(format!("C18\tcontention case {}: the final flush() did not return (blocks={}, failing={})\t-", idx, blocks, failing));
        std::mem::forget(store);
        wl.fail_after.store(0, O::SeqCst);
        return;
    }
    let td = Instant::now();
    // (the final flush retries a retryable error 1024 times, each round a journal intent, a failing
    // write and a journal clear: seconds on a loaded machine - three watchdog periods before it counts as stuck)
    let dropper = std::thread::spawn(move || drop(store));
    while !dropper.is_finished() && td.elapsed() < 3 * WATCHDOG { std::thread::sleep(Duration::from_millis(2)); }
    if dropper.is_finished() { let _ = dropper.join(); } else {
        out.failures.push(format!("C18\tcontention case {}: dropping the store did not finish within {:?} (blocks={}, failing={}, failure mode {}, {})\t-", idx, 3 * WATCHDOG, blocks, failing, mode, if transient { "transient" } else { "persistent" }));
    }
    let ms = td.elapsed().as_millis();
    out.count(&format!("contend drop took {}", if ms < 1000 { "< 1 s" } else if ms < 5000 { "1-5 s" } else if ms < 10000 { "5-10 s" } else { "> 10 s" }));
    wl.fail_after.store(0, O::SeqCst);
    out.count("contend case");
    let _ = std::fs::remove_file(&path);
}

// ---------------------------------------------------------------- C20: the in-flight buffer set

/// random call sequences on the real `InFlightBuffers` (drop-recording payloads): protocol-shaped
/// (push all, submit in order with failures, completions incl. duplicates and foreign indices,
/// early drop) and arbitrary ones
fn inflight_run(rng: &mut Rng, out: &mut Out) {
    use feoxdb::storage::io::verif_inflight::Set;
    let cap = rng.range(1, 12) as usize;
    let mut set = Set::new(cap);
    out.emit("ifl new".into(), "ok".into());
    let protocol = rng.chance(2, 3);
    out.count(if protocol { "inflight protocol-shaped" } else { "inflight arbitrary" });
    if protocol {
        for _ in 0..cap { set.push(); out.emit("ifl push".into(), "ok".into()); }
        let mut queued = vec![];
        for i in 0..cap {
            set.mark_in_flight(i);
            out.emit(format!("ifl in {}", i), "ok".into());
            if rng.chance(1, 6) {
                set.mark_unqueued(i);
                out.emit(format!("ifl unq {}", i), "ok".into());
                break;
            }
            queued.push(i);
        }
        // completions: some subset, with duplicates and stray indices; maybe an early drop
        let rounds = rng.range(0, (queued.len() * 2) as u64 + 1);
        for _ in 0..rounds {
            let i = if rng.chance(1, 5) { rng.below(cap as u64 + 2) as usize } else if queued.is_empty() { 0 } else { *rng.pick(&queued) };
            if i >= 128 { continue; }
            let r = set.mark_complete(i);
            out.emit(format!("ifl done {}", i), format!("ok {}", r));
        }
    } else {
        let mut n = 0usize;
        for _ in 0..rng.range(1, 30) {
            match rng.below(4) {
                0 if n < cap => { set.push(); n += 1; out.emit("ifl push".into(), "ok".into()); }
                1 => { let i = rng.below(cap as u64 + 3) as usize; set.mark_in_flight(i); out.emit(format!("ifl in {}", i), "ok".into()); }
                2 => { let i = rng.below(cap as u64 + 3) as usize; set.mark_unqueued(i); out.emit(format!("ifl unq {}", i), "ok".into()); }
                _ => { let i = rng.below(cap as u64 + 3) as usize; let r = set.mark_complete(i); out.emit(format!("ifl done {}", i), format!("ok {}", r)); }
            }
        }
    }
    let rel = set.finish();
    let bits: String = rel.iter().map(|b| if *b { '1' } else { '0' }).collect();
    out.emit("ifl drop".into(), format!("ok {}", bits).trim_end().to_string());
}

// ---------------------------------------------------------------- C08: readers racing with retirement

struct WriteLog {
    enabled: std::sync::atomic::AtomicBool,
    writes: Mutex<Vec<(u64, usize)>>,
    /// retirements postponed because readers were inside the extent: sectors
    blocked: Mutex<Vec<u64>>,
    /// gate: park the thread whose write first touches this extent (sector, blocks);
    /// state 0 = nobody waiting, 1 = a writer is parked at the gate, 2 = released
    gate: Mutex<(Option<(u64, u64)>, u8)>,
    gate_cv: Condvar,
    /// fail every device write / fsync once this many writes have been seen (0 = never)
    fail_after: std::sync::atomic::AtomicU64,
    /// … until this many have been seen (the device recovers)
    fail_until: std::sync::atomic::AtomicU64,
    seen: std::sync::atomic::AtomicU64,
    /// what fails: 0 = every write and fsync; 1 = record-data writes only (journal, markers, metadata
    /// and fsyncs keep working: the device is never poisoned, the error stays retryable); 2 = fsyncs only;
    /// 3 = journal / metadata writes only
    fail_mode: std::sync::atomic::AtomicU64,
}

impl feoxdb::verif::proto::Observer for WriteLog {
    fn event(&self, kind: feoxdb::verif::proto::Kind, a: u64, _b: u64, _key: &[u8], _ts: u64) {
        if kind == feoxdb::verif::proto::Kind::RetireBlocked && self.enabled.load(std::sync::atomic::Ordering::SeqCst) {
            self.blocked.lock().unwrap().push(a);
        }
    }
}

impl feoxdb::verif::io::Observer for WriteLog {
    fn event(&self, kind: feoxdb::verif::io::Kind, _fd: i32, sector: u64, len: usize, data: &[u8]) -> feoxdb::verif::io::Decision {
        use feoxdb::verif::io::Kind as K;
        let fa = self.fail_after.load(std::sync::atomic::Ordering::SeqCst);
        let selected = match self.fail_mode.load(std::sync::atomic::Ordering::SeqCst) {
            1 => kind == K::Write && sector >= 16 && data.len() >= 2 && data[0] == 0xCD && data[1] == 0xAB,
            2 => kind == K::Fsync,
            3 => kind == K::Write && sector < 16,
            _ => matches!(kind, K::Write | K::Fsync),
        };
        if fa > 0 && selected {
            let n = self.seen.fetch_add(1, std::sync::atomic::Ordering::SeqCst);
            if n >= fa && n < self.fail_until.load(std::sync::atomic::Ordering::SeqCst) {
                // a failing device is also a slow one: the caller sits in its I/O (holding whatever
                // it holds) for a while before the error comes back
                // (only in the "everything fails" mode: the selective modes keep the error retryable, and
                // the final flush at shutdown retries 1024 times)
                if self.fail_mode.load(std::sync::atomic::Ordering::SeqCst) == 0 { std::thread::sleep(Duration::from_millis(2)); }
                return feoxdb::verif::io::Decision::FailBefore;
            }
        }
        if self.enabled.load(std::sync::atomic::Ordering::SeqCst) && matches!(kind, K::Write | K::RingWrite) {
            let l = len.max(data.len());
            self.writes.lock().unwrap().push((sector, l));
            let mut g = self.gate.lock().unwrap();
            if let Some((s1, n1)) = g.0 {
                if sector < s1 + n1 && s1 < sector + (l as u64).div_ceil(BS).max(1) {
                    g.0 = None;
                    g.1 = 1;
                    self.gate_cv.notify_all();
                    let t0 = Instant::now();
                    while g.1 != 2 && t0.elapsed() < WATCHDOG {
                        let (ng, _) = self.gate_cv.wait_timeout(g, Duration::from_millis(100)).unwrap();
                        g = ng;
                    }
                    g.1 = 0;
                }
            }
        }
        feoxdb::verif::io::Decision::Proceed
    }
}

/// the standing invariants of a store at rest, at the end of a case (every call returned)
fn report_inv(out: &mut Out, store: &FeoxStore, flushed_path: Option<&str>, ctx: &str) {
    let mut found = feox_verif_harness::inv::quiescent(store);
    if let Some(p) = flushed_path { found.extend(feox_verif_harness::inv::after_flush(store, p)); }
    for f in found.iter().take(2) {
        for p in f.props {
            out.failures.push(format!("{}\t{}: {}\t-", p, ctx, f.what));
        }
    }
}

fn pattern(tag: u8, len: usize) -> Vec<u8> {
    (0..len).map(|i| tag ^ (i as u8).wrapping_mul(31)).collect()
}

fn with_watchdog<F: FnOnce() + Send + 'static>(f: F) -> bool {
    let t0 = Instant::now();
    let j = std::thread::spawn(f);
    while !j.is_finished() && t0.elapsed() < WATCHDOG {
        std::thread::sleep(Duration::from_millis(1));
    }
    if j.is_finished() { let _ = j.join(); true } else { false }
}

/// C13, concurrent clause on the real code: free-running writers against a small memory limit.
/// Every thread owns its keys (the only shared thing is the usage counter and its reservation
/// loop), so each can tell what an admitted or a refused write must have left behind.  A sampler
/// reads `memory_usage()` all the time: no sample may exceed the limit; at the end usage equals
/// the live footprints, which equal what the threads' admitted writes add up to.
fn memrace_case(rng: &mut Rng, out: &mut Out, dir: &str, idx: u64) {
    use std::sync::atomic::{AtomicBool, AtomicUsize, Ordering as O};
    feoxdb::verif::clock::pin(WALL);
    let rs = feoxdb::verif::pure::record_struct_size();
    let threads = rng.range(3, 8) as usize;
    let sizes: [usize; 5] = [8, 90, 700, 2600, 9000];
    // room for a handful of records: the limit is hit all the time
    let limit = rs * rng.range(2, 12) as usize + rng.range(400, 24_000) as usize;
    let persistent = rng.chance(1, 3);
    let path = format!("{}/memrace{}.feox", dir, idx);
    let _ = std::fs::remove_file(&path);
    let mut b = FeoxStore::builder().hash_bits(6).enable_ttl(false).max_memory(limit);
    if persistent { b = b.device_path(path.clone()).file_size(4 << 20).enable_caching(rng.chance(1, 2)); }
    let store = match b.build() { Ok(s) => Arc::new(s), Err(_) => return };
    out.count("memory race case");
    out.count(if persistent { "memory race case: persistent" } else { "memory race case: memory-only" });
    let stop = Arc::new(AtomicBool::new(false));
    let high = Arc::new(AtomicUsize::new(0));
    let sampler = {
        let (st, stop, high) = (store.clone(), stop.clone(), high.clone());
        std::thread::spawn(move || {
            let mut n = 0u64;
            while !stop.load(O::Relaxed) {
                let u = st.memory_usage();
                high.fetch_max(u, O::Relaxed);
                n += 1;
            }
            n
        })
    };
    let barrier = Arc::new(std::sync::Barrier::new(threads));
    let rounds = rng.range(150, 500);
    let handles: Vec<_> = (0..threads).map(|t| {
        let (st, bar) = (store.clone(), barrier.clone());
        let mut r = Rng::new(rng.next());
        let prefix = format!("m{}-{}-", idx, t);
        std::thread::spawn(move || {
            let mut mine: BTreeMap<Vec<u8>, Vec<u8>> = BTreeMap::new();
            let mut bad: Vec<String> = vec![];
            let (mut admitted, mut refused) = (0u64, 0u64);
            bar.wait();
            for round in 0..rounds {
                let key = format!("{}{}", prefix, r.below(5)).into_bytes();
                let before = mine.get(&key).cloned();
                if r.chance(7, 10) {
                    let val = pattern((round as u8) ^ (t as u8), *r.pick(&sizes) + r.below(40) as usize);
                    let res = if r.chance(1, 4) { st.insert_bytes(&key, bytes::Bytes::from(val.clone())) } else { st.insert(&key, &val) };
                    match res {
                        Ok(_) => { admitted += 1; mine.insert(key.clone(), val); }
                        Err(FeoxError::OutOfMemory) => {
                            refused += 1;
                            let now = st.get(&key).ok();
                            if now != before && bad.len() < 2 {
                                bad.push(format!("a write of {} refused for memory changed the key: it held {} bytes before, {} after",
                                    String::from_utf8_lossy(&key), before.as_ref().map(|v| v.len() as i64).unwrap_or(-1), now.as_ref().map(|v| v.len() as i64).unwrap_or(-1)));
                            }
                        }
                        Err(e) => if bad.len() < 2 { bad.push(format!("insert of {} answered {}", String::from_utf8_lossy(&key), err_name(&e))); }
                    }
                } else if r.chance(2, 3) {
                    match st.delete(&key) {
                        Ok(_) => { mine.remove(&key); }
                        Err(FeoxError::KeyNotFound) if before.is_none() => {}
                        Err(e) => if bad.len() < 2 { bad.push(format!("delete of {} (present: {}) answered {}", String::from_utf8_lossy(&key), before.is_some(), err_name(&e))); }
                    }
                } else {
                    let now = st.get(&key).ok();
                    if now != before && bad.len() < 2 {
                        bad.push(format!("get of {} returned {} bytes, its only writer last stored {}", String::from_utf8_lossy(&key),
                            now.as_ref().map(|v| v.len() as i64).unwrap_or(-1), before.as_ref().map(|v| v.len() as i64).unwrap_or(-1)));
                    }
                }
            }
            (mine, bad, admitted, refused)
        })
    }).collect();
    let t0 = Instant::now();
    let mut all: BTreeMap<Vec<u8>, Vec<u8>> = BTreeMap::new();
    let (mut admitted, mut refused) = (0u64, 0u64);
    let mut stuck = false;
    for h in handles {
        while !h.is_finished() && t0.elapsed() < WATCHDOG { std::thread::sleep(Duration::from_millis(1)); }
        if !h.is_finished() { stuck = true; continue; }
        if let Ok((mine, bad, a, r)) = h.join() {
            all.extend(mine);
            admitted += a; refused += r;
            for w in bad { out.failures.push(format!("C13\tmemory race case {} (limit {}, {} writers): {}\t-", idx, limit, threads, w)); }
        }
    }
    stop.store(true, O::Relaxed);
    let samples = sampler.join().unwrap_or(0);
    if stuck {
        out.failures.push(format!("C18\tmemory race case {}: a writer did not finish within {:?}\t-", idx, WATCHDOG));
        std::mem::forget(store);
        return;
    }
    *out.hist.entry("memory race: admitted writes".into()).or_insert(0) += admitted;
    *out.hist.entry("memory race: refused writes".into()).or_insert(0) += refused;
    *out.hist.entry("memory race: usage samples".into()).or_insert(0) += samples;
    let high = high.load(O::Relaxed);
    if high > limit {
        out.failures.push(format!("C13\tmemory race case {}: memory_usage() was seen at {} while {} writers ran, the limit is {}\t-", idx, high, threads, limit));
    }
    if persistent { let _ = store.flush(); }
    let usage = store.memory_usage();
    let want: usize = all.iter().map(|(k, v)| rs + k.len() + v.len()).sum();
    if usage > limit {
        out.failures.push(format!("C13\tmemory race case {}: after the writers finished memory_usage() = {} is above the limit {}\t-", idx, usage, limit));
    }
    if usage != want || store.len() != all.len() {
        out.failures.push(format!("C13\tmemory race case {}: after the writers finished memory_usage() = {}, len() = {}; the admitted writes left {} records that add up to {} (limit {})\t-",
            idx, usage, store.len(), all.len(), want, limit));
    }
    report_inv(out, &store, None, "memory race case");
    drop(store);
    let _ = std::fs::remove_file(&path);
}

/// free-running reads of keys at the very moment the write-behind flush publishes them (stores the sector, drops the
/// resident bytes): every value a reader gets must be one written for its key - the bytes say which key they belong to.
/// Doubles as the AddressSanitizer workload for the record's value slot.
fn readflush_case(rng: &mut Rng, out: &mut Out, dir: &str, idx: u64) {
    use std::sync::atomic::{AtomicBool, AtomicU64, Ordering as O};
    feoxdb::verif::clock::unpin();
    let path = format!("{}/readflush{}.feox", dir, idx);
    let _ = std::fs::remove_file(&path);
    let cache = rng.chance(1, 3);
    let store = match FeoxStore::builder().hash_bits(6).enable_ttl(false).no_memory_limit()
        .device_path(path.clone()).file_size(16 << 20).enable_caching(cache).build() {
        Ok(s) => Arc::new(s),
        Err(_) => return,
    };
    out.count("read / flush case");
    let nkeys = rng.range(4, 8) as usize;
    let keys: Vec<Vec<u8>> = (0..nkeys).map(|i| format!("rf{}-{}", idx, i).into_bytes()).collect();
    let sizes = [40usize, 300, 2000, 6000];
    for (i, k) in keys.iter().enumerate() { let _ = store.insert(k, &pattern(0x30 + i as u8, sizes[i % 4])); }
    let stop = Arc::new(AtomicBool::new(false));
    let reads = Arc::new(AtomicU64::new(0));
    let bad: Arc<Mutex<Vec<String>>> = Arc::new(Mutex::new(vec![]));
    let readers: Vec<_> = (0..nkeys).map(|i| {
        let (st, k, stop, reads, bad) = (store.clone(), keys[i].clone(), stop.clone(), reads.clone(), bad.clone());
        let tag = 0x30 + i as u8;
        std::thread::spawn(move || {
            let mut n = 0u64;
            while !stop.load(O::Relaxed) {
                let got: Option<Vec<u8>> = match n % 3 {
                    0 => st.get_bytes(&k).ok().map(|b| b.to_vec()),
                    1 => st.get(&k).ok(),
                    _ => st.range_query(&k, &k, 1).ok().and_then(|mut r| r.pop().map(|x| x.1)),
                };
                n += 1;
                if let Some(v) = got {
                    if v.is_empty() || v.iter().enumerate().any(|(j, b)| *b != tag ^ (j as u8).wrapping_mul(31)) {
                        let mut g = bad.lock().unwrap();
                        if g.len() < 2 { g.push(format!("a read of {} racing with the flush of that key returned {} bytes that are not a value written for it (first byte {:02x}, its values start with {:02x})", String::from_utf8_lossy(&k), v.len(), v.first().copied().unwrap_or(0), tag)); }
                    }
                }
            }
            reads.fetch_add(n, O::Relaxed);
        })
    }).collect();
    let rounds = rng.range(200, 500);
    // the writer runs under the watchdog: a store whose insert or flush stops returning must not leave the readers spinning
    let writer = {
        let (st, keys) = (store.clone(), keys.clone());
        std::thread::spawn(move || {
            let t0 = Instant::now();
            for r in 0..rounds {
                for (i, k) in keys.iter().enumerate() {
                    let len = sizes[(i + r as usize) % 4] + (r as usize % 17);
                    let _ = st.insert(k, &pattern(0x30 + i as u8, len));
                }
                let _ = st.flush();
                // (several harness processes run side by side, each with its spinning readers: the case is bounded by time)
                if t0.elapsed() > Duration::from_millis(600) { break; }
            }
        })
    };
    let tw = Instant::now();
    while !writer.is_finished() && tw.elapsed() < WATCHDOG { std::thread::sleep(Duration::from_millis(2)); }
    let writer_stuck = !writer.is_finished();
    stop.store(true, O::Relaxed);
    let tr = Instant::now();
    let mut reader_stuck = false;
    for h in readers {
        while !h.is_finished() && tr.elapsed() < WATCHDOG { std::thread::sleep(Duration::from_millis(1)); }
        if h.is_finished() { let _ = h.join(); } else { reader_stuck = true; }
    }
    if reader_stuck {
        out.failures.push(format!("C18\tread / flush case {}: a read racing with the flush of its key did not return within {:?}\t-", idx, WATCHDOG));
        std::mem::forget(store);
        return;
    }
    *out.hist.entry("read / flush: racing reads".into()).or_insert(0) += reads.load(O::Relaxed);
    for b in bad.lock().unwrap().iter() {
        out.failures.push(format!("C20\tread / flush case {}: {}\t-", idx, b));
        out.failures.push(format!("C08\tread / flush case {}: {}\t-", idx, b));
    }
    if writer_stuck {
        out.failures.push(format!("C18\tread / flush case {}: insert() / flush() of keys that are being read did not return within {:?}\t-", idx, WATCHDOG));
        std::mem::forget(store);
        return;
    }
    report_inv(out, &store, None, "after a read / flush case");
    let st = store.clone();
    drop(store);
    let _ = with_watchdog(move || drop(st));
    let _ = std::fs::remove_file(&path);
}

/// the direct-I/O code paths of `DiskIO` (block-aligned `AlignedBuffer`s handed to pread / pwrite): the store never
/// takes them in this sandbox (`/.dockerenv` makes it open without O_DIRECT), but `DiskIO::new(file, true)` selects
/// them on an ordinary descriptor.  The same random sequence of sector writes, batch writes and reads is applied to a
/// buffered and to a direct `DiskIO` over two files: every read and the final bytes must agree.  (The run is part
/// of the AddressSanitizer workload: the aligned allocations are made, filled, read and released here.)
fn directio_case(rng: &mut Rng, out: &mut Out, dir: &str, idx: u64) {
    use feoxdb::storage::io::DiskIO;
    let blocks = rng.range(24, 96) as usize;
    let mk = |name: &str| -> Option<(String, Arc<std::fs::File>)> {
        let p = format!("{}/directio{}_{}.bin", dir, idx, name);
        let _ = std::fs::remove_file(&p);
        let f = std::fs::OpenOptions::new().read(true).write(true).create(true).open(&p).ok()?;
        f.set_len(blocks as u64 * BS).ok()?;
        Some((p, Arc::new(f)))
    };
    let (Some((pa, fa)), Some((pb, fb))) = (mk("buffered"), mk("direct")) else { return };
    let (Ok(mut a), Ok(mut b)) = (DiskIO::new(fa, false), DiskIO::new(fb, true)) else { return };
    let mut bad: Option<String> = None;
    for step in 0..rng.range(20, 120) {
        let sector = rng.below(blocks as u64 - 1);
        let n = rng.range(1, (blocks as u64 - sector).min(5)) as usize;
        match rng.below(4) {
            0 => {
                let data = rng.bytes(n * BS as usize);
                let (ra, rb) = (a.write_sectors_sync(sector, &data), b.write_sectors_sync(sector, &data));
                if ra.is_ok() != rb.is_ok() && bad.is_none() { bad = Some(format!("step {}: write_sectors_sync({}, {} blocks): buffered {:?}, direct {:?}", step, sector, n, ra.is_ok(), rb.is_ok())); }
            }
            1 => {
                let mut ws: Vec<(u64, Vec<u8>)> = vec![];
                let mut at = sector;
                for _ in 0..rng.range(1, 4) {
                    if at + 1 >= blocks as u64 { break; }
                    let m = rng.range(1, (blocks as u64 - at).min(3)) as usize;
                    ws.push((at, rng.bytes(m * BS as usize)));
                    at += m as u64 + rng.below(2);
                }
                let (ra, rb) = (a.batch_write(ws.clone()), b.batch_write(ws));
                if ra.is_ok() != rb.is_ok() && bad.is_none() { bad = Some(format!("step {}: batch_write at {}: buffered {:?}, direct {:?}", step, sector, ra.is_ok(), rb.is_ok())); }
            }
            _ => {
                let (ra, rb) = (a.read_sectors_sync(sector, n as u64), b.read_sectors_sync(sector, n as u64));
                match (ra, rb) {
                    (Ok(x), Ok(y)) => { if x != y && bad.is_none() { bad = Some(format!("step {}: read_sectors_sync({}, {}) differs between the buffered and the direct path ({} vs {} bytes)", step, sector, n, x.len(), y.len())); } }
                    (x, y) => { if x.is_ok() != y.is_ok() && bad.is_none() { bad = Some(format!("step {}: read_sectors_sync({}, {}): buffered ok={}, direct ok={}", step, sector, n, x.is_ok(), y.is_ok())); } }
                }
            }
        }
    }
    let _ = a.flush();
    let _ = b.flush();
    a.shutdown();
    b.shutdown();
    drop(a);
    drop(b);
    if bad.is_none() && std::fs::read(&pa).ok() != std::fs::read(&pb).ok() { bad = Some("the files written through the buffered and through the direct path differ".into()); }
    out.count("directio case");
    if let Some(b) = bad { out.failures.push(format!("C20\tdirect-I/O paths of DiskIO vs the buffered ones: {}\t-", b)); }
    let _ = std::fs::remove_file(&pa);
    let _ = std::fs::remove_file(&pb);
}

/// TTL-only renewals of an offloaded key while the flush of the previous renewal is in flight: the worker is
/// stopped inside its first data-area write (the record of the first renewal), the key's TTL is changed again, the
/// worker is let go, and everything is flushed.  The key was never rewritten by anybody: at rest it must read its
/// own bytes - no StaleExtent, no missing key in a range query - and flush() must say Ok.
fn ttl_chain_case(rng: &mut Rng, out: &mut Out, wl: &Arc<WriteLog>, dir: &str, idx: u64) {
    use std::sync::atomic::Ordering as O;
    feoxdb::verif::clock::unpin();
    let blocks = rng.range(40, 80);
    let path = format!("{}/ttlchain{}.feox", dir, idx);
    let _ = std::fs::remove_file(&path);
    let cache = rng.chance(1, 3);
    let store = match FeoxStore::builder().hash_bits(6).enable_ttl(true).no_memory_limit()
        .device_path(path.clone()).file_size(blocks * BS).enable_caching(cache).build() {
        Ok(s) => Arc::new(s),
        Err(_) => return,
    };
    let key = format!("renewed-{}", idx).into_bytes();
    let v = pattern(0x3C, *rng.pick(&[200usize, 3000, 9000]));
    if store.insert_with_ttl(&key, &v, 3600).is_err() || store.flush().is_err() { return; }
    if store.verif_snapshot().iter().find(|r| r.key == key).map(|r| r.sector == 0 || r.resident).unwrap_or(true) {
        out.count("ttl chain skipped (value still resident)");
        return;
    }
    let renewals = rng.range(2, 4);
    wl.writes.lock().unwrap().clear();
    wl.enabled.store(true, O::SeqCst);
    let mut bad: Option<String> = None;
    if store.update_ttl(&key, 7200).is_err() { wl.enabled.store(false, O::SeqCst); return; }
    for r in 1..renewals {
        // the worker stops at its first write into the data area
        *wl.gate.lock().unwrap() = (Some((16, blocks)), 0);
        let st = store.clone();
        let fl = std::thread::spawn(move || st.flush().is_ok());
        let t0 = Instant::now();
        let mut at_gate = false;
        while t0.elapsed() < Duration::from_secs(3) {
            if wl.gate.lock().unwrap().1 == 1 { at_gate = true; break; }
            if fl.is_finished() { break; }
            std::thread::sleep(Duration::from_millis(1));
        }
        if at_gate { out.count("ttl chain: renewal while the previous one is being written"); }
        let _ = store.update_ttl(&key, 7200 + 100 * r);
        {
            let mut g = wl.gate.lock().unwrap();
            g.0 = None;
            g.1 = 2;
            wl.gate_cv.notify_all();
        }
        let t1 = Instant::now();
        while !fl.is_finished() && t1.elapsed() < WATCHDOG { std::thread::sleep(Duration::from_millis(1)); }
        if !fl.is_finished() {
            wl.enabled.store(false, O::SeqCst);
            out.failures.push("C18\tflush() of a TTL-only generation did not return after the worker was released\t-".into());
            return;
        }
        let _ = fl.join();
        wl.gate.lock().unwrap().1 = 0;
    }
    wl.enabled.store(false, O::SeqCst);
    // at rest
    let st = store.clone();
    let (tx, rx) = std::sync::mpsc::channel();
    let fl = std::thread::spawn(move || { let a = st.flush().map_err(|e| err_name(&e).to_string()); let b = st.flush().map_err(|e| err_name(&e).to_string()); let _ = tx.send((a, b)); });
    match rx.recv_timeout(WATCHDOG) {
        Err(_) => { out.failures.push("C18\tflush() after TTL renewals did not return\t-".into()); return; }
        Ok((_, second)) => {
            let _ = fl.join();
            if let Err(e) = second { bad = Some(format!("the key is at rest, yet flush() = Err({})", e)); }
        }
    }
    match store.get(&key) {
        Ok(got) if got == v => {}
        Ok(got) => { bad = bad.or(Some(format!("get() returns {} bytes that are not the key's value", got.len()))); }
        Err(e) => { bad = bad.or(Some(format!("get() = Err({}) for a key that nobody is rewriting", err_name(&e)))); }
    }
    if bad.is_none() && !store.range_query(b"renewed-", b"renewed-~", 10).map(|r| r.iter().any(|x| x.0 == key)).unwrap_or(false) {
        bad = Some("range_query does not list the key".into());
    }
    out.count("ttl chain case");
    report_inv(out, &store, None, "after TTL renewals racing with their own flushes");
    if let Some(b) = bad {
        out.failures.push(format!("C08\t{} TTL-only renewals of an offloaded key, each issued while the flush of the previous one was in flight (cache {}): {}\t-", renewals, if cache { "on" } else { "off" }, b));
        out.failures.push(format!("C11\t{} TTL-only renewals of an offloaded key, each issued while the flush of the previous one was in flight: {}\t-", renewals, b));
    }
    let st = store.clone();
    drop(store);
    if !with_watchdog(move || drop(st)) { out.failures.push("C18\tdrop of the store after TTL renewals did not return\t-".into()); }
    let _ = std::fs::remove_file(&path);
}

/// the version clock under contention: one key takes explicit timestamps ahead of the wall clock while other
/// threads make automatic writes to *other* keys of the same clock shard (found through the hook).  An accepted
/// explicit timestamp must be in the shard clock when the call returns, so the key's next automatic write is never
/// refused as older - whoever else moved the shard meanwhile.
fn clockrace_case(rng: &mut Rng, out: &mut Out, idx: u64) {
    use std::sync::atomic::{AtomicBool, Ordering as O};
    feoxdb::verif::clock::unpin();
    let store = match FeoxStore::builder().hash_bits(8).no_memory_limit().build() { Ok(s) => Arc::new(s), Err(_) => return };
    let subject = format!("clk{}-subject", idx).into_bytes();
    let shard = store.verif_clock_shard(&subject);
    let mut mates: Vec<Vec<u8>> = vec![];
    let mut i = 0u64;
    while mates.len() < 4 && i < 100_000 {
        let k = format!("clk{}-m{}", idx, i).into_bytes();
        if store.verif_clock_shard(&k) == shard { mates.push(k); }
        i += 1;
    }
    if mates.len() < 2 { return; }
    let stop = Arc::new(AtomicBool::new(false));
    let mut hs = vec![];
    for m in mates.iter().cloned() {
        let (st, stop) = (store.clone(), stop.clone());
        hs.push(std::thread::spawn(move || { let mut n = 0u64; while !stop.load(O::Relaxed) { let _ = st.insert(&m, &n.to_le_bytes()); n += 1; } }));
    }
    let mut bad: Option<String> = None;
    let rounds = rng.range(2000, 6000);
    let base = std::time::SystemTime::now().duration_since(std::time::UNIX_EPOCH).unwrap().as_nanos() as u64;
    for r in 0..rounds {
        // a future timestamp, further ahead every round
        let f = base + 3_600_000_000_000 + r * 1_000_000;
        match store.insert_with_timestamp(&subject, b"explicit", Some(f)) {
            Ok(_) => {
                let clock = store.verif_clock_value(shard);
                if clock < f && bad.is_none() {
                    bad = Some(format!("round {}: the explicit timestamp {} was accepted for the key, but its clock shard stands at {} when the call has returned", r, f, clock));
                }
                if let Err(feoxdb::FeoxError::OlderTimestamp) = store.insert(&subject, b"automatic") {
                    if bad.is_none() { bad = Some(format!("round {}: after the accepted explicit timestamp {} the key's next automatic write is refused as older (no other writer of this key)", r, f)); }
                }
            }
            Err(_) => {}
        }
        if bad.is_some() { break; }
    }
    stop.store(true, O::Relaxed);
    for h in hs { let _ = h.join(); }
    out.count("clockrace case");
    if let Some(b) = bad { out.failures.push(format!("C12\tversion clock under contention ({} other keys of the same clock shard written automatically by other threads): {}\t-", mates.len(), b)); }
}

/// flush() while writers replace the same keys as fast as they can: a flush concerns what was accepted before it
/// was called, so it has to return in bounded time however many writes follow.  Two writers run flat out for a few
/// seconds, a few callers call flush() in a loop; reported: a flush() call that did not return for as long as the
/// writers ran.  (Known finding F8: on the pinned tree `force_flush` starts another round whenever a retirement had
/// to be postponed because its successor is not durable yet - with writers that outpace the device that is always.)
fn flushstorm_case(rng: &mut Rng, out: &mut Out, dir: &str, idx: u64) {
    use std::sync::atomic::{AtomicBool, AtomicU64, Ordering as O};
    feoxdb::verif::clock::unpin();
    let path = format!("{}/flushstorm{}.feox", dir, idx);
    let _ = std::fs::remove_file(&path);
    let store = match FeoxStore::builder().hash_bits(8).no_memory_limit().device_path(path.clone()).file_size(16384 * BS).enable_caching(false).build() {
        Ok(s) => Arc::new(s), Err(_) => return };
    let storm = Duration::from_millis(rng.range(2500, 3500));
    let stop = Arc::new(AtomicBool::new(false));
    let maxlat = Arc::new(AtomicU64::new(0));
    let done = Arc::new(AtomicU64::new(0));
    let mut hs = vec![];
    for w in 0..2u64 {
        let (st, stop) = (store.clone(), stop.clone());
        hs.push(std::thread::spawn(move || { let mut n = 0u64; while !stop.load(O::Relaxed) { let k = format!("fs{}", (n * 7 + w) % 200); let _ = st.insert(k.as_bytes(), &n.to_le_bytes().repeat(20)); n += 1; } }));
    }
    let mut fl = vec![];
    for _ in 0..rng.range(2, 4) {
        let (st, stop, maxlat, done) = (store.clone(), stop.clone(), maxlat.clone(), done.clone());
        fl.push(std::thread::spawn(move || { while !stop.load(O::Relaxed) { let t = Instant::now(); let _ = st.flush(); maxlat.fetch_max(t.elapsed().as_millis() as u64, O::Relaxed); done.fetch_add(1, O::Relaxed); } }));
    }
    std::thread::sleep(storm);
    let completed_during = done.load(O::Relaxed);
    stop.store(true, O::Relaxed);
    let t0 = Instant::now();
    let mut stuck = false;
    for h in hs.into_iter().chain(fl.into_iter()) {
        while !h.is_finished() && t0.elapsed() < WATCHDOG * 3 { std::thread::sleep(Duration::from_millis(2)); }
        if h.is_finished() { let _ = h.join(); } else { stuck = true; }
    }
    out.count("flushstorm case");
    let worst = maxlat.load(O::Relaxed);
    if stuck {
        out.failures.push(format!("C18\tflush() under saturating replacement of the same keys: a flush() call had still not returned {} s after the writers stopped\t-", (WATCHDOG * 3).as_secs()));
        return;
    }
    if worst + 300 >= storm.as_millis() as u64 {
        out.failures.push(format!("C18\tflush() under saturating replacement of the same keys: a flush() call did not return for the {} ms two writers kept replacing 200 keys ({} flush calls completed meanwhile; it returned {} ms after they stopped)\t-", storm.as_millis(), completed_during, t0.elapsed().as_millis()));
    }
    let st = store.clone();
    drop(store);
    if !with_watchdog(move || drop(st)) { out.failures.push("C18\tdrop of the store after a flush storm did not return\t-".into()); }
    let _ = std::fs::remove_file(&path);
}

/// many callers of `flush()` at once (each after writing a fresh key), for a number of rounds: requests and answers
/// travel between callers and flush workers over bounded channels - every caller must come back.
fn manyflush_case(rng: &mut Rng, out: &mut Out, dir: &str, idx: u64) {
    use std::sync::atomic::{AtomicU64, Ordering as O};
    feoxdb::verif::clock::unpin();
    let path = format!("{}/manyflush{}.feox", dir, idx);
    let _ = std::fs::remove_file(&path);
    let store = match FeoxStore::builder().hash_bits(8).no_memory_limit().device_path(path.clone()).file_size(8192 * BS).enable_caching(false).build() {
        Ok(s) => Arc::new(s), Err(_) => return };
    let callers = rng.range(6, 16);
    let rounds = rng.range(40, 120);
    let done = Arc::new(AtomicU64::new(0));
    let mut hs = vec![];
    for t in 0..callers {
        let (st, done) = (store.clone(), done.clone());
        hs.push(std::thread::spawn(move || { for r in 0..rounds { let _ = st.insert(format!("mf{}-{}-{}", idx, t, r).as_bytes(), &[t as u8; 64]); let _ = st.flush(); } done.fetch_add(1, O::SeqCst); }));
    }
    let t0 = Instant::now();
    while done.load(O::SeqCst) < callers && t0.elapsed() < WATCHDOG { std::thread::sleep(Duration::from_millis(2)); }
    out.count("manyflush case");
    if done.load(O::SeqCst) < callers {
        out.failures.push(format!("C18\t{} threads calling flush() at once ({} rounds each, every one after writing a fresh key): {} of them had not come back after {} s\t-", callers, rounds, callers - done.load(O::SeqCst), WATCHDOG.as_secs()));
        return; // the stuck threads cannot be cleaned up
    }
    for h in hs { let _ = h.join(); }
    let st = store.clone();
    drop(store);
    if !with_watchdog(move || drop(st)) { out.failures.push("C18\tdrop of the store after concurrent flush callers did not return\t-".into()); }
    let _ = std::fs::remove_file(&path);
}

/// the live io_uring path with a device that rejects writes: the store is opened with the ring enabled (every
/// other case forces the synchronous path for determinism), then the file-size limit of the process is lowered so
/// that ring writes past it complete with EFBIG.  flush(), reads and drop must all return; with room again a
/// further flush and the drop must return too.  (Where the sandbox has no io_uring the store falls back to the
/// synchronous path by itself and the case exercises that.)
fn ring_case(rng: &mut Rng, out: &mut Out, dir: &str, idx: u64) {
    feoxdb::verif::clock::unpin();
    let path = format!("{}/ring{}.feox", dir, idx);
    let _ = std::fs::remove_file(&path);
    unsafe { libc::signal(libc::SIGXFSZ, libc::SIG_IGN); }
    feoxdb::verif::io::disable_ring(false);
    let built = FeoxStore::builder().device_path(path.clone()).file_size(2048 * BS).hash_bits(8).enable_caching(rng.chance(1, 2)).no_memory_limit().build();
    feoxdb::verif::io::disable_ring(true);
    let store = match built { Ok(s) => Arc::new(s), Err(_) => return };
    for i in 0..rng.range(2, 10) { let _ = store.insert(format!("pre{:03}", i).as_bytes(), &pattern(i as u8, 900)); }
    let st = store.clone();
    if !with_watchdog(move || { let _ = st.flush(); }) {
        out.failures.push("C18\tring case: flush() on a healthy device (io_uring path) did not return\t-".into());
        return;
    }
    let mut old = libc::rlimit { rlim_cur: 0, rlim_max: 0 };
    unsafe { libc::getrlimit(libc::RLIMIT_FSIZE, &mut old); }
    let cut = (16 + rng.range(6, 60)) * BS as u64;
    let low = libc::rlimit { rlim_cur: cut, rlim_max: old.rlim_max };
    unsafe { libc::setrlimit(libc::RLIMIT_FSIZE, &low); }
    let n = rng.range(80, 400);
    let vl = *rng.pick(&[700usize, 3000, 5000]);
    for i in 0..n { let _ = store.insert(format!("rk{:04}", i).as_bytes(), &pattern(i as u8, vl)); }
    let st = store.clone();
    let flushed = with_watchdog(move || { let _ = st.flush(); });
    let st = store.clone();
    let read = flushed && with_watchdog(move || { for i in 0..n { let _ = st.get(format!("rk{:04}", i).as_bytes()); } let _ = st.range_query(b"rk", b"rl", 50); });
    unsafe { libc::setrlimit(libc::RLIMIT_FSIZE, &old); }
    out.count("ring case");
    if !flushed {
        out.failures.push(format!("C18\tring case: flush() did not return within {} s after device writes past byte {} were rejected (EFBIG) on the live write path ({} keys of {} bytes buffered)\t-", WATCHDOG.as_secs(), cut, n, vl));
        return;
    }
    if !read {
        out.failures.push(format!("C18\tring case: reads did not return within {} s after a flush whose device writes past byte {} were rejected\t-", WATCHDOG.as_secs(), cut));
        return;
    }
    let st = store.clone();
    if !with_watchdog(move || { let _ = st.flush(); }) {
        out.failures.push("C18\tring case: flush() did not return once the device accepted writes again\t-".into());
        return;
    }
    let st = store.clone();
    drop(store);
    if !with_watchdog(move || drop(st)) { out.failures.push("C18\tring case: drop of the store did not return after rejected device writes\t-".into()); return; }
    let _ = std::fs::remove_file(&path);
}

/// free-running: the background sweeper working through a large batch of expired keys while writers
/// re-create each key (without a TTL) the moment it is gone.  A re-created key's latest generation has no
/// expiry: every read path must show it afterwards, and the two indexes must name the same keys.  (The hooked
/// sweeper case parks the sweeper *before* its guarded removal; whatever it does after the guard is only
/// reachable free-running.)
fn sweeprace_case(rng: &mut Rng, out: &mut Out, dir: &str, idx: u64) {
    use std::sync::atomic::{AtomicBool, AtomicU64, Ordering as O};
    feoxdb::verif::clock::unpin();
    let mem = rng.chance(2, 3);
    let path = format!("{}/sweeprace{}.feox", dir, idx);
    let store = {
        let mut b = FeoxStore::builder().hash_bits(10).enable_ttl(true).no_memory_limit();
        if !mem {
            let _ = std::fs::remove_file(&path);
            b = b.device_path(path.clone()).file_size(4096 * BS).enable_caching(rng.chance(1, 2));
        }
        match b.build() { Ok(s) => Arc::new(s), Err(_) => return }
    };
    let nkeys = if mem { rng.range(20_000, 60_000) } else { rng.range(1_500, 3_000) } as usize;
    let keys: Arc<Vec<Vec<u8>>> = Arc::new((0..nkeys).map(|i| format!("sw{:07}", i).into_bytes()).collect());
    // explicit timestamps near the epoch: every record is past its expiry the moment it is written
    for (i, k) in keys.iter().enumerate() {
        let _ = store.insert_with_ttl_and_timestamp(k, b"old", 1, Some(1_000 + i as u64));
    }
    store.start_ttl_sweeper(Some(feoxdb::core::ttl_sweep::TtlConfig {
        sample_size: nkeys, expiry_threshold: 0.25, max_iterations: 16, max_time_per_run: Duration::from_secs(1),
        sleep_interval: Duration::from_millis(20), enabled: true,
    }));
    let stop = Arc::new(AtomicBool::new(false));
    let done = Arc::new(AtomicU64::new(0));
    let nthreads = rng.range(1, 3) as usize;
    let mut hs = vec![];
    for t in 0..nthreads {
        let (st, keys, stop, done) = (store.clone(), keys.clone(), stop.clone(), done.clone());
        hs.push(std::thread::spawn(move || {
            let mine: Vec<usize> = (0..keys.len()).filter(|i| i % nthreads == t).collect();
            let mut re = vec![false; mine.len()];
            let mut left = mine.len();
            while left > 0 && !stop.load(O::Relaxed) {
                for (j, i) in mine.iter().enumerate() {
                    if !re[j] && !st.contains_key(&keys[*i]) {
                        if st.insert(&keys[*i], b"new").is_ok() { re[j] = true; left -= 1; done.fetch_add(1, O::Relaxed); }
                    }
                }
            }
            (mine, re)
        }));
    }
    let t0 = Instant::now();
    while done.load(O::Relaxed) < nkeys as u64 && t0.elapsed() < Duration::from_secs(6) { std::thread::sleep(Duration::from_millis(5)); }
    stop.store(true, O::Relaxed);
    let mut recreated: Vec<usize> = vec![];
    for h in hs {
        let t1 = Instant::now();
        while !h.is_finished() && t1.elapsed() < WATCHDOG { std::thread::sleep(Duration::from_millis(1)); }
        if !h.is_finished() { out.failures.push("C18\ta writer following the sweeper did not finish\t-".into()); return; }
        match h.join() {
            Ok((mine, re)) => recreated.extend(mine.iter().zip(re.iter()).filter(|(_, r)| **r).map(|(i, _)| *i)),
            Err(_) => { out.failures.push("C11\tsweeper racing with re-creating writers: a writer panicked inside the store\t-".into()); }
        }
    }
    // let the sweeper finish the run it is in and go through one more, idle, cycle
    std::thread::sleep(Duration::from_millis(400));
    let listed: std::collections::HashSet<Vec<u8>> = store.range_query(b"sw", b"sx", nkeys + 16).map(|r| r.into_iter().map(|x| x.0).collect()).unwrap_or_default();
    let mut bad: Option<String> = None;
    let mut hidden = 0usize;
    for i in &recreated {
        let k = &keys[*i];
        match store.get(k) {
            Ok(v) if v == b"new" => {}
            other_ => { if bad.is_none() { bad = Some(format!("key {} was re-created without a TTL after the sweeper removed its expired generation, but get() answers {:?}", String::from_utf8_lossy(k), other_.map(|v| v.len()))); } }
        }
        if !listed.contains(k) { hidden += 1; }
    }
    if hidden > 0 && bad.is_none() {
        bad = Some(format!("{} of {} keys that were re-created without a TTL while the sweeper was working through their batch are returned by get() but missing from range_query", hidden, recreated.len()));
    }
    out.count("sweeprace case");
    out.count(&format!("sweeprace {}", if mem { "memory-only" } else { "persistent" }));
    *out.hist.entry("sweeprace keys re-created".into()).or_insert(0) += recreated.len() as u64;
    // the standing invariants read the two indexes one after the other: only when nothing is left for the (still
    // running) sweeper to remove is the store at rest
    if recreated.len() == nkeys { report_inv(out, &store, None, "after the sweeper raced with re-creating writers"); }
    else { out.count("sweeprace: deadline reached before every key was re-created (standing invariants not evaluated)"); }
    if let Some(b) = bad {
        out.failures.push(format!("C11\tsweeper racing with re-creating writers ({}): {}\t-", if mem { "memory-only" } else { "persistent" }, b));
        out.failures.push(format!("C14\tsweeper racing with re-creating writers ({}): {}\t-", if mem { "memory-only" } else { "persistent" }, b));
    }
    let st = store.clone();
    drop(store);
    if !with_watchdog(move || drop(st)) { out.failures.push("C18\tdrop of the store after a sweeper race did not return\t-".into()); }
    let _ = std::fs::remove_file(&path);
}

/// free-running: range scans and reads racing with every kind of update of the scanned keys
/// (overwrite, CAS, increment-free: values are self-describing `<id>|<writer>|<round>|padding`),
/// deletes and re-creations.  Every value a scan or a get returns must be one that was written
/// for that very key; the run doubles as the AddressSanitizer workload for the epoch-protected
/// index slots.
fn scanrace_case(rng: &mut Rng, out: &mut Out, dir: &str, idx: u64) {
    use std::sync::atomic::{AtomicBool, AtomicU64, Ordering as O};
    feoxdb::verif::clock::unpin();
    let cfg = Config { mem: rng.chance(2, 3), cache: rng.chance(1, 2) };
    let path = format!("{}/scanrace{}.feox", dir, idx);
    let ttl = rng.chance(1, 3);
    let store = {
        let mut b = FeoxStore::builder().hash_bits(6).enable_ttl(ttl).no_memory_limit();
        if !cfg.mem {
            let _ = std::fs::remove_file(&path);
            b = b.device_path(path.clone()).file_size(256 * BS).enable_caching(cfg.cache);
        }
        match b.build() { Ok(s) => Arc::new(s), Err(_) => return }
    };
    // with TTL on, the background sweeper runs as well (and has to stop when the store is dropped)
    if ttl && rng.chance(2, 3) { store.start_ttl_sweeper(None); out.count("scanrace with the background sweeper running"); }
    let nkeys = rng.range(2, 12);
    let key = |id: u64| format!("sr{:03}", id).into_bytes();
    let val = |id: u64, w: u64, round: u64, pad: usize| { let mut v = format!("{}|{}|{}|", id, w, round).into_bytes(); v.resize(v.len() + pad, b'.'); v };
    for id in 0..nkeys { let _ = store.insert(&key(id), &val(id, 9, 0, 8)); }
    let stop = Arc::new(AtomicBool::new(false));
    let bad: Arc<Mutex<Vec<String>>> = Arc::new(Mutex::new(vec![]));
    let scans = Arc::new(AtomicU64::new(0));
    let updates = Arc::new(AtomicU64::new(0));
    let mut hs = vec![];
    for w in 0..rng.range(1, 3) {
        let (st, stop, updates) = (store.clone(), stop.clone(), updates.clone());
        let mut r = Rng::new(rng.next() ^ (w + 1));
        hs.push(std::thread::spawn(move || {
            let mut round = 1u64;
            while !stop.load(O::Relaxed) {
                let id = r.below(nkeys);
                let k = format!("sr{:03}", id).into_bytes();
                let mut v = format!("{}|{}|{}|", id, w, round).into_bytes();
                let pad = *r.pick(&[0usize, 8, 40, 300]);
                v.resize(v.len() + pad, b'.');
                match r.below(10) {
                    0 | 4 => { let _ = st.delete(&k); }
                    1 => { if let Ok(cur) = st.get(&k) { let _ = st.compare_and_swap(&k, &cur, &v); } }
                    5 | 6 => { let _ = st.insert_bytes(&k, bytes::Bytes::from(v)); }
                    2 if ttl => { let _ = st.insert_with_ttl(&k, &v, 3600); }
                    3 if ttl => { let _ = st.update_ttl(&k, 1800); }
                    _ => { let _ = st.insert(&k, &v); }
                }
                round += 1;
                updates.fetch_add(1, O::Relaxed);
            }
        }));
    }
    for _ in 0..rng.range(1, 3) {
        let (st, stop, bad, scans) = (store.clone(), stop.clone(), bad.clone(), scans.clone());
        let mut r = Rng::new(rng.next());
        hs.push(std::thread::spawn(move || {
            let genuine = |k: &[u8], v: &[u8]| -> bool {
                let id: u64 = match std::str::from_utf8(&k[2..]).ok().and_then(|x| x.parse().ok()) { Some(i) => i, None => return false };
                v.starts_with(format!("{}|", id).as_bytes()) && v.iter().filter(|c| **c == b'|').count() == 3
            };
            while !stop.load(O::Relaxed) {
                if r.chance(3, 4) {
                    match st.range_query(b"sr", b"ss", *r.pick(&[1usize, 3, 100])) {
                        Ok(rows) => {
                            for w in rows.windows(2) { if w[0].0 >= w[1].0 { bad.lock().unwrap().push(format!("range result not strictly ascending: {} then {}", hex(&w[0].0), hex(&w[1].0))); } }
                            for (k, v) in &rows { if !genuine(k, v) { bad.lock().unwrap().push(format!("range_query returned for key {} a value that was never written for it: {}", String::from_utf8_lossy(k), String::from_utf8_lossy(&v[..v.len().min(40)]))); } }
                        }
                        Err(e) => bad.lock().unwrap().push(format!("range_query failed: {:?}", e)),
                    }
                } else {
                    let id = r.below(nkeys);
                    let k = format!("sr{:03}", id).into_bytes();
                    if let Ok(v) = st.get(&k) { if !genuine(&k, &v) { bad.lock().unwrap().push(format!("get returned for key {} a value that was never written for it: {}", String::from_utf8_lossy(&k), String::from_utf8_lossy(&v[..v.len().min(40)]))); } }
                }
                scans.fetch_add(1, O::Relaxed);
            }
        }));
    }
    std::thread::sleep(Duration::from_millis(rng.range(60, 200)));
    stop.store(true, O::Relaxed);
    let t0 = Instant::now();
    for h in hs {
        while !h.is_finished() && t0.elapsed() < WATCHDOG { std::thread::sleep(Duration::from_millis(1)); }
        if h.is_finished() {
            if h.join().is_err() { bad.lock().unwrap().push("a thread of the scan race panicked".into()); }
        } else {
            out.failures.push("C18\ta thread of the free-running scan race did not finish\t-".into());
            return;
        }
    }
    // quiescent: the hash index, the ordered index and a full range scan name the same keys
    {
        let hash: Vec<Vec<u8>> = store.verif_snapshot().into_iter().map(|r| r.key).collect();
        let tree: Vec<Vec<u8>> = store.verif_tree_keys();
        let scan: Vec<Vec<u8>> = store.range_query(b"", &[0xFF; 16], usize::MAX).map(|r| r.into_iter().map(|x| x.0).collect()).unwrap_or_default();
        let mut b = bad.lock().unwrap();
        if hash != tree {
            let only_tree: Vec<String> = tree.iter().filter(|k| !hash.contains(k)).map(|k| String::from_utf8_lossy(k).to_string()).collect();
            let only_hash: Vec<String> = hash.iter().filter(|k| !tree.contains(k)).map(|k| String::from_utf8_lossy(k).to_string()).collect();
            b.push(format!("at quiescence the ordered index and the hash index disagree: only in the ordered index {:?}, only in the hash index {:?}", only_tree, only_hash));
        }
        if !ttl {
            if let Some(k) = scan.iter().find(|k| store.get(k).is_err()) {
                b.push(format!("at quiescence a full range scan returns key {} which get() does not find", String::from_utf8_lossy(k)));
            }
            if scan.len() != store.len() {
                b.push(format!("at quiescence a full range scan returns {} keys, len() is {}", scan.len(), store.len()));
            }
        }
    }
    out.count("scanrace case");
    out.count(&format!("scanrace {}", if cfg.mem { "memory-only" } else if cfg.cache { "persistent+cache" } else { "persistent" }));
    *out.hist.entry("scanrace scans".into()).or_insert(0) += scans.load(O::Relaxed);
    *out.hist.entry("scanrace updates".into()).or_insert(0) += updates.load(O::Relaxed);
    let bad = bad.lock().unwrap();
    if let Some(b) = bad.first() {
        let what = format!("scans / reads racing with updates ({} scans, {} updates, {} keys): {} ({} such observations)", scans.load(O::Relaxed), updates.load(O::Relaxed), nkeys, b, bad.len());
        out.failures.push(format!("C14\t{}\t-", what));
        out.failures.push(format!("C20\t{}\t-", what));
    }
    let st = store.clone();
    drop(store);
    if !with_watchdog(move || drop(st)) { out.failures.push("C18\tdrop of the store after a scan race did not return\t-".into()); }
    let _ = std::fs::remove_file(&path);
}

/// the TTL sweeper against a concurrent writer: a key expires, the sweeper samples it and is parked
/// before its guarded removal; the key is then re-written with a fresh expiry / without one /
/// TTL-updated / persisted / deleted / left alone; the sweeper is let go.  A key whose latest
/// generation is unexpired must still be there with its value; the expired one must be gone.
fn sweep_race_case(rng: &mut Rng, out: &mut Out, ctl: &Arc<Ctl>, dir: &str, idx: u64) {
    let t0 = 1_700_000_000_000_000_000u64 + rng.below(1_000_000_000);
    feoxdb::verif::clock::pin(t0);
    let mem = rng.chance(1, 2);
    let path = format!("{}/sweep{}.feox", dir, idx);
    let store = {
        let mut b = FeoxStore::builder().hash_bits(6).enable_ttl(true).no_memory_limit();
        if !mem { let _ = std::fs::remove_file(&path); b = b.device_path(path.clone()).file_size(64 * BS).enable_caching(rng.chance(1, 2)); }
        match b.build() { Ok(s) => Arc::new(s), Err(_) => { feoxdb::verif::clock::unpin(); return } }
    };
    let key = format!("ttl-{}", idx).into_bytes();
    let other = format!("keep-{}", idx).into_bytes();
    let v1 = pattern(0x31, 60);
    let v2 = pattern(0x32, 70);
    let _ = store.insert_with_ttl(&key, &v1, 1);
    let _ = store.insert_with_ttl(&other, &v1, 1000);
    if !mem && rng.chance(1, 2) { let _ = store.flush(); }
    feoxdb::verif::clock::pin(t0 + 2_000_000_000 + rng.below(1000));
    {
        let mut g = ctl.slots.lock().unwrap();
        g.clear();
        g.push(Slot { phase: Phase::Idle, permit: false, cmd: None, exit: false });
    }
    let h = { let c = ctl.clone(); let st = store.clone(); std::thread::spawn(move || worker(0, c, st)) };
    let mut ph = ctl.call(0, Op::Sweep, vec![]);
    let parked = matches!(ph, Some(Phase::AtPoint("sweep_sampled")));
    let action = rng.below(6);
    let what = match action { 0 => "re-written with a fresh TTL", 1 => "re-written without TTL", 2 => "given a new TTL (update_ttl)", 3 => "persisted", 4 => "deleted", _ => "left alone" };
    out.count(&format!("sweep race: sampled key {}", what));
    if !parked { out.count("sweep race: sweeper did not sample the key"); }
    // (update_ttl / persist of an expired key are refused: then the key counts as left alone)
    let expect: Option<Vec<u8>> = if !parked { None } else { match action {
        0 => { let _ = store.insert_with_ttl(&key, &v2, 1000); Some(v2.clone()) }
        1 => { let _ = store.insert(&key, &v2); Some(v2.clone()) }
        2 => if store.update_ttl(&key, 1000).is_ok() { Some(v1.clone()) } else { None },
        3 => if store.persist(&key).is_ok() { Some(v1.clone()) } else { None },
        4 => { let _ = store.delete(&key); None }
        _ => None,
    } };
    let mut guard = 0;
    while let Some(Phase::AtPoint(_)) = ph { ph = ctl.resume(0); guard += 1; if guard > 64 { break; } }
    match ph {
        Some(Phase::Returned(_)) => ctl.consume(0),
        _ => out.failures.push("C18\tthe sweeper batch did not return after being released\t-".into()),
    }
    let got = store.get(&key).ok();
    let kept = store.get(&other).ok();
    let in_range = store.range_query(b"ttl-", b"ttl-~", 10).map(|r| r.iter().any(|x| x.0 == key)).unwrap_or(false);
    let mut bad: Option<String> = None;
    match (&expect, &got) {
        (Some(v), Some(g)) if v == g => { if !in_range { bad = Some(format!("the key was {} while the sweeper sat between its sample and its removal; get() finds it but range_query does not", what)); } }
        (Some(_), other_) => bad = Some(format!("the key was {} while the sweeper sat between its sample and its removal: its latest generation is unexpired, but get() returns {:?}", what, other_.as_ref().map(|x| x.len()))),
        (None, Some(g)) => bad = Some(format!("the key expired and was {}; after the sweeper batch get() still returns {} bytes", what, g.len())),
        (None, None) => {}
    }
    if kept.as_deref() != Some(&v1[..]) && bad.is_none() {
        bad = Some("an unexpired neighbour key disappeared during a sweeper batch".into());
    }
    if store.len() != store.verif_snapshot().len() && bad.is_none() {
        bad = Some(format!("after the sweeper batch len() = {} but the index holds {} keys", store.len(), store.verif_snapshot().len()));
    }
    report_inv(out, &store, None, "after a sweeper / writer race");
    if let Some(b) = bad { out.failures.push(format!("C11\tsweeper racing with a writer ({}): {}\t-", if mem { "memory-only" } else { "persistent" }, b)); }
    {
        let mut g = ctl.slots.lock().unwrap();
        g[0].exit = true;
        g[0].permit = true;
        ctl.cv.notify_all();
    }
    let t9 = Instant::now();
    while !h.is_finished() && t9.elapsed() < WATCHDOG { std::thread::sleep(Duration::from_millis(1)); }
    feoxdb::verif::clock::unpin();
    let st = store.clone();
    drop(store);
    let _ = with_watchdog(move || drop(st));
    let _ = std::fs::remove_file(&path);
    out.count("sweep race case");
}

/// one reader parked before / inside its device read while the key is rewritten or deleted,
/// its old extent retired and the freed blocks reused by other keys
fn race_case(rng: &mut Rng, out: &mut Out, ctl: &Arc<Ctl>, wl: &Arc<WriteLog>, dir: &str, idx: u64) {
    use std::sync::atomic::Ordering as O;
    feoxdb::verif::clock::unpin();
    let cache = rng.chance(1, 2);
    let blocks = rng.range(30, 44);
    let path = format!("{}/race{}.feox", dir, idx);
    let _ = std::fs::remove_file(&path);
    // deferred: the generation being read is a TTL-only one (update_ttl on an offloaded value), whose
    // bytes still live in its predecessor's extent; the pin has to protect THAT extent
    let deferred = rng.chance(1, 4);
    let ttl = deferred || rng.chance(1, 2);
    let store = match FeoxStore::builder().hash_bits(6).enable_ttl(ttl).no_memory_limit()
        .device_path(path.clone()).file_size(blocks * BS).enable_caching(cache).build() {
        Ok(s) => Arc::new(s),
        Err(_) => return,
    };
    let key = format!("victim-{}", idx).into_bytes();
    let l1 = *rng.pick(&[100usize, 3000, 9000]);
    let v1 = pattern(0x11, l1);
    let v2 = pattern(0x22, *rng.pick(&[100usize, 3000, 9000]));
    // a second durable key whose generation is replaced or deleted in the same round: the victim's
    // retirement is then not the only one the retirer has to deal with
    let mate = format!("mate-{}", idx).into_bytes();
    let with_mate = rng.chance(2, 3);
    if with_mate { let _ = store.insert(&mate, &pattern(0x55, *rng.pick(&[100usize, 5000]))); }
    if store.insert(&key, &v1).is_err() || store.flush().is_err() { return; }
    let snap = store.verif_snapshot();
    let Some(r1) = snap.iter().find(|r| r.key == key) else { return };
    let (s1, n1) = (r1.sector, (l1 as u64 + 200).div_ceil(BS));
    if s1 == 0 || r1.resident { out.count("race skipped (value still resident)"); return; }
    if deferred {
        if store.update_ttl(&key, 3600).is_err() { out.count("race skipped (update_ttl refused)"); return; }
        out.count("race on a deferred TTL-only generation");
    }
    {
        let mut g = ctl.slots.lock().unwrap();
        g.clear();
        g.push(Slot { phase: Phase::Idle, permit: false, cmd: None, exit: false });
    }
    let h = { let c = ctl.clone(); let st = store.clone(); std::thread::spawn(move || worker(0, c, st)) };
    ctl.park_reads.store(true, O::SeqCst);
    let mode = if deferred { 1 } else { rng.below(3) }; // 0: reader parked before the pin, 1: holding the pin, 2: before the pin + retirer parked at its marker write
    let pinned_mode = mode == 1;
    let delete = !deferred && rng.chance(1, 3);
    let reader = match rng.below(3) { 0 => Op::Get { bytes: false }, 1 => Op::Get { bytes: true }, _ => Op::Cas { exp: Val { kind: Kind::Raw, n: 0 }, new: Val { kind: Kind::Raw, n: 1 }, ts: None } };
    out.count(match mode { 1 => "race reader parked holding the pin", 0 => "race reader parked before the pin", _ => "race reader enters between the retirer's check and its marker write" });
    out.count(&format!("race reader {}", reader.line().split(' ').next().unwrap()));
    let mut bad: Option<String> = None;
    let mut ph = ctl.call(0, reader.clone(), key.clone());
    if pinned_mode {
        if let Some(Phase::AtPoint("read_start")) = ph { ph = ctl.resume(0); }
    }
    let parked = matches!(ph, Some(Phase::AtPoint(_)));
    // deferred variant: the TTL-only generation was queued before the reader started; on a busy machine the
    // periodic flusher may have written it out (and retired the old extent, unpinned at that time) before the
    // reader chose its source.  The reader then holds the pin of the NEW extent and `s1` is ordinary free space.
    let pin_elsewhere = deferred && parked && store.verif_snapshot().iter().find(|r| r.key == key).map(|r| r.sector != 0).unwrap_or(true);
    if pin_elsewhere { out.count("race on a deferred generation that was flushed before the reader pinned (extent oracle off)"); }
    if mode == 2 && parked {
        *wl.gate.lock().unwrap() = (Some((s1, n1)), 0);
    }
    wl.writes.lock().unwrap().clear();
    wl.blocked.lock().unwrap().clear();
    wl.enabled.store(true, O::SeqCst);
    // the writer side (this thread is not under the controller)
    // (in the deferred variant the key is left alone: flushing the TTL-only generation is what retires the extent)
    let r = if deferred { Err(feoxdb::FeoxError::KeyNotFound) } else if delete { store.delete(&key).map(|_| ()) } else { store.insert(&key, &v2).map(|_| ()) };
    let mutated = r.is_ok();
    let mut deferred_flush = None;
    if deferred && parked {
        let st = store.clone();
        deferred_flush = Some(std::thread::spawn(move || { let _ = st.flush(); }));
    }
    let mut mate_now: Option<Vec<u8>> = None;
    if with_mate {
        mate_now = store.get(&mate).ok();
        if rng.chance(1, 2) { let v = pattern(0x56, 300); if store.insert(&mate, &v).is_ok() { mate_now = Some(v); } }
        else if store.delete(&mate).is_ok() { mate_now = None; }
        out.count("race with a second retirement in the same round");
    }
    let mut fillers = vec![];
    for i in 0..rng.range(1, 4) {
        let k = format!("filler-{}-{}", idx, i).into_bytes();
        let v = pattern(0x40 + i as u8, *rng.pick(&[100usize, 5000, 9000]));
        if store.insert(&k, &v).is_ok() { fillers.push((k, v)); }
    }
    if parked && pinned_mode && !pin_elsewhere {
        // the background flusher keeps trying to retire the pinned extent
        std::thread::sleep(Duration::from_millis(rng.range(150, 400)));
        if wl.blocked.lock().unwrap().contains(&s1) { out.count("race retirement postponed by the pin"); }
        let hit: Vec<(u64, usize)> = wl.writes.lock().unwrap().iter().cloned().filter(|(s, l)| *s < s1 + n1 && s1 < *s + (*l as u64).div_ceil(BS).max(1)).collect();
        if !hit.is_empty() {
            bad = Some(format!("device writes {:?} landed in the extent {}+{} of a generation while a reader held its pin", hit, s1, n1));
        }
    } else if parked && pinned_mode {
        std::thread::sleep(Duration::from_millis(50));
    } else if parked && mode == 2 {
        // the retirer is stopped at its first write into the old extent; the reader is let in
        let st = store.clone();
        let fl = std::thread::spawn(move || { let _ = st.flush(); });
        let t0 = Instant::now();
        let mut at_gate = false;
        while t0.elapsed() < Duration::from_secs(3) {
            if wl.gate.lock().unwrap().1 == 1 { at_gate = true; break; }
            std::thread::sleep(Duration::from_millis(1));
        }
        if at_gate {
            out.count("race retirer parked at its marker write");
            ph = ctl.resume(0);
            if let Some(Phase::AtPoint("read_pinned")) = ph {
                // no second `read_start` in between: this pin is on the OLD extent, and the retirer's
                // write into it is already under way
                bad = Some(format!("a reader was granted the pin of extent {}+{} after the retirer had found it free of readers and started writing its markers: the blocks are overwritten while the reader is inside", s1, n1));
            }
        }
        {
            let mut g = wl.gate.lock().unwrap();
            g.0 = None;
            g.1 = 2;
            wl.gate_cv.notify_all();
        }
        let t1 = Instant::now();
        while !fl.is_finished() && t1.elapsed() < WATCHDOG {
            // a reader that holds a pin keeps flush() waiting: let it finish
            if let Some(Phase::AtPoint(_)) = ph { ph = ctl.resume(0); }
            std::thread::sleep(Duration::from_millis(1));
        }
        if fl.is_finished() { let _ = fl.join(); } else {
            out.failures.push("C18\tflush() did not return after the retirer was released\t-".into());
        }
        wl.gate.lock().unwrap().1 = 0;
    } else if parked {
        // nobody holds a pin: flush completes, the old extent is retired and its blocks reused
        let st = store.clone();
        if !with_watchdog(move || { let _ = st.flush(); }) {
            out.failures.push("C18\tflush() did not return while a reader was parked before taking its pin\t-".into());
        }
        for i in 0..2 {
            let k = format!("filler2-{}-{}", idx, i).into_bytes();
            let v = pattern(0x60 + i as u8, 9000);
            if store.insert(&k, &v).is_ok() { fillers.push((k, v)); }
        }
        let st = store.clone();
        let _ = with_watchdog(move || { let _ = st.flush(); });
    }
    wl.enabled.store(false, O::SeqCst);
    // let the reader finish
    let mut guard = 0;
    while let Some(Phase::AtPoint(_)) = ph {
        ph = ctl.resume(0);
        guard += 1;
        if guard > 64 { break; }
    }
    match ph {
        Some(Phase::Returned(res)) => {
            ctl.consume(0);
            out.count(&format!("race result {}", res.split(' ').next().unwrap()));
            // genuine answers only
            let want1 = format!("value unknown {}", hex(&v1));
            let want2 = format!("value unknown {}", hex(&v2));
            let ok = match &reader {
                Op::Cas { .. } => res == "notSwapped",
                _ => res == want1 || (mutated && !delete && res == want2) || (mutated && delete && res == "notFound") || res == "error StaleExtent",
            };
            if !ok && bad.is_none() {
                bad = Some(format!("a read racing with {} returned `{}` — neither the old nor the new value of the key", if delete { "delete" } else { "update" }, &res[..res.len().min(80)]));
            }
        }
        _ => out.failures.push("C18\ta reader parked in its device read never returned after being released\t-".into()),
    }
    if let Some(fl) = deferred_flush {
        let t1 = Instant::now();
        while !fl.is_finished() && t1.elapsed() < WATCHDOG { std::thread::sleep(Duration::from_millis(1)); }
        if fl.is_finished() { let _ = fl.join(); } else {
            out.failures.push("C18\tflush() of a deferred generation did not return after the reader released its pin\t-".into());
        }
    }
    ctl.park_reads.store(false, O::SeqCst);
    {
        let mut g = ctl.slots.lock().unwrap();
        g[0].exit = true;
        g[0].permit = true;
        ctl.cv.notify_all();
    }
    let t9 = Instant::now();
    while !h.is_finished() && t9.elapsed() < WATCHDOG { std::thread::sleep(Duration::from_millis(1)); }
    if h.is_finished() { let _ = h.join(); } else {
        out.failures.push("C18\tthe reader thread of a race case never finished\t-".into());
    }
    let st = store.clone();
    let final_flush_ok = Arc::new(std::sync::atomic::AtomicBool::new(false));
    let ffo = final_flush_ok.clone();
    if !with_watchdog(move || { if st.flush().is_ok() { ffo.store(true, O::SeqCst); } }) {
        out.failures.push("C18\tflush() after a read/retirement race did not return\t-".into());
    }
    // everything else is intact
    for (k, v) in &fillers {
        match store.get(k) {
            Ok(got) if &got == v => {}
            other => { if bad.is_none() { bad = Some(format!("filler key {} reads {:?} after the race", hex(k), other.map(|x| x.len()))); } }
        }
    }
    // (the device is small: with the large fillers a flush may have to answer OutOfSpace; the on-device
    // invariants are those of an ACKNOWLEDGED flush)
    if final_flush_ok.load(O::SeqCst) {
        report_inv(out, &store, Some(&path), "after a read / retirement race (all calls returned, flush acknowledged)");
    } else {
        report_inv(out, &store, None, "after a read / retirement race (all calls returned, final flush refused)");
    }
    if with_mate {
        let got = store.get(&mate).ok();
        if got != mate_now && bad.is_none() {
            bad = Some(format!("the second key reads {:?} after the race, expected {:?}", got.map(|x| x.len()), mate_now.as_ref().map(|x| x.len())));
        }
    }
    // a TTL change on the survivor (its value offloaded by the flush above) BEFORE anything reads the key again:
    // whatever the race left behind in the cache - a late fill tagged with the old generation, say - the value
    // stays what it was, now and after a reopen
    let mut reopen_expect: Option<Vec<u8>> = None;
    let survivor: Option<&Vec<u8>> = match (mutated, delete) { (true, false) => Some(&v2), (false, _) => Some(&v1), _ => None };
    if let (true, true, Some(want)) = (ttl, bad.is_none(), survivor) {
        if store.update_ttl(&key, 3600).is_ok() {
            out.count("race epilogue: TTL change on the survivor");
            let after = store.get(&key).ok();
            if after.as_deref() != Some(&want[..]) {
                out.failures.push(format!("C16\tafter a read / replace race (cache {}) and a flush, update_ttl changed what the key reads: {} bytes starting {:02x} expected, {:?} returned\t-",
                    if cache { "on" } else { "off" }, want.len(), want.first().copied().unwrap_or(0), after.as_ref().map(|v| (v.len(), v.first().copied().unwrap_or(0)))));
                out.failures.push("C11\ta TTL-only update after a read / replace race did not keep the value intact\t-".into());
            } else {
                let st = store.clone();
                let flushed = Arc::new(std::sync::atomic::AtomicBool::new(false));
                let fl2 = flushed.clone();
                let _ = with_watchdog(move || { if st.flush().is_ok() { fl2.store(true, O::SeqCst); } });
                if flushed.load(O::SeqCst) { reopen_expect = Some(want.clone()); }
            }
        }
    }
    let fin = store.get(&key);
    let fin_ok = match (&fin, mutated, delete) {
        (Ok(v), true, false) => v == &v2,
        (Err(FeoxError::KeyNotFound), true, true) => true,
        (Ok(v), false, _) => v == &v1,
        _ => false,
    };
    if !fin_ok && bad.is_none() {
        bad = Some(format!("after the race the key reads {:?}", fin.map(|x| x.len())));
    }
    out.count("race case");
    if let Some(b) = bad {
        let keep = format!("{}/race{}_fail.txt", dir, idx);
        std::fs::write(&keep, format!("seed-case {} cache={} blocks={} l1={} pinned_mode={} delete={} reader={}\n{}\n", idx, cache, blocks, l1, pinned_mode, delete, reader.line(), b)).unwrap();
        out.failures.push(format!("C08\t{}\t{}", b, keep));
    }
    drop(store);
    if let Some(want) = reopen_expect {
        feoxdb::verif::clock::unpin();
        if let Ok(st2) = FeoxStore::builder().hash_bits(6).enable_ttl(true).no_memory_limit().device_path(path.clone()).enable_caching(cache).build() {
            let got = st2.get(&key).ok();
            if got.as_deref() != Some(&want[..]) {
                out.failures.push(format!("C16\tafter a read / replace race, a TTL change, a flush and a reopen the key reads {:?}, it held {} bytes starting {:02x}\t-",
                    got.as_ref().map(|v| (v.len(), v.first().copied().unwrap_or(0))), want.len(), want.first().copied().unwrap_or(0)));
                out.failures.push("C11\ta TTL-only update after a read / replace race did not survive the restart with its value\t-".into());
            }
            drop(st2);
        }
    }
    let _ = std::fs::remove_file(&path);
}

fn main() {
    let args = parse_args();
    std::fs::create_dir_all(&args.out).unwrap();
    let open = |n: &str| std::io::BufWriter::new(std::fs::File::create(format!("{}/{}", args.out, n)).unwrap());
    let mut out = Out { ops: open("conc.ops"), imp: open("conc.impl"), lines: 0, hist: BTreeMap::new(), failures: vec![], cases: 0 };
    std::panic::set_hook(Box::new(|_| {}));
    feoxdb::verif::proto::fast_shutdown(true);
    feoxdb::verif::io::disable_ring(true);
    let ctl = Arc::new(Ctl { slots: Mutex::new(vec![]), cv: Condvar::new(), park_reads: std::sync::atomic::AtomicBool::new(false) });
    feoxdb::verif::sched::set_controller(Some(ctl.clone()));
    let mut rng = Rng::new(args.seed);
    let get = |k: &str, d: u64| -> u64 { args.extra.iter().find_map(|e| e.strip_prefix(&format!("{}=", k)).map(|v| v.parse().unwrap())).unwrap_or(d) };
    let cases = get("cases", 200);
    let wl = Arc::new(WriteLog { enabled: std::sync::atomic::AtomicBool::new(false), writes: Mutex::new(vec![]), blocked: Mutex::new(vec![]), gate: Mutex::new((None, 0)), gate_cv: Condvar::new(),
        fail_after: std::sync::atomic::AtomicU64::new(0), fail_until: std::sync::atomic::AtomicU64::new(u64::MAX), seen: std::sync::atomic::AtomicU64::new(0), fail_mode: std::sync::atomic::AtomicU64::new(0) });
    feoxdb::verif::io::set_observer(Some(wl.clone()));
    feoxdb::verif::proto::set_observer(Some(wl.clone()));
    for _ in 0..get("words", 0) {
        word_run(&mut rng, &mut out);
    }
    let mut stress_rows: Vec<String> = vec![];
    for i in 0..get("stress", 0) {
        stress_case(&mut rng, &mut stress_rows, &args.out, i);
    }
    std::fs::write(format!("{}/conc.stress", args.out), stress_rows.iter().map(|l| format!("{}\n", l)).collect::<String>()).unwrap();
    for i in 0..get("scans", 0) {
        scan_case(&mut rng, &mut out, &ctl, &args.out, i);
    }
    for i in 0..get("scanrace", 0) {
        scanrace_case(&mut rng, &mut out, &args.out, i);
    }
    for i in 0..get("directio", 0) {
        directio_case(&mut rng, &mut out, &args.out, i);
    }
    for i in 0..get("ring", 0) {
        ring_case(&mut rng, &mut out, &args.out, i);
        if out.failures.iter().any(|f| f.starts_with("C18")) { break; }
    }
    for i in 0..get("sweeprace", 0) {
        sweeprace_case(&mut rng, &mut out, &args.out, i);
    }
    for i in 0..get("readflush", 0) {
        readflush_case(&mut rng, &mut out, &args.out, i);
    }
    for i in 0..get("memrace", 0) {
        memrace_case(&mut rng, &mut out, &args.out, i);
    }
    for i in 0..get("sweeps", 0) {
        sweep_race_case(&mut rng, &mut out, &ctl, &args.out, i);
    }
    for i in 0..get("overfull", 0) {
        overfull_case(&mut rng, &mut out, &args.out, 1000 + i);
    }
    for i in 0..get("contend", 0) {
        if i % 5 == 0 { overfull_case(&mut rng, &mut out, &args.out, i); }
        contend_case(&mut rng, &mut out, &wl, &args.out, i);
    }
    for _ in 0..get("inflight", 0) {
        inflight_run(&mut rng, &mut out);
    }
    for i in 0..get("races", 0) {
        race_case(&mut rng, &mut out, &ctl, &wl, &args.out, i);
    }
    // (a storm saturates several cores: only every fourth harness process of a run takes part)
    for i in 0..(if args.seed % 4 == 0 { get("flushstorm", 0) } else { 0 }) {
        flushstorm_case(&mut rng, &mut out, &args.out, i);
    }
    for i in 0..get("manyflush", 0) {
        manyflush_case(&mut rng, &mut out, &args.out, i);
        if out.failures.iter().any(|f| f.starts_with("C18")) { break; }
    }
    for i in 0..get("clockrace", 0) {
        clockrace_case(&mut rng, &mut out, i);
    }
    for i in 0..get("ttlchain", 0) {
        ttl_chain_case(&mut rng, &mut out, &wl, &args.out, i);
    }
    if let Some(f) = &args.replay {
        let lines: Vec<String> = std::fs::read_to_string(f).unwrap().lines().filter(|l| l.starts_with("conc ")).map(|l| l.to_string()).collect();
        if !lines.is_empty() {
            replay_case(&mut out, &ctl, &args.out, &lines);
        }
    }
    for i in 0..get("exhaust", 0) {
        exhaust_set(&mut rng, &mut out, &ctl, &args.out, i, get("cap", 300));
    }
    for i in 0..(if args.replay.is_some() { 0 } else { cases }) {
        run_case(&mut rng, &mut out, &ctl, &args.out, i, i % 4);
        if out.failures.iter().any(|f| f.starts_with("C18")) {
            break; // a stuck worker cannot be cleaned up; stop this process
        }
    }
    feoxdb::verif::sched::set_controller(None);
    out.ops.flush().unwrap();
    out.imp.flush().unwrap();
    std::fs::write(format!("{}/conc.failures", args.out), out.failures.iter().map(|l| format!("{}\n", l)).collect::<String>()).unwrap();
    let hist: Vec<String> = out.hist.iter().map(|(k, v)| format!("\"{}\": {}", k, v)).collect();
    std::fs::write(
        format!("{}/conc.meta.json", args.out),
        format!("{{\"engine\": \"conc\", \"seed\": {}, \"cases\": {}, \"lean_lines\": {}, \"failures\": {}, \"kinds\": {{{}}}}}", args.seed, out.cases, out.lines, out.failures.len(), hist.join(", ")),
    )
    .unwrap();
    if out.failures.iter().any(|f| f.starts_with("C18")) {
        std::process::exit(0);
    }
}
