//! Correspondence harness for C06: drives the real `FreeSpaceManager`, writes the op lines
//! (`fsm.ops`), what the implementation answered (`fsm.impl`) and, independently of the
//! Lean model, evaluates the property itself against a bitmap reference of the free set
//! (`fsm.oracle`: one line per property failure, empty when it holds).
use feox_verif_harness::*;
use feoxdb::storage::free_space::FreeSpaceManager;
use std::collections::BTreeMap;
use std::io::{BufRead, Write};

const BS: u64 = 4096;
const DS: u64 = 16;

/// Bitmap reference: the *true* free set and outstanding allocations.
struct Oracle {
    dev_blocks: u64, // 0 = unbounded mode (bitmap covers `cap` blocks)
    free: Vec<bool>,
    initialised: bool,
}

impl Oracle {
    fn new() -> Self {
        Oracle { dev_blocks: 0, free: vec![], initialised: false }
    }
    fn runs(&self) -> Vec<(u64, u64)> {
        let mut out = vec![];
        let mut i = 0usize;
        while i < self.free.len() {
            if self.free[i] {
                let s = i;
                while i < self.free.len() && self.free[i] {
                    i += 1;
                }
                out.push((s as u64, (i - s) as u64));
            } else {
                i += 1;
            }
        }
        out
    }
}

struct Sink {
    ops: std::io::BufWriter<std::fs::File>,
    imp: std::io::BufWriter<std::fs::File>,
    oracle: std::io::BufWriter<std::fs::File>,
    line: u64,
    calls: BTreeMap<String, u64>,
    failures: u64,
    case: u64,
}

struct Sut {
    m: FreeSpaceManager,
    o: Oracle,
}

fn stats(m: &FreeSpaceManager) -> String {
    format!(
        " total={} largest={} chunks={} frag={}",
        m.get_total_free(),
        m.get_largest_free_chunk(),
        m.get_free_chunks_count(),
        m.get_fragmentation()
    )
}

impl Sink {
    fn emit(&mut self, op: &str, res: &str, kind: &str) {
        writeln!(self.ops, "fsm {}", op).unwrap();
        writeln!(self.imp, "{}", res).unwrap();
        self.line += 1;
        *self.calls.entry(kind.to_string()).or_insert(0) += 1;
    }
    fn fail(&mut self, what: String) {
        writeln!(self.oracle, "case={} line={} {}", self.case, self.line, what).unwrap();
        self.failures += 1;
    }
}

/// Check the stats clause of C06 against the true free set.
fn check_stats(sut: &Sut, sink: &mut Sink) {
    if !sut.o.initialised {
        return;
    }
    let runs = sut.o.runs();
    let total: u64 = runs.iter().map(|r| r.1 * BS).sum();
    let largest = runs.iter().map(|r| r.1 * BS).max().unwrap_or(0);
    if sut.m.get_total_free() != total {
        sink.fail(format!("stats total_free={} true={}", sut.m.get_total_free(), total));
    }
    if sut.m.get_largest_free_chunk() != largest {
        sink.fail(format!("stats largest={} true={}", sut.m.get_largest_free_chunk(), largest));
    }
    if sut.m.get_free_chunks_count() != runs.len() {
        sink.fail(format!("stats chunks={} true={}", sut.m.get_free_chunks_count(), runs.len()));
    }
}

fn do_new(sut: &mut Sut, sink: &mut Sink) {
    sut.m = FreeSpaceManager::new();
    sut.o = Oracle::new();
    sink.case += 1;
    let r = format!("ok{}", stats(&sut.m));
    sink.emit("new", &r, "new");
}

fn do_init(sut: &mut Sut, sink: &mut Sink, dev: u64) {
    let r = sut.m.initialize(dev);
    let blocks = dev / BS;
    let res = match &r {
        Ok(()) => {
            sut.o.dev_blocks = blocks;
            sut.o.free = (0..blocks).map(|b| b >= DS).collect();
            sut.o.initialised = true;
            "ok".to_string()
        }
        Err(e) => {
            if blocks > DS {
                sink.fail(format!("init {} rejected: {}", dev, err_name(e)));
            }
            format!("err {}", err_name(e))
        }
    };
    if r.is_ok() && blocks <= DS {
        sink.fail(format!("init {} accepted with no data area", dev));
    }
    let line = format!("{}{}", res, stats(&sut.m));
    sink.emit(&format!("init {}", dev), &line, if r.is_ok() { "init" } else { "init-err" });
    check_stats(sut, sink);
}

fn do_alloc(sut: &mut Sut, sink: &mut Sink, n: u64) -> Option<u64> {
    let r = sut.m.allocate_sectors(n);
    let mut got = None;
    let res = match &r {
        Ok(a) => {
            got = Some(*a);
            if sut.o.initialised {
                let a = *a;
                let end = a.checked_add(n);
                let in_bounds = n > 0 && a >= DS && end.is_some_and(|e| e <= sut.o.free.len() as u64);
                if !in_bounds {
                    sink.fail(format!("alloc {} -> {} out of bounds", n, a));
                } else if !(a..a + n).all(|b| sut.o.free[b as usize]) {
                    sink.fail(format!("alloc {} -> {} overlaps an outstanding allocation", n, a));
                } else {
                    for b in a..a + n {
                        sut.o.free[b as usize] = false;
                    }
                }
            }
            format!("ok {}", a)
        }
        Err(e) => {
            if sut.o.initialised && n > 0 && sut.o.runs().iter().any(|r| r.1 >= n) {
                sink.fail(format!("alloc {} failed ({}) though a free run fits", n, err_name(e)));
            }
            format!("err {}", err_name(e))
        }
    };
    let kind = match &r {
        Ok(_) => "alloc".to_string(),
        Err(e) => format!("alloc-{}", err_name(e)),
    };
    let line = format!("{}{}", res, stats(&sut.m));
    sink.emit(&format!("alloc {}", n), &line, &kind);
    check_stats(sut, sink);
    got
}

fn do_release(sut: &mut Sut, sink: &mut Sink, a: u64, n: u64) -> bool {
    let before = stats(&sut.m);
    let r = sut.m.release_sectors(a, n);
    if sut.o.initialised {
        let len = sut.o.free.len() as u64;
        let valid = n > 0
            && a >= DS
            && a.checked_add(n).is_some_and(|e| e <= len)
            && (a..a + n).all(|b| !sut.o.free[b as usize]);
        match (&r, valid) {
            (Ok(()), true) => {
                for b in a..a + n {
                    sut.o.free[b as usize] = true;
                }
            }
            (Ok(()), false) => sink.fail(format!("release {} {} accepted but invalid", a, n)),
            (Err(e), true) => {
                sink.fail(format!("release {} {} of allocated range rejected: {}", a, n, err_name(e)))
            }
            (Err(_), false) => {
                if stats(&sut.m) != before {
                    sink.fail(format!("rejected release {} {} changed the statistics", a, n));
                }
            }
        }
    }
    let res = match &r {
        Ok(()) => "ok".to_string(),
        Err(e) => format!("err {}", err_name(e)),
    };
    let kind = match &r {
        Ok(_) => "release".to_string(),
        Err(e) => format!("release-{}", err_name(e)),
    };
    let line = format!("{}{}", res, stats(&sut.m));
    sink.emit(&format!("release {} {}", a, n), &line, &kind);
    check_stats(sut, sink);
    r.is_ok()
}

fn do_setsize(sut: &mut Sut, sink: &mut Sink, dev: u64) {
    sut.m.set_device_size(dev);
    // Building the free list by releases (the recovery path): everything starts allocated.
    if !sut.o.initialised {
        let blocks = dev / BS;
        sut.o.dev_blocks = blocks;
        sut.o.free = vec![false; blocks as usize];
        sut.o.initialised = blocks > DS;
    } else {
        // changing the bound under a populated free list is outside the property
        sut.o.initialised = false;
    }
    let line = format!("ok{}", stats(&sut.m));
    sink.emit(&format!("setsize {}", dev), &line, "setsize");
}

fn exec_line(sut: &mut Sut, sink: &mut Sink, line: &str) {
    let t: Vec<&str> = line.split_whitespace().collect();
    match t.as_slice() {
        ["fsm", "new"] => do_new(sut, sink),
        ["fsm", "init", d] => do_init(sut, sink, d.parse().unwrap()),
        ["fsm", "setsize", d] => do_setsize(sut, sink, d.parse().unwrap()),
        ["fsm", "alloc", n] => {
            do_alloc(sut, sink, n.parse().unwrap());
        }
        ["fsm", "release", a, n] => {
            do_release(sut, sink, a.parse().unwrap(), n.parse().unwrap());
        }
        _ => {}
    }
}

/// Exhaustive enumeration of all call sequences up to `depth` over a small alphabet on a
/// device with `data` data blocks.  Every path is a separate case (prefix replayed).
fn exhaustive(sut: &mut Sut, sink: &mut Sink, data: u64, depth: usize, via_setsize: bool) -> u64 {
    let mut alphabet: Vec<(u8, u64, u64)> = vec![];
    for n in 0..=data + 1 {
        alphabet.push((0, n, 0));
    }
    for a in DS - 1..=DS + data {
        for n in 0..=data + 1 {
            alphabet.push((1, a, n));
        }
    }
    let mut paths = 0u64;
    let mut idx = vec![0usize; depth];
    loop {
        do_new(sut, sink);
        if via_setsize {
            do_setsize(sut, sink, (DS + data) * BS);
            do_release(sut, sink, DS, data);
        } else {
            do_init(sut, sink, (DS + data) * BS);
        }
        for &i in idx.iter() {
            let (k, a, b) = alphabet[i];
            if k == 0 {
                do_alloc(sut, sink, a);
            } else {
                do_release(sut, sink, a, b);
            }
        }
        paths += 1;
        // next path
        let mut d = depth;
        loop {
            if d == 0 {
                return paths;
            }
            d -= 1;
            idx[d] += 1;
            if idx[d] < alphabet.len() {
                break;
            }
            idx[d] = 0;
        }
    }
}

fn random_case(sut: &mut Sut, sink: &mut Sink, rng: &mut Rng, max_len: u64) {
    do_new(sut, sink);
    let mode = rng.below(10);
    let blocks = match rng.below(4) {
        0 => rng.range(17, 32),
        1 => rng.range(17, 128),
        2 => rng.range(64, 4096),
        _ => rng.range(17, 64),
    };
    if mode == 0 {
        // recovery style: bound set first, free list built from releases
        do_setsize(sut, sink, blocks * BS + rng.below(BS));
    } else if mode == 1 && rng.chance(1, 2) {
        // invalid initialisation sizes
        do_init(sut, sink, rng.below(17) * BS + rng.below(BS));
        return;
    } else {
        do_init(sut, sink, blocks * BS + rng.below(BS));
    }
    let mut outstanding: Vec<(u64, u64)> = vec![];
    if mode == 0 {
        outstanding.push((DS, blocks - DS));
    }
    let len = rng.range(1, max_len);
    let small = rng.range(1, 8);
    for _ in 0..len {
        let c = rng.below(100);
        if c < 40 {
            let n = match rng.below(20) {
                0 => 0,
                1 => rng.range(1, blocks),
                2 => blocks + rng.below(5),
                _ => rng.range(1, small),
            };
            if let Some(a) = do_alloc(sut, sink, n) {
                if n > 0 {
                    outstanding.push((a, n));
                }
            }
        } else if c < 80 && !outstanding.is_empty() {
            // valid release of an outstanding allocation, whole or a sub-range
            let i = rng.below(outstanding.len() as u64) as usize;
            let (a, n) = outstanding.swap_remove(i);
            if n > 1 && rng.chance(1, 3) {
                let cut = rng.range(1, n - 1);
                let (ra, rn, ka, kn) =
                    if rng.chance(1, 2) { (a, cut, a + cut, n - cut) } else { (a + cut, n - cut, a, cut) };
                if do_release(sut, sink, ra, rn) {
                    outstanding.push((ka, kn));
                } else {
                    outstanding.push((a, n));
                }
            } else if !do_release(sut, sink, a, n) {
                outstanding.push((a, n));
            }
        } else if c < 95 {
            // mostly-invalid release: arbitrary range near the device
            let a = match rng.below(6) {
                0 => rng.below(DS),
                1 => blocks + rng.below(4),
                _ => rng.range(DS, blocks),
            };
            let n = match rng.below(6) {
                0 => 0,
                1 => rng.range(1, blocks),
                _ => rng.range(1, 6),
            };
            if do_release(sut, sink, a, n) {
                // it was valid after all (lay inside an outstanding allocation): fix bookkeeping
                let mut next = vec![];
                for (oa, on) in outstanding.drain(..) {
                    let (os, oe) = (oa, oa + on);
                    let (rs, re) = (a, a + n);
                    if re <= os || rs >= oe {
                        next.push((oa, on));
                    } else {
                        if os < rs {
                            next.push((os, rs - os));
                        }
                        if re < oe {
                            next.push((re, oe - re));
                        }
                    }
                }
                outstanding = next;
            }
        } else {
            // double release of something just freed / adjacent probes
            if let Some(&(a, n)) = outstanding.first() {
                do_release(sut, sink, a.saturating_sub(1).max(1), n + 1);
            } else {
                do_release(sut, sink, DS, 1);
            }
        }
    }
}

fn main() {
    let args = parse_args();
    std::fs::create_dir_all(&args.out).unwrap();
    let open = |n: &str| std::io::BufWriter::new(std::fs::File::create(format!("{}/{}", args.out, n)).unwrap());
    let mut sink = Sink {
        ops: open("fsm.ops"),
        imp: open("fsm.impl"),
        oracle: open("fsm.oracle"),
        line: 0,
        calls: BTreeMap::new(),
        failures: 0,
        case: 0,
    };
    let mut sut = Sut { m: FreeSpaceManager::new(), o: Oracle::new() };
    let mut exhaustive_paths = 0u64;
    if let Some(path) = &args.replay {
        let f = std::io::BufReader::new(std::fs::File::open(path).unwrap());
        for line in f.lines() {
            exec_line(&mut sut, &mut sink, &line.unwrap());
        }
    } else {
        // fixed corpus: exhaustive small-device enumeration
        let (d1, d2) = if args.thorough { (4, 3) } else { (3, 2) };
        exhaustive_paths += exhaustive(&mut sut, &mut sink, 3, d1, false);
        exhaustive_paths += exhaustive(&mut sut, &mut sink, 5, d2, false);
        exhaustive_paths += exhaustive(&mut sut, &mut sink, 4, d2, true);
        let mut rng = Rng::new(args.seed);
        let cases = if args.thorough { 20000 } else { 400 };
        for _ in 0..cases {
            let max_len = if rng.chance(1, 10) { 2000 } else { 200 };
            random_case(&mut sut, &mut sink, &mut rng, max_len);
        }
    }
    sink.ops.flush().unwrap();
    sink.imp.flush().unwrap();
    sink.oracle.flush().unwrap();
    let calls: Vec<String> = sink.calls.iter().map(|(k, v)| format!("\"{}\": {}", k, v)).collect();
    let meta = format!(
        "{{\"engine\": \"fsm\", \"seed\": {}, \"lines\": {}, \"cases\": {}, \"exhaustive_paths\": {}, \"oracle_failures\": {}, \"calls\": {{{}}}}}\n",
        args.seed, sink.line, sink.case, exhaustive_paths, sink.failures, calls.join(", ")
    );
    std::fs::write(format!("{}/fsm.meta.json", args.out), meta).unwrap();
}
