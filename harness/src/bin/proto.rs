//! Crash / fault / write-behind engine (C02, C03, C04, C05, C09, C19).
//!
//! Runs workloads on a real persistent store with the device-I/O observer installed, records
//! the interleaved trace of API calls, protocol events, device writes and fsyncs, then
//!   * rebuilds crash images from the trace (every prefix; lost / reordered / torn un-synced
//!     writes), reopens each with the real recovery and checks the durability window per key,
//!   * reopens recovered images again and cuts recovery's own write trace (idempotence),
//!   * injects write / fsync failures (before / after the bytes land) and checks flush results,
//!   * checks the block-ownership partition and counters at quiescent points,
//!   * emits `fmt recover` lines so the Lean reader is compared on the same crash images, and
//!     `proto` event lines for the Lean protocol acceptor.
use feox_verif_harness::*;
use feoxdb::verif::io::{Decision, Kind as IoKind};
use feoxdb::verif::proto::Kind as PKind;
use feoxdb::{FeoxError, FeoxStore};
use std::collections::{BTreeMap, HashMap};
use std::io::Write;
use std::panic::{catch_unwind, AssertUnwindSafe};
use std::sync::atomic::{AtomicBool, AtomicI64, AtomicU64, Ordering};
use std::sync::{Arc, Mutex};

const BS: usize = 4096;

#[derive(Clone, Debug)]
enum Ev {
    Write { sector: u64, data: Vec<u8>, failed: bool },
    Fsync { failed: bool },
    /// API call begins: (op text)
    Begin(String),
    /// API call returned: key, new state index (if a state was accepted)
    End { key: Vec<u8>, accepted: Option<usize>, result: String },
    FlushBegin(Vec<(Vec<u8>, usize)>),
    FlushEnd { ok: bool, snap: Vec<(Vec<u8>, usize)> },
    Alloc(u64, u64),
    Publish(u64, u64, Vec<u8>, u64),
    Release(u64, u64),
}

/// which I/O calls to fail: the n-th write / fsync (1-based), before or after the bytes land,
/// or every call from the n-th on
#[derive(Clone, Debug, Default)]
struct FaultPlan {
    fail_write: Vec<(u64, bool)>,
    fail_fsync: Vec<(u64, bool)>,
    persistent_from_write: Option<u64>,
    /// fail (before the bytes land) this many of the next journal-slot writes
    fail_journal_writes: u64,
}

struct Recorder {
    log: Mutex<Vec<Ev>>,
    enabled: AtomicBool,
    writes: AtomicU64,
    fsyncs: AtomicU64,
    plan: Mutex<FaultPlan>,
    injected: AtomicU64,
    fd: AtomicI64,
    /// (worker, shard) pairs seen in worker shard-visit events
    visits: Mutex<std::collections::BTreeSet<(u64, u64)>>,
    /// coordinator ticks: (worker woken + 1 or 0, shards, workers)
    ticks: Mutex<Vec<(u64, u64, u64)>>,
    /// record writes that found no free run (device full)
    alloc_fails: AtomicU64,
    /// hold a worker for this many ms right after it drained a non-empty shard (a slow worker:
    /// widens the window in which the entries exist only in its local batch)
    drain_delay_ms: AtomicU64,
    /// non-empty shard drains seen so far
    drained: AtomicU64,
    /// hold every record-data write for this many ms (the worker sits inside its write transaction,
    /// after it has decided what to write and before any sector is published)
    data_write_delay_ms: AtomicU64,
    data_writes_started: AtomicU64,
    /// apply the delay to this many more record writes only (u64::MAX = all)
    slow_writes_left: AtomicU64,
    /// park the write batch whose first extent starts at this block between its allocation and
    /// the device lock (0 = none); `hold_state`: 0 idle, 1 parked, 2 released
    hold_sector: AtomicU64,
    hold_state: AtomicU64,
    hold_writes: AtomicU64,
}

impl Recorder {
    fn push(&self, e: Ev) {
        self.log.lock().unwrap().push(e);
    }
}

impl feoxdb::verif::io::Observer for Recorder {
    fn event(&self, kind: IoKind, fd: i32, sector: u64, _len: usize, data: &[u8]) -> Decision {
        if !self.enabled.load(Ordering::SeqCst) {
            return Decision::Proceed;
        }
        let mut want = self.fd.load(Ordering::SeqCst);
        if want == -2 {
            // latch on the first descriptor seen: the store under test (opened first)
            let _ = self.fd.compare_exchange(-2, fd as i64, Ordering::SeqCst, Ordering::SeqCst);
            want = self.fd.load(Ordering::SeqCst);
        }
        if want >= 0 && want != fd as i64 {
            return Decision::Proceed;
        }
        match kind {
            IoKind::Write | IoKind::RingWrite => {
                if sector >= 16 && data.len() >= 2 && data[0] == 0xCD && data[1] == 0xAB {
                    self.data_writes_started.fetch_add(1, Ordering::SeqCst);
                    let d = self.data_write_delay_ms.load(Ordering::SeqCst);
                    let left = self.slow_writes_left.load(Ordering::SeqCst);
                    if d > 0 && left > 0 {
                        if left != u64::MAX { self.slow_writes_left.fetch_sub(1, Ordering::SeqCst); }
                        std::thread::sleep(std::time::Duration::from_millis(d));
                    }
                }
                let n = self.writes.fetch_add(1, Ordering::SeqCst) + 1;
                let plan = {
                    let mut p = self.plan.lock().unwrap();
                    if (1..7).contains(&sector) && p.fail_journal_writes > 0 && kind == IoKind::Write {
                        p.fail_journal_writes -= 1;
                        self.injected.fetch_add(1, Ordering::SeqCst);
                        return Decision::FailBefore;
                    }
                    p.clone()
                };
                let mut d = Decision::Proceed;
                if let Some((_, after)) = plan.fail_write.iter().find(|(k, _)| *k == n) {
                    d = if *after { Decision::FailAfter } else { Decision::FailBefore };
                }
                if plan.persistent_from_write.is_some_and(|k| n >= k) {
                    d = Decision::FailBefore;
                }
                if kind == IoKind::RingWrite {
                    d = Decision::Proceed;
                }
                if d != Decision::Proceed {
                    self.injected.fetch_add(1, Ordering::SeqCst);
                }
                // a write that fails *before* never reaches the device
                if d != Decision::FailBefore {
                    self.push(Ev::Write { sector, data: data.to_vec(), failed: d == Decision::FailAfter });
                }
                d
            }
            IoKind::Fsync => {
                let n = self.fsyncs.fetch_add(1, Ordering::SeqCst) + 1;
                let plan = self.plan.lock().unwrap().clone();
                let mut d = Decision::Proceed;
                if let Some((_, after)) = plan.fail_fsync.iter().find(|(k, _)| *k == n) {
                    d = if *after { Decision::FailAfter } else { Decision::FailBefore };
                }
                if plan.persistent_from_write.is_some_and(|k| self.writes.load(Ordering::SeqCst) >= k) {
                    d = Decision::FailBefore;
                }
                if d != Decision::Proceed {
                    self.injected.fetch_add(1, Ordering::SeqCst);
                }
                if d != Decision::FailBefore {
                    self.push(Ev::Fsync { failed: d == Decision::FailAfter });
                }
                d
            }
            IoKind::Read => Decision::Proceed,
        }
    }
}

impl feoxdb::verif::proto::Observer for Recorder {
    fn event(&self, kind: PKind, a: u64, b: u64, key: &[u8], ts: u64) {
        if !self.enabled.load(Ordering::SeqCst) {
            return;
        }
        match kind {
            PKind::Alloc => self.push(Ev::Alloc(a, b)),
            PKind::Publish => self.push(Ev::Publish(a, b, key.to_vec(), ts)),
            PKind::Release => self.push(Ev::Release(a, b)),
            PKind::AllocFail => {
                self.alloc_fails.fetch_add(1, Ordering::SeqCst);
            }
            PKind::WorkerFlush => {
                self.visits.lock().unwrap().insert((a, b));
                if ts > 0 { self.drained.fetch_add(1, Ordering::SeqCst); }
                let d = self.drain_delay_ms.load(Ordering::SeqCst);
                if d > 0 && ts > 0 {
                    std::thread::sleep(std::time::Duration::from_millis(d));
                }
            }
            PKind::BatchAllocated => {
                if a != 0 && a == self.hold_sector.load(Ordering::SeqCst) && self.hold_state.compare_exchange(0, 1, Ordering::SeqCst, Ordering::SeqCst).is_ok() {
                    self.hold_writes.store(b, Ordering::SeqCst);
                    let t0 = std::time::Instant::now();
                    while self.hold_state.load(Ordering::SeqCst) == 1 && t0.elapsed() < std::time::Duration::from_secs(5) {
                        std::thread::sleep(std::time::Duration::from_millis(1));
                    }
                }
            }
            PKind::Tick => {
                let mut t = self.ticks.lock().unwrap();
                if t.len() < 4096 {
                    t.push((a, b, ts));
                }
            }
            _ => {}
        }
    }
}

/// "pressure" workloads: values of several blocks on a device that cannot hold them all
static PRESSURE: AtomicBool = AtomicBool::new(false);

#[derive(Clone, Debug, PartialEq)]
enum St {
    Absent,
    Val { dig: u64, len: usize, ts: u64 },
}

fn fnv(b: &[u8]) -> u64 {
    let mut h: u64 = 14695981039346656037;
    for x in b {
        h = (h ^ (*x as u64)).wrapping_mul(1099511628211);
    }
    h
}

struct Out {
    ops: std::io::BufWriter<std::fs::File>,
    imp: std::io::BufWriter<std::fs::File>,
    failures: Vec<String>,
    hist: BTreeMap<String, u64>,
    images: u64,
    lines: u64,
    dir: String,
    recsize: usize,
    samples: Vec<String>,
    max_latency_ms: u64,
}

impl Out {
    fn count(&mut self, k: &str) {
        *self.hist.entry(k.to_string()).or_insert(0) += 1;
    }
    fn emit(&mut self, op: String, res: String) {
        writeln!(self.ops, "{}", op).unwrap();
        writeln!(self.imp, "{}", res).unwrap();
        self.lines += 1;
    }
    fn fail(&mut self, prop: &str, what: String, replay: &str) {
        self.failures.push(format!("{}\t{}\t{}", prop, what, replay));
    }
}

fn open_store(path: &str, blocks: u64, ttl: bool) -> Result<FeoxStore, FeoxError> {
    FeoxStore::builder()
        .device_path(path.to_string())
        .file_size(blocks * BS as u64)
        .hash_bits(6)
        .enable_caching(false)
        .enable_ttl(ttl)
        .no_memory_limit()
        .build()
}

struct Workload {
    keys: Vec<Vec<u8>>,
    hist: HashMap<Vec<u8>, Vec<St>>,
    blocks: u64,
    /// standing invariants that failed at an acknowledged flush of the live store (props, what)
    inv: Vec<(Vec<&'static str>, String)>,
    /// (trace length, free list) at the last acknowledged explicit flush
    free_at_flush: Option<(usize, Vec<(u64, u64)>)>,
}

fn gen_value(rng: &mut Rng, sector_hint: u64) -> Vec<u8> {
    if PRESSURE.load(Ordering::Relaxed) {
        let n = *rng.pick(&[3000usize, 7000, 11000, 15000, 19000, 30000]);
        return rng.bytes(n);
    }
    let n = match rng.below(8) {
        0 => rng.range(1, 40) as usize,
        1 | 2 => rng.range(4100, 8000) as usize,
        3 => rng.range(8200, 11000) as usize,
        _ => rng.range(100, 3900) as usize,
    };
    let mut v = rng.bytes(n);
    if n > 4200 && rng.chance(1, 2) {
        // a byte-exact image of a deletion marker / record head at a block boundary of the extent
        let at = 4096 - 40 + rng.below(8) as usize * 0; // value starts after the head; aim at block 1 offset 0
        let head_len = 4 + 2 + 8 + 8 + 8 + 8; // rough header for short keys
        let off = 4096usize.saturating_sub(head_len + 8);
        if off + 32 < n {
            if rng.chance(1, 2) {
                let mut m = vec![0u8; 4096.min(n - off)];
                let l = m.len();
                if l >= 19 {
                    let mut blk = vec![0u8; 4096];
                    feoxdb::verif::pure::fill_retirement_markers(&mut blk, sector_hint + 1, 3);
                    m[..l.min(4096)].copy_from_slice(&blk[..l.min(4096)]);
                }
                v[off..off + m.len()].copy_from_slice(&m);
            } else {
                v[off] = 0xCD;
                v[off + 1] = 0xAB;
            }
        }
        let _ = at;
    }
    v
}

/// run a workload against a fresh store, recording everything
fn run_workload(rng: &mut Rng, rec: &Arc<Recorder>, path: &str, blocks: u64, steps: u64, explicit_flush: bool) -> Option<Workload> {
    let _ = std::fs::remove_file(path);
    rec.log.lock().unwrap().clear();
    rec.writes.store(0, Ordering::SeqCst);
    rec.fsyncs.store(0, Ordering::SeqCst);
    rec.injected.store(0, Ordering::SeqCst);
    rec.fd.store(-1, Ordering::SeqCst);
    rec.enabled.store(true, Ordering::SeqCst);
    let ttl_store = rng.chance(1, 2);
    let store = match open_store(path, blocks, ttl_store) {
        Ok(s) => s,
        Err(_) => {
            rec.enabled.store(false, Ordering::SeqCst);
            return None;
        }
    };
    // every fourth workload runs with slow workers and lets the periodic tick fire before flush()
    let slow = explicit_flush && rng.chance(1, 4);
    rec.drain_delay_ms.store(if slow { rng.range(20, 60) } else { 0 }, Ordering::SeqCst);
    // half of the slow workloads hold the worker inside its record write instead
    let slow_write = slow && rng.chance(1, 2);
    if slow_write {
        rec.drain_delay_ms.store(0, Ordering::SeqCst);
        rec.data_write_delay_ms.store(rng.range(15, 40), Ordering::SeqCst);
    }
    let nkeys = rng.range(2, 5);
    let keys: Vec<Vec<u8>> = (0..nkeys).map(|i| format!("key-{}-{}", i, rng.below(1000)).into_bytes()).collect();
    let mut hist: HashMap<Vec<u8>, Vec<St>> = keys.iter().map(|k| (k.clone(), vec![St::Absent])).collect();
    let mut inv_found: Vec<(Vec<&'static str>, String)> = vec![];
    let mut free_at_flush: Option<(usize, Vec<(u64, u64)>)> = None;
    let cur = |hist: &HashMap<Vec<u8>, Vec<St>>| -> Vec<(Vec<u8>, usize)> { hist.iter().map(|(k, v)| (k.clone(), v.len() - 1)).collect() };
    for _ in 0..steps {
        let k = rng.pick(&keys).clone();
        match rng.below(100) {
            0..=54 => {
                let hint = 16 + rng.below(blocks - 16);
                let v = gen_value(rng, hint);
                rec.push(Ev::Begin(format!("ins {} {}", hex(&k), v.len())));
                let r = store.insert(&k, &v);
                let mut accepted = None;
                if r.is_ok() {
                    let ts = store.verif_snapshot().iter().find(|x| x.key == k).map(|x| x.timestamp).unwrap_or(0);
                    let h = hist.get_mut(&k).unwrap();
                    h.push(St::Val { dig: fnv(&v), len: v.len(), ts });
                    accepted = Some(h.len() - 1);
                }
                rec.push(Ev::End { key: k.clone(), accepted, result: format!("{:?}", r.is_ok()) });
                if slow && r.is_ok() && rng.chance(1, 3) {
                    // chase the write: as soon as a worker has drained the shard (and is held before it
                    // writes), delete the key - the delete meets a generation whose transaction is under way
                    let probe = if slow_write { &rec.data_writes_started } else { &rec.drained };
                    let seen = probe.load(Ordering::SeqCst);
                    let t0 = std::time::Instant::now();
                    while probe.load(Ordering::SeqCst) == seen && t0.elapsed() < std::time::Duration::from_millis(160) {
                        std::thread::sleep(std::time::Duration::from_millis(1));
                    }
                    rec.push(Ev::Begin(format!("del {} (chasing its write)", hex(&k))));
                    let r = store.delete(&k);
                    let mut accepted = None;
                    if r.is_ok() {
                        let h = hist.get_mut(&k).unwrap();
                        h.push(St::Absent);
                        accepted = Some(h.len() - 1);
                    }
                    rec.push(Ev::End { key: k.clone(), accepted, result: format!("{:?}", r.is_ok()) });
                }
            }
            55..=74 => {
                rec.push(Ev::Begin(format!("del {}", hex(&k))));
                let r = store.delete(&k);
                let mut accepted = None;
                if r.is_ok() {
                    let h = hist.get_mut(&k).unwrap();
                    h.push(St::Absent);
                    accepted = Some(h.len() - 1);
                }
                rec.push(Ev::End { key: k.clone(), accepted, result: format!("{:?}", r.is_ok()) });
            }
            75..=86 if explicit_flush => {
                if slow {
                    // let the coordinator's tick wake the worker first: flush() then meets a worker
                    // that has drained its shard and not yet written
                    std::thread::sleep(std::time::Duration::from_millis(rng.range(70, 130)));
                }
                let snap = cur(&hist);
                rec.push(Ev::FlushBegin(snap.clone()));
                let r = store.flush();
                if std::env::var("FV_DEBUG").is_ok() { eprintln!("flush -> {:?}", r); }
                rec.push(Ev::FlushEnd { ok: r.is_ok(), snap });
                if r.is_ok() { free_at_flush = Some((rec.log.lock().unwrap().len(), store.verif_free_runs())); }
                if r.is_ok() && inv_found.len() < 3 {
                    let mut f = feox_verif_harness::inv::quiescent(&store);
                    f.extend(feox_verif_harness::inv::after_flush(&store, path));
                    inv_found.extend(f.into_iter().map(|x| (x.props.to_vec(), format!("at an acknowledged flush of the running store: {}", x.what))));
                }
            }
            87..=90 => {
                std::thread::sleep(std::time::Duration::from_millis(rng.range(1, 120)));
            }
            91..=97 => {
                // the other writing calls: every accepted one is a new generation of the key like any insert
                let cur = store.verif_peek_value(&k);
                let hint = 16 + rng.below(blocks - 16);
                let fresh = gen_value(rng, hint);
                let (name, r): (&str, Result<(), FeoxError>) = match rng.below(5) {
                    0 => ("cas", match &cur { Some(c) => store.compare_and_swap(&k, c, &fresh).and_then(|sw| if sw { Ok(()) } else { Err(FeoxError::KeyNotFound) }), None => Err(FeoxError::KeyNotFound) }),
                    1 => ("incr", { if cur.is_none() { let _ = store.insert(&k, &7i64.to_le_bytes()); } store.atomic_increment(&k, rng.range(1, 9) as i64).map(|_| ()) }),
                    2 if ttl_store => ("update_ttl", store.update_ttl(&k, 100_000 + rng.below(1000))),
                    3 if ttl_store => ("insert_with_ttl", store.insert_with_ttl(&k, &fresh, 200_000).map(|_| ())),
                    _ => ("insert_bytes", store.insert_bytes(&k, bytes::Bytes::from(fresh.clone())).map(|_| ())),
                };
                rec.push(Ev::Begin(format!("{} {}", name, hex(&k))));
                // (for `incr` on a fresh key two calls were made: both are reflected by the state read back)
                let mut accepted = None;
                if r.is_ok() || name == "incr" {
                    let snap = store.verif_snapshot();
                    let now_state = match snap.iter().find(|x| x.key == k) {
                        Some(x) => store.verif_peek_value(&k).map(|v| St::Val { dig: fnv(&v), len: v.len(), ts: x.timestamp }),
                        None => Some(St::Absent),
                    };
                    if let Some(stt) = now_state {
                        let h = hist.get_mut(&k).unwrap();
                        if h.last() != Some(&stt) {
                            h.push(stt);
                            accepted = Some(h.len() - 1);
                        }
                    }
                }
                rec.push(Ev::End { key: k.clone(), accepted, result: format!("{:?}", r.is_ok()) });
            }
            _ => {
                let _ = store.get(&k);
            }
        }
    }
    if explicit_flush || rng.chance(1, 2) {
        let snap = cur(&hist);
        rec.push(Ev::FlushBegin(snap.clone()));
        let r = store.flush();
        if std::env::var("FV_DEBUG").is_ok() { eprintln!("final flush -> {:?} free={:?}", r, store.verif_free_runs()); }
        rec.push(Ev::FlushEnd { ok: r.is_ok(), snap });
    }
    // clean close = acknowledgement too — unless the device was too full to take what was still
    // queued (drop cannot return OutOfSpace; it reports it on stderr)
    let snap = cur(&hist);
    rec.push(Ev::FlushBegin(snap.clone()));
    let full_before = rec.alloc_fails.load(Ordering::SeqCst);
    drop(store);
    let had_room = rec.alloc_fails.load(Ordering::SeqCst) == full_before;
    rec.push(Ev::FlushEnd { ok: had_room, snap });
    rec.drain_delay_ms.store(0, Ordering::SeqCst);
    rec.data_write_delay_ms.store(0, Ordering::SeqCst);
    rec.enabled.store(false, Ordering::SeqCst);
    Some(Workload { keys, hist, blocks, inv: inv_found, free_at_flush })
}

#[derive(Clone, Debug)]
enum Fate {
    Applied,
    Lost,
    /// keep only these 512-byte sectors of the write (bit i = sector i kept)
    Torn(Vec<bool>),
}

/// image after the first `upto` events, with the given fate for each write issued since the last
/// completed fsync (a write whose call was made to fail *after* landing counts as landed)
fn build_image(trace: &[Ev], upto: usize, blocks: u64, fates: &dyn Fn(usize, usize) -> Fate) -> (Vec<u8>, usize) {
    let mut img = vec![0u8; blocks as usize * BS];
    let mut pending: Vec<(u64, &Vec<u8>)> = vec![];
    let apply = |img: &mut Vec<u8>, sector: u64, data: &[u8]| {
        let off = sector as usize * BS;
        if off + data.len() <= img.len() {
            img[off..off + data.len()].copy_from_slice(data);
        }
    };
    for e in &trace[..upto] {
        match e {
            Ev::Write { sector, data, .. } => pending.push((*sector, data)),
            Ev::Fsync { failed } => {
                // an fsync that was made to fail *before* is not in the trace; failed-after still synced
                let _ = failed;
                for (s, d) in pending.drain(..) {
                    apply(&mut img, s, d);
                }
            }
            _ => {}
        }
    }
    let n = pending.len();
    for (i, (s, d)) in pending.iter().enumerate() {
        match fates(i, n) {
            Fate::Applied => apply(&mut img, *s, d),
            Fate::Lost => {}
            Fate::Torn(mask) => {
                for (j, chunk) in d.chunks(512).enumerate() {
                    if mask.get(j).copied().unwrap_or(false) {
                        let off = *s as usize * BS + j * 512;
                        if off + chunk.len() <= img.len() {
                            img[off..off + chunk.len()].copy_from_slice(chunk);
                        }
                    }
                }
            }
        }
    }
    (img, n)
}

/// per-key window at crash point `upto`: (last acknowledged index, latest index whose call had begun)
fn window(trace: &[Ev], upto: usize, keys: &[Vec<u8>]) -> HashMap<Vec<u8>, (usize, usize)> {
    let mut ack: HashMap<Vec<u8>, usize> = keys.iter().map(|k| (k.clone(), 0)).collect();
    let mut latest: HashMap<Vec<u8>, usize> = keys.iter().map(|k| (k.clone(), 0)).collect();
    let mut pending_begin: Option<usize> = None;
    for (i, e) in trace[..upto].iter().enumerate() {
        match e {
            Ev::Begin(_) => pending_begin = Some(i),
            Ev::End { key, accepted, .. } => {
                pending_begin = None;
                if let Some(j) = accepted {
                    latest.insert(key.clone(), *j);
                }
            }
            Ev::FlushEnd { ok: true, snap } => {
                for (k, j) in snap {
                    let a = ack.get_mut(k).unwrap();
                    *a = (*a).max(*j);
                }
            }
            _ => {}
        }
    }
    // a call that had begun but not returned may or may not have been accepted: allow one more state
    let mut w = HashMap::new();
    for k in keys {
        let mut hi = latest[k];
        if pending_begin.is_some() {
            hi += 1;
        }
        w.insert(k.clone(), (ack[k], hi));
    }
    let _ = pending_begin;
    w
}

struct Recovered {
    contents: BTreeMap<Vec<u8>, (u64, usize, u64)>, // key -> (digest, len, ts)
    len: usize,
    /// ownership / counter problems of the recovered store (C05), before it is closed again
    partition: Vec<String>,
    /// standing invariants of a store at rest that fail right after the recovery (props, what)
    inv: Vec<(Vec<&'static str>, String)>,
    /// the free list recovery rebuilt
    free: Vec<(u64, u64)>,
}

fn recover(path: &str, blocks: u64) -> Result<Recovered, String> {
    let p = path.to_string();
    let r = catch_unwind(AssertUnwindSafe(|| open_store(&p, blocks, false)));
    match r {
        Err(_) => Err("panic".into()),
        Ok(Err(e)) => Err(format!("err {}", err_name(&e))),
        Ok(Ok(store)) => {
            let mut contents = BTreeMap::new();
            for r in store.verif_snapshot() {
                match store.get(&r.key) {
                    Ok(v) => {
                        contents.insert(r.key.clone(), (fnv(&v), v.len(), r.timestamp));
                    }
                    Err(e) => return Err(format!("get of recovered key failed: {}", err_name(&e))),
                }
            }
            let len = store.len();
            let partition = partition_errors(&store, blocks, "recovered store");
            let inv = feox_verif_harness::inv::quiescent(&store).into_iter().map(|f| (f.props.to_vec(), f.what)).collect();
            let free = store.verif_free_runs();
            drop(store);
            Ok(Recovered { contents, len, partition, inv, free })
        }
    }
}

/// a working session on a recovered device: delete / rewrite / keep each recovered key, flush, close, open again
fn second_session(path: &str, blocks: u64, rv: &Recovered, seed: u64) -> Option<String> {
    let mut rng = Rng::new(seed);
    let store = open_store(path, blocks, false).ok()?;
    let mut expect: BTreeMap<Vec<u8>, Option<(u64, usize)>> = BTreeMap::new();
    let mut did: Vec<String> = vec![];
    for (k, (dig, len, _)) in rv.contents.iter() {
        match rng.below(4) {
            0 | 1 => {
                if store.delete(k).is_ok() { expect.insert(k.clone(), None); did.push(format!("delete {}", hex(k))); }
                else { expect.insert(k.clone(), Some((*dig, *len))); }
            }
            2 => {
                let v: Vec<u8> = (0..rng.range(1, 6000) as usize).map(|i| (i as u8).wrapping_mul(7) ^ 0xA5).collect();
                if store.insert(k, &v).is_ok() { expect.insert(k.clone(), Some((fnv(&v), v.len()))); did.push(format!("insert {} ({} bytes)", hex(k), v.len())); }
                else { expect.insert(k.clone(), Some((*dig, *len))); }
            }
            _ => { expect.insert(k.clone(), Some((*dig, *len))); }
        }
    }
    if store.flush().is_err() { drop(store); return None; }
    drop(store);
    let again = match recover(path, blocks) {
        Ok(a) => a,
        Err(e) => return Some(format!("after a session on the recovered device ({}; flush = Ok; close) the device does not reopen: {}", did.join(", "), e)),
    };
    for (k, want) in &expect {
        let got = again.contents.get(k).map(|(d, l, _)| (*d, *l));
        if got != *want {
            return Some(format!("after a session on the recovered device ({}; flush = Ok; close) the next open shows key {} as {} where the acknowledged state is {}",
                did.join(", "), hex(k), match got { None => "absent".to_string(), Some((_, l)) => format!("a {}-byte value", l) },
                match want { None => "deleted".to_string(), Some((_, l)) => format!("a {}-byte value", l) }));
        }
    }
    if let Some(k) = again.contents.keys().find(|k| !expect.contains_key(*k)) {
        return Some(format!("after a session on the recovered device ({}; flush = Ok; close) the next open shows key {}, which the recovered store did not hold", did.join(", "), hex(k)));
    }
    None
}

/// does the recovered state satisfy C02/C03 at this crash point?
fn check_window(w: &Workload, win: &HashMap<Vec<u8>, (usize, usize)>, r: &Recovered) -> Option<String> {
    if r.len != r.contents.len() {
        return Some(format!("len() = {} but {} keys are exposed", r.len, r.contents.len()));
    }
    for k in r.contents.keys() {
        if !w.hist.contains_key(k) {
            return Some(format!("a key that was never written surfaced: {}", hex(k)));
        }
    }
    for k in &w.keys {
        let h = &w.hist[k];
        let (lo, hi) = win[k];
        let hi = hi.min(h.len() - 1);
        let ok = match r.contents.get(k) {
            None => (lo..=hi).any(|j| h[j] == St::Absent),
            Some((dig, len, ts)) => (lo..=hi).any(|j| h[j] == St::Val { dig: *dig, len: *len, ts: *ts }),
        };
        if !ok {
            let what = match r.contents.get(k) {
                None => "absent".to_string(),
                Some((d, l, t)) => {
                    let older = (0..lo).any(|j| h[j] == St::Val { dig: *d, len: *l, ts: *t });
                    format!("a value of {} bytes ts={} ({})", l, t, if older { "an OLDER generation than the acknowledged one" } else { "not a generation the application stored under this key" })
                }
            };
            return Some(format!("key {} recovered as {} but its history window is states {}..={} of {}", hex(k), what, lo, hi, h.len() - 1));
        }
    }
    None
}

fn write_image(dir: &str, name: &str, img: &[u8]) -> String {
    let p = format!("{}/{}", dir, name);
    std::fs::write(&p, img).unwrap();
    p
}

/// crash-image exploration of one recorded workload
fn explore_crashes(rng: &mut Rng, out: &mut Out, rec: &Arc<Recorder>, w: &Workload, trace: &[Ev], tag: &str, budget: usize, lean_lines: bool) {
    let io_points: Vec<usize> = trace.iter().enumerate().filter(|(_, e)| matches!(e, Ev::Write { .. } | Ev::Fsync { .. })).map(|(i, _)| i + 1).collect();
    if io_points.is_empty() {
        return;
    }
    let mut points: Vec<usize> = io_points.clone();
    // every prefix when small, otherwise a spread sample plus the neighbourhood of fsyncs
    if points.len() > budget {
        let mut chosen = vec![];
        for _ in 0..budget {
            chosen.push(*rng.pick(&io_points));
        }
        chosen.sort();
        chosen.dedup();
        points = chosen;
    }
    for upto in points {
        let win = window(trace, upto, &w.keys);
        let (_, npend) = build_image(trace, upto, w.blocks, &|_, _| Fate::Applied);
        let mut variants: Vec<(String, Box<dyn Fn(usize, usize) -> Fate>)> = vec![];
        variants.push(("all-applied".into(), Box::new(|_, _| Fate::Applied)));
        if npend > 0 {
            variants.push(("all-lost".into(), Box::new(|_, _| Fate::Lost)));
            let seed = rng.next();
            variants.push(("subset".into(), Box::new(move |i, _| if (seed >> (i % 60)) & 1 == 1 { Fate::Applied } else { Fate::Lost })));
            let victim = rng.below(npend as u64) as usize;
            let tseed = rng.next();
            let others = rng.next();
            variants.push(("torn".into(), Box::new(move |i, _| {
                if i == victim {
                    let style = tseed % 3;
                    let cut = (tseed >> 8) as usize % 25;
                    Fate::Torn((0..64).map(|j| match style { 0 => j < cut, 1 => j >= cut, _ => (tseed >> (j % 60)) & 1 == 1 }).collect())
                } else if (others >> (i % 60)) & 1 == 1 { Fate::Applied } else { Fate::Lost }
            })));
            variants.push(("last-only".into(), Box::new(move |i, n| if i + 1 == n { Fate::Applied } else { Fate::Lost })));
            // the write issued last is torn the other way round - its first 512-byte sector still holds the old bytes,
            // the rest is new (an old block head over a new body: nothing but a durable intent makes recovery ignore it)
            let keep_old = 1 + (tseed >> 20) as usize % 3;
            variants.push(("torn-last".into(), Box::new(move |i, n| if i + 1 == n { Fate::Torn((0..4096).map(|j| j >= keep_old).collect()) } else { Fate::Applied })));
            // reordering + tearing at block granularity: the last write (typically the journal slot)
            // lands, of every earlier un-synced write only the blocks after the first do
            variants.push(("last+tails".into(), Box::new(move |i, n| if i + 1 == n { Fate::Applied } else { Fate::Torn((0..4096).map(|j| j >= 8).collect()) })));
        }
        for (vname, f) in variants {
            let (img, _) = build_image(trace, upto, w.blocks, f.as_ref());
            out.images += 1;
            out.count(&format!("image-{}", vname));
            let name = format!("{}_c{}_{}.feox", tag, upto, vname);
            let p = write_image(&out.dir, &name, &img);
            let keep = format!("{}.orig", p);
            std::fs::write(&keep, &img).unwrap();
            // real recovery, observed (for C04 restart cuts)
            rec.log.lock().unwrap().clear();
            rec.fd.store(-1, Ordering::SeqCst);
            rec.enabled.store(true, Ordering::SeqCst);
            let r = recover(&p, w.blocks);
            rec.enabled.store(false, Ordering::SeqCst);
            let rtrace: Vec<Ev> = rec.log.lock().unwrap().clone();
            // recovery's own device trace must follow the journal discipline too, starting from the
            // journal the crash image holds
            if lean_lines && r.is_ok() && img.len() >= 7 * BS {
                if let Ok((_, slot, extents)) = feoxdb::verif::pure::journal_decode(&img[BS..7 * BS], w.blocks) {
                    out.count("txn recovery trace");
                    emit_txn_lines(out, &rtrace, w.blocks, Some((&extents, slot)));
                }
            }
            match &r {
                Err(e) => {
                    out.count("recover-failed");
                    out.fail("C03", format!("crash image does not reopen ({}) — crash after event {} of the device trace, un-synced writes: {}", e, upto, vname), &keep);
                    // with something acknowledged before the crash, a file that cannot be reopened has lost it
                    let acked = win.values().filter(|(a, _)| *a > 0).count();
                    if acked > 0 {
                        out.fail("C02", format!("{} keys were acknowledged by flush() before the crash, but the crash image does not reopen ({}) — crash after event {} of the device trace, un-synced writes: {}", acked, e, upto, vname), &keep);
                    }
                    if e.contains("get of recovered key failed") {
                        // recovery indexed the key and then made its record unreadable: its own repair writes hit a live record
                        out.fail("C04", format!("recovery damaged a record it had just indexed ({}) — crash after event {} of the device trace, un-synced writes: {}", e, upto, vname), &keep);
                    }
                }
                Ok(rv) => {
                    out.count("recover-ok");
                    for e in rv.partition.iter().take(1) {
                        out.fail("C05", format!("{} — crash after event {} ({}), un-synced writes: {}", e, upto, describe(trace, upto), vname), &keep);
                    }
                    for (props, what) in rv.inv.iter().take(2) {
                        for p in props {
                            out.fail(p, format!("recovered store: {} — crash after event {} ({}), un-synced writes: {}", what, upto, describe(trace, upto), vname), &keep);
                        }
                    }
                    if let Some(why) = check_window(w, &win, rv) {
                        // (a state older than the acknowledged one breaks both the durability promise of C02 and
                        // the "not older than the last acknowledged one" clause of C03)
                        let props: &[&str] = if why.contains("OLDER") || why.contains("absent") { &["C02", "C03"] } else { &["C03"] };
                        for prop in props {
                            out.fail(prop, format!("{} — crash after event {} ({}), un-synced writes: {}", why, upto, describe(trace, upto), vname), &keep);
                        }
                    }
                    // C04: open again without writing: same contents
                    let again = recover(&p, w.blocks);
                    match again {
                        Ok(a) if a.contents == rv.contents && a.free == rv.free => {}
                        Ok(a) if a.contents == rv.contents => out.fail("C04", format!("a second recovery of the same device rebuilds a different free list: first {:?}, second {:?} (crash after event {}, {})", rv.free, a.free, upto, vname), &keep),
                        Ok(_) => out.fail("C04", format!("second open of a recovered image exposes different contents (crash after event {}, {})", upto, vname), &keep),
                        Err(e) => out.fail("C04", format!("second open of a recovered image fails: {}", e), &keep),
                    }
                    // C02 across sessions: the recovered store is put to use - some of the recovered keys deleted, some
                    // rewritten - flushed (acknowledged) and closed; the next open must show exactly that.  (A stale
                    // generation that recovery left on the device stays hidden only as long as its winner lives.)
                    if !rv.contents.is_empty() && rng.chance(1, 3) {
                        out.count("second session on a recovered image");
                        if let Some(why) = second_session(&p, w.blocks, rv, rng.next()) {
                            out.fail("C02", format!("{} — on the image of the crash after event {} ({}), un-synced writes: {}", why, upto, describe(trace, upto), vname), &keep);
                        }
                    }
                    // C04: crash inside recovery's own repair writes, then recover again
                    let rio: Vec<usize> = rtrace.iter().enumerate().filter(|(_, e)| matches!(e, Ev::Write { .. })).map(|(i, _)| i + 1).collect();
                    if !rio.is_empty() && rng.chance(1, 2) {
                        let cut = *rng.pick(&rio);
                        let mut img2 = img.clone();
                        // apply recovery's writes up to the cut onto the crash image (durable ones), the rest by fate
                        let (overlay, _) = build_overlay(&rtrace, cut, &img2, rng.next());
                        img2 = overlay;
                        let p2 = write_image(&out.dir, &format!("{}_c{}_{}_r{}.feox", tag, upto, vname, cut), &img2);
                        let keep2 = format!("{}.orig", p2);
                        std::fs::write(&keep2, &img2).unwrap();
                        out.images += 1;
                        out.count("image-recovery-cut");
                        match recover(&p2, w.blocks) {
                            Ok(b) if b.contents == rv.contents => {}
                            Ok(_) => out.fail("C04", format!("recovery restarted after a crash inside its own repair writes (cut {}) reports different contents than the first recovery", cut), &keep2),
                            Err(e) => out.fail("C04", format!("recovery restarted after a crash inside its own repair writes (cut {}) fails: {}", cut, e), &keep2),
                        }
                        let _ = std::fs::remove_file(&p2);
                        if out.failures.is_empty() { let _ = std::fs::remove_file(&keep2); }
                    }
                }
            }
            if lean_lines {
                // the Lean reader on the same crash image
                let line = lean_recover_line(&keep, w.blocks, out.recsize);
                out.emit(format!("fmt recover {} 0 0 0 0 {}", keep, out.recsize), line);
            } else if out.failures.is_empty() {
                let _ = std::fs::remove_file(&keep);
            }
            let _ = std::fs::remove_file(&p);
        }
    }
}

/// the device trace as `txn` lines for the journal-discipline acceptor `Feox.Proto.Txn.step?`:
/// journal slot writes (decoded: active with runs, or clear), data-area writes with their block
/// range, metadata writes, fsyncs.  `resume`: the runs of the journal the file held at open.
fn emit_txn_lines(out: &mut Out, trace: &[Ev], blocks: u64, resume: Option<(&[(u64, usize)], usize)>) {
    let show = |es: &[(u64, usize)]| if es.is_empty() { "-".to_string() } else { es.iter().map(|e| format!("{}:{}", e.0, e.0 + e.1 as u64)).collect::<Vec<_>>().join(",") };
    match resume {
        None => out.emit("txn new".into(), "ok".into()),
        Some((es, slot)) => out.emit(format!("txn resume {} {}", show(es), slot), "ok".into()),
    }
    for e in trace {
        match e {
            Ev::Write { sector, data, .. } => {
                let nb = (data.len().div_ceil(BS)).max(1) as u64;
                if (1..7).contains(sector) {
                    let mut area = vec![0u8; 6 * BS];
                    let off = (*sector as usize - 1) * BS;
                    let l = data.len().min(area.len() - off);
                    area[off..off + l].copy_from_slice(&data[..l]);
                    match feoxdb::verif::pure::journal_decode(&area, blocks) {
                        // (the slot the record went to: 3 blocks per slot from block 1 on)
                        Ok((_, _, extents)) => { out.count(if extents.is_empty() { "txn journal clear" } else { "txn journal active" }); out.emit(format!("txn j {} {}", show(&extents), (*sector - 1) / 3), "ok".into()); }
                        Err(_) => out.emit("txn j ?".into(), "ok".into()),
                    }
                } else if *sector >= 16 {
                    out.count("txn data-area write");
                    out.emit(format!("txn w {} {}", sector, sector + nb), "ok".into());
                } else {
                    out.emit("txn o".into(), "ok".into());
                }
            }
            Ev::Fsync { .. } => out.emit("txn f".into(), "ok".into()),
            _ => {}
        }
    }
}

/// the allocation / publication / release events of the run as `space` lines for the bookkeeping
/// model `Feox.C05.accept` (the model's allocator must hand out the same extents; a release must be
/// a union of extents the model holds), ending with the free list the store reports
fn emit_space_lines(out: &mut Out, trace: &[Ev], blocks: u64, final_free: &[(u64, u64)]) {
    out.emit(format!("space new {}", blocks * BS as u64), "ok".into());
    for e in trace {
        match e {
            Ev::Alloc(a, n) => { out.count("space alloc"); out.emit(format!("space a {} {}", a, n), "ok".into()); }
            Ev::Publish(a, n, _, _) => out.emit(format!("space p {} {}", a, n), "ok".into()),
            Ev::Release(a, n) => { out.count("space release"); out.emit(format!("space r {} {}", a, n), "ok".into()); }
            _ => {}
        }
    }
    let want = if final_free.is_empty() { "ok".to_string() } else { format!("ok {}", final_free.iter().map(|r| format!("{}+{}", r.0, r.1)).collect::<Vec<_>>().join(" ")) };
    out.emit("space free".into(), want);
}

/// the per-key durability events of a recorded run, as `dur` lines for the Lean acceptor
/// (`Feox.Proto.Dur.step?`).  accept = API call accepted a new state; durable = the write
/// transaction of that generation completed (publish event); retire = an intent journal listing
/// the extent of a published generation was written; skip = a superseded generation that was
/// never written, inferred at acknowledgements; ack = flush()/close returned Ok.
fn emit_dur_lines(out: &mut Out, w: &Workload, trace: &[Ev]) {
    let total = w.blocks;
    for k in &w.keys {
        let h = &w.hist[k];
        out.emit("dur new".into(), "ok".into());
        let mut published: HashMap<u64, usize> = HashMap::new(); // sector -> idx
        let mut pending: Vec<usize> = vec![];
        let mut latest = 0usize;
        for e in trace {
            match e {
                Ev::End { key, accepted: Some(j), .. } if key == k => {
                    latest = *j;
                    match &h[*j] {
                        St::Absent => out.emit("dur accept -".into(), "ok".into()),
                        St::Val { .. } => {
                            pending.push(*j);
                            out.emit("dur accept 1".into(), "ok".into());
                        }
                    }
                }
                Ev::Publish(sector, _n, key, ts) if key == k => {
                    if let Some(j) = h.iter().position(|s| matches!(s, St::Val { ts: t, .. } if t == ts)) {
                        published.insert(*sector, j);
                        pending.retain(|x| *x != j);
                        out.emit(format!("dur durable {}", j), "ok".into());
                    }
                }
                Ev::Write { sector, data, .. } if *sector == 1 || *sector == 4 => {
                    // an allocation-journal slot image: decode it on its own
                    let mut area = vec![0u8; 6 * BS];
                    let l = data.len().min(3 * BS);
                    area[..l].copy_from_slice(&data[..l]);
                    if let Ok((_g, _slot, extents)) = feoxdb::verif::pure::journal_decode(&area, total) {
                        let mut hit: Vec<(u64, usize)> = published.iter().filter(|(s, _)| extents.iter().any(|(es, en)| **s >= *es && **s < *es + *en as u64)).map(|(s, j)| (*s, *j)).collect();
                        hit.sort();
                        for (s, j) in hit {
                            published.remove(&s);
                            out.emit(format!("dur retire {}", j), "ok".into());
                        }
                    }
                }
                Ev::FlushEnd { ok: true, .. } => {
                    let stale: Vec<usize> = pending.iter().copied().filter(|j| *j < latest).collect();
                    for j in stale {
                        pending.retain(|x| *x != j);
                        out.emit(format!("dur skip {}", j), "ok".into());
                    }
                    out.emit("dur ack".into(), "ok".into());
                }
                _ => {}
            }
        }
    }
}

fn describe(trace: &[Ev], upto: usize) -> String {
    let mut last_api = String::new();
    for e in &trace[..upto] {
        if let Ev::Begin(s) = e {
            last_api = s.clone();
        }
    }
    format!("during/after `{}`", last_api.chars().take(40).collect::<String>())
}

/// apply recovery's own writes (trace `rtrace`, first `cut` events) over `base`: synced ones fully,
/// un-synced ones by a random subset
fn build_overlay(rtrace: &[Ev], cut: usize, base: &[u8], seed: u64) -> (Vec<u8>, usize) {
    let mut img = base.to_vec();
    let mut pending: Vec<(u64, &Vec<u8>)> = vec![];
    for e in &rtrace[..cut] {
        match e {
            Ev::Write { sector, data, .. } => pending.push((*sector, data)),
            Ev::Fsync { .. } => {
                for (s, d) in pending.drain(..) {
                    let off = s as usize * BS;
                    if off + d.len() <= img.len() { img[off..off + d.len()].copy_from_slice(d); }
                }
            }
            _ => {}
        }
    }
    let n = pending.len();
    for (i, (s, d)) in pending.iter().enumerate() {
        if (seed >> (i % 60)) & 1 == 1 {
            // torn at block granularity inside a multi-block marker write: keep a prefix of blocks
            let keep_blocks = ((seed >> 20) as usize % (d.len() / BS + 1)).max(0);
            let l = (keep_blocks * BS).min(d.len());
            let off = *s as usize * BS;
            if off + l <= img.len() { img[off..off + l].copy_from_slice(&d[..l]); }
        }
    }
    (img, n)
}

fn show_extents(es: &[(u64, usize)]) -> String {
    if es.is_empty() { "-".into() } else { es.iter().map(|e| format!("{}:{}", e.0, e.1)).collect::<Vec<_>>().join(",") }
}

/// the canonical `fmt recover` answer line of the implementation for an image (same format as the
/// fmt engine): opens a scratch copy
fn lean_recover_line(keep: &str, blocks: u64, _recsize: usize) -> String {
    let work = format!("{}.work", keep);
    std::fs::copy(keep, &work).unwrap();
    let before = std::fs::read(&work).unwrap();
    feoxdb::verif::clock::pin(1);
    let w2 = work.clone();
    let r = catch_unwind(AssertUnwindSafe(|| open_store(&w2, blocks, false)));
    let line = match r {
        Err(_) => "panic open".to_string(),
        Ok(Err(e)) => {
            let same = std::fs::read(&work).unwrap() == before;
            format!("err {} body={} writes=?", err_name(&e), if same { "same".to_string() } else { body_digest(&work).to_string() })
        }
        Ok(Ok(store)) => {
            let lives: Vec<String> = store.verif_snapshot().iter().map(|r| {
                let vd = store.get(&r.key).map(|v| fnv(&v).to_string()).unwrap_or_else(|e| format!("E{}", err_name(&e)));
                format!("{}:{}:{}:{}:{}:{}", hex(&r.key), r.timestamp, r.ttl_expiry, r.value_len, r.sector, vd)
            }).collect();
            let free: Vec<(u64, usize)> = store.verif_free_runs().iter().map(|r| (r.0, r.1 as usize)).collect();
            let line = format!("ok v={} fresh={} n={} mem={} disk={} amb={} live=[{}] free=[{}]", store.verif_format_version(),
                before.iter().all(|b| *b == 0) as u8, store.len(), store.memory_usage(), store.verif_disk_usage(), 0, lives.join(","), show_extents(&free));
            drop(store);
            format!("{} body={}", line, body_digest(&work))
        }
    };
    feoxdb::verif::clock::unpin();
    let _ = std::fs::remove_file(&work);
    line
}

fn body_digest(path: &str) -> u64 {
    let after = std::fs::read(path).unwrap();
    let mut body = after[BS..7 * BS].to_vec();
    body.extend_from_slice(&after[16 * BS..]);
    fnv(&body)
}

/// C05: at a quiescent point the data area is partitioned into live extents and free runs, and the
/// counters agree
fn partition_errors(store: &FeoxStore, blocks: u64, ctx: &str) -> Vec<String> {
    let mut errs: Vec<String> = vec![];
    let snap = store.verif_snapshot();
    let free = store.verif_free_runs();
    let mut owner = vec![0u8; blocks as usize];
    let mut live_blocks = 0u64;
    for r in &snap {
        if r.sector == 0 {
            errs.push(format!("{}: after an acknowledged flush key {} has no extent", ctx, hex(&r.key)));
            continue;
        }
        let n = (4 + 2 + r.key.len() + 8 + 8 + 8 + r.value_len).div_ceil(BS) as u64;
        live_blocks += n;
        for b in r.sector..r.sector + n {
            if b >= blocks || b < 16 {
                errs.push(format!("{}: extent of key {} leaves the data area (block {})", ctx, hex(&r.key), b));
                return errs;
            }
            if owner[b as usize] != 0 {
                errs.push(format!("{}: block {} belongs to two live extents", ctx, b));
                return errs;
            }
            owner[b as usize] = 1;
        }
    }
    for (s, n) in &free {
        for b in *s..*s + *n {
            if b >= blocks || b < 16 || owner[b as usize] != 0 {
                errs.push(format!("{}: free run {}+{} overlaps a live extent or leaves the data area at block {}", ctx, s, n, b));
                return errs;
            }
            owner[b as usize] = 2;
        }
    }
    let unowned: Vec<usize> = (16..blocks as usize).filter(|b| owner[*b] == 0).collect();
    if !unowned.is_empty() {
        errs.push(format!("{}: {} data blocks are neither live nor free (leaked), first {}", ctx, unowned.len(), unowned[0]));
    }
    if store.verif_disk_usage() != live_blocks * BS as u64 {
        errs.push(format!("{}: disk usage counter {} != live total {}", ctx, store.verif_disk_usage(), live_blocks * BS as u64));
    }
    if store.len() != snap.len() {
        errs.push(format!("{}: len() {} != live keys {}", ctx, store.len(), snap.len()));
    }
    errs
}

/// `MarkOK` of the disk model on the real device: a valid retirement marker claims `remaining`
/// blocks from its own position on; recovery trusts that claim (a span whose tail is not all
/// markers is "repaired", i.e. overwritten).  So no block inside the span of any marker on the
/// device may belong to a live, published record.
fn marker_span_errors(path: &str, store: &FeoxStore, blocks: u64, ctx: &str) -> Vec<String> {
    let Ok(img) = std::fs::read(path) else { return vec![] };
    let mut owner: Vec<Option<Vec<u8>>> = vec![None; blocks as usize];
    for r in store.verif_snapshot() {
        if r.sector == 0 { continue; }
        let n = (4 + 2 + r.key.len() + 8 + 8 + 8 + r.value_len).div_ceil(BS) as u64;
        for b in r.sector..(r.sector + n).min(blocks) { owner[b as usize] = Some(r.key.clone()); }
    }
    let mut errs = vec![];
    for b in 16..blocks as usize {
        let o = b * BS;
        if o + 19 > img.len() || owner[b].is_some() { continue; }
        if &img[o..o + 8] != b"\0DELETED" { continue; }
        let token = u16::from_le_bytes([img[o + 16], img[o + 17]]);
        if token != feoxdb::verif::pure::retirement_marker_token(b as u64, &img[o..o + 19]) { continue; }
        let rem = u64::from_le_bytes(img[o + 8..o + 16].try_into().unwrap());
        for i in 1..rem.min(blocks - b as u64) {
            if let Some(k) = &owner[b + i as usize] {
                errs.push(format!("{}: the retirement marker in free block {} claims {} blocks, but block {} holds the live record of key {} - the next recovery skips / overwrites it", ctx, b, rem, b + i as usize, hex(k)));
                return errs;
            }
        }
    }
    errs
}

fn check_partition(out: &mut Out, store: &FeoxStore, blocks: u64, ctx: &str) {
    for e in partition_errors(store, blocks, ctx) { out.fail("C05", e, "-"); }
}

/// C05 behavioural: fill / churn / delete everything on a tiny device, then a fresh-device workload
/// must fit again; partition checked at every acknowledged flush
fn partition_run(rng: &mut Rng, out: &mut Out, dir: &str, idx: u64) {
    let blocks = rng.range(20, 40);
    let path = format!("{}/part{}.feox", dir, idx);
    let _ = std::fs::remove_file(&path);
    let Ok(store) = open_store(&path, blocks, false) else { return };
    let keys: Vec<Vec<u8>> = (0..rng.range(2, 6)).map(|i| format!("p{}", i).into_bytes()).collect();
    let rounds = rng.range(3, 25);
    for round in 0..rounds {
        for _ in 0..rng.range(1, 6) {
            let k = rng.pick(&keys).clone();
            if rng.chance(3, 4) {
                let n = *rng.pick(&[100usize, 3000, 4090, 5000, 9000, 13000]);
                let _ = store.insert(&k, &rng.bytes(n));
            } else {
                let _ = store.delete(&k);
            }
        }
        let fr = store.flush();
        // whatever the flush said: no marker on the device may claim a block of a published record
        for e in marker_span_errors(&path, &store, blocks, &format!("partition run {} round {}", idx, round)) {
            out.fail("C05", e.clone(), "-");
        }
        match fr {
            Ok(()) => check_partition(out, &store, blocks, &format!("partition run {} round {}", idx, round)),
            Err(FeoxError::OutOfSpace) => {
                // device full: make room and go on
                for k in &keys { let _ = store.delete(k); }
                let _ = store.flush();
            }
            Err(_) => {}
        }
        out.count("partition-round");
    }
    // empty the device, then everything a fresh device accepts must fit: one record spanning almost
    // the whole data area
    for k in &keys { let _ = store.delete(k); }
    if store.flush().is_ok() {
        check_partition(out, &store, blocks, &format!("partition run {} emptied", idx));
        let free = store.verif_free_runs();
        if free.len() != 1 || free[0].0 != 16 || free[0].1 != blocks - 16 {
            out.fail("C05", format!("partition run {}: an emptied device does not offer the whole data area as one free run: {:?}", idx, free), "-");
        }
        let big = ((blocks - 16) as usize * BS).min(4 * 1024 * 1024) - 64;
        let r1 = store.insert(b"big", &vec![7u8; big]);
        let r2 = store.flush();
        if r1.is_err() || r2.is_err() {
            out.fail("C05", format!("partition run {}: emptied device refuses a record a fresh device of {} blocks accepts ({} bytes)", idx, blocks, big), "-");
        }
    }
    drop(store);
    // the persisted counters (newest metadata copy) equal the live totals: reopen and compare
    if let Ok(s2) = open_store(&path, blocks, false) {
        check_partition(out, &s2, blocks, &format!("partition run {} after reopen", idx));
    }
    let _ = std::fs::remove_file(&path);
}

/// C09: fault runs
fn fault_run(rng: &mut Rng, out: &mut Out, rec: &Arc<Recorder>, dir: &str, idx: u64) {
    let blocks = rng.range(24, 48);
    let path = format!("{}/fault{}.feox", dir, idx);
    // a fault-free rehearsal to learn how many writes / fsyncs the workload issues
    let mut r0 = Rng::new(idx * 7919 + 13);
    let steps = r0.range(4, 14);
    let base_seed = r0.next();
    let rehearse = |plan: FaultPlan, rec: &Arc<Recorder>| -> (Vec<Ev>, Option<Workload>, Vec<(bool, Vec<(Vec<u8>, usize)>)>, BTreeMap<Vec<u8>, St>, bool) {
        *rec.plan.lock().unwrap() = plan;
        let mut rr = Rng::new(base_seed);
        let _ = std::fs::remove_file(&path);
        rec.log.lock().unwrap().clear();
        rec.writes.store(0, Ordering::SeqCst);
        rec.fsyncs.store(0, Ordering::SeqCst);
        rec.injected.store(0, Ordering::SeqCst);
        rec.enabled.store(true, Ordering::SeqCst);
        let Ok(store) = open_store(&path, blocks, false) else {
            rec.enabled.store(false, Ordering::SeqCst);
            return (vec![], None, vec![], BTreeMap::new(), false);
        };
        let keys: Vec<Vec<u8>> = (0..5).map(|i| format!("f{}", i).into_bytes()).collect();
        let mut hist: HashMap<Vec<u8>, Vec<St>> = keys.iter().map(|k| (k.clone(), vec![St::Absent])).collect();
        let mut flushes = vec![];
        let mut mem_view: BTreeMap<Vec<u8>, St> = BTreeMap::new();
        for _ in 0..steps {
            let k = rr.pick(&keys).clone();
            match rr.below(12) {
                10 | 11 => {
                    // compare-and-swap / increment / zero-copy insert: generations like any other
                    let cur = store.verif_peek_value(&k);
                    let flen = *rr.pick(&[40usize, 2500, 4500]);
                    let fresh = rr.bytes(flen);
                    let which = rr.below(3);
                    rec.push(Ev::Begin(format!("{} {}", ["cas", "incr", "insert_bytes"][which as usize], hex(&k))));
                    let _ = match which {
                        0 => match &cur { Some(c) => store.compare_and_swap(&k, c, &fresh).map(|_| ()), None => Ok(()) },
                        1 => { if cur.as_ref().is_none_or(|c| c.len() != 8) { let _ = store.insert(&k, &3i64.to_le_bytes()); } store.atomic_increment(&k, 2).map(|_| ()) }
                        _ => store.insert_bytes(&k, bytes::Bytes::from(fresh.clone())).map(|_| ()),
                    };
                    let mut acc = None;
                    let now_state = match store.verif_snapshot().iter().find(|x| x.key == k) {
                        Some(x) => store.verif_peek_value(&k).map(|v| St::Val { dig: fnv(&v), len: v.len(), ts: x.timestamp }),
                        None => Some(St::Absent),
                    };
                    if let Some(stt) = now_state {
                        let h = hist.get_mut(&k).unwrap();
                        if h.last() != Some(&stt) {
                            match &stt { St::Absent => { mem_view.remove(&k); } v => { mem_view.insert(k.clone(), v.clone()); } }
                            h.push(stt);
                            acc = Some(h.len() - 1);
                        }
                    }
                    rec.push(Ev::End { key: k, accepted: acc, result: String::new() });
                }
                0..=5 => {
                    let n = *rr.pick(&[50usize, 3000, 5000]);
                    let v = rr.bytes(n);
                    rec.push(Ev::Begin(format!("ins {}", hex(&k))));
                    let r = store.insert(&k, &v);
                    let mut acc = None;
                    if r.is_ok() {
                        let ts = store.verif_snapshot().iter().find(|x| x.key == k).map(|x| x.timestamp).unwrap_or(0);
                        let h = hist.get_mut(&k).unwrap();
                        h.push(St::Val { dig: fnv(&v), len: v.len(), ts });
                        acc = Some(h.len() - 1);
                        mem_view.insert(k.clone(), h.last().unwrap().clone());
                    }
                    rec.push(Ev::End { key: k, accepted: acc, result: String::new() });
                }
                6 | 7 => {
                    rec.push(Ev::Begin(format!("del {}", hex(&k))));
                    let r = store.delete(&k);
                    let mut acc = None;
                    if r.is_ok() {
                        let h = hist.get_mut(&k).unwrap();
                        h.push(St::Absent);
                        acc = Some(h.len() - 1);
                        mem_view.remove(&k);
                    }
                    rec.push(Ev::End { key: k, accepted: acc, result: String::new() });
                }
                _ => {
                    let snap: Vec<(Vec<u8>, usize)> = hist.iter().map(|(k, v)| (k.clone(), v.len() - 1)).collect();
                    rec.push(Ev::FlushBegin(snap.clone()));
                    let r = store.flush();
                    rec.push(Ev::FlushEnd { ok: r.is_ok(), snap: snap.clone() });
                    flushes.push((r.is_ok(), snap));
                    // failed or not: no marker on the device may claim a block of a published record
                    for e in marker_span_errors(&path, &store, blocks, "after a flush") {
                        flushes.push((false, vec![(format!("!marker-span {}", e).into_bytes(), 0)]));
                    }
                }
            }
        }
        // reads keep returning the latest accepted values from memory, whatever failed
        let mut reads_ok = true;
        for k in &keys {
            let got = store.get(k).ok().map(|v| fnv(&v));
            let want = match mem_view.get(k) { Some(St::Val { dig, .. }) => Some(*dig), _ => None };
            if got != want { reads_ok = false; }
        }
        // the device works again: a flush must now succeed (unless the device was poisoned by an
        // indeterminate failure, in which case a reopen must)
        *rec.plan.lock().unwrap() = FaultPlan::default();
        let snap: Vec<(Vec<u8>, usize)> = hist.iter().map(|(k, v)| (k.clone(), v.len() - 1)).collect();
        rec.push(Ev::FlushBegin(snap.clone()));
        let r = store.flush();
        let poisoned = matches!(r, Err(FeoxError::IndeterminateWrite(_)));
        rec.push(Ev::FlushEnd { ok: r.is_ok(), snap: snap.clone() });
        flushes.push((r.is_ok() || poisoned, snap));
        // a device that is simply full is not an I/O failure - provided the failure handling leaked
        // nothing (free + used = the whole data area)
        let full_not_leaked = matches!(r, Err(FeoxError::OutOfSpace)) && {
            let free: u64 = store.verif_free_runs().iter().map(|x| x.1).sum();
            free * BS as u64 + store.verif_disk_usage() == (blocks - 16) * BS as u64
        };
        if !(r.is_ok() || poisoned || full_not_leaked) {
            let why = match &r { Err(e) => err_name(e), Ok(()) => "ok" };
            flushes.push((false, vec![(format!("!retry-failed {} free={:?} usage={}", why, store.verif_free_runs(), store.verif_disk_usage()).into_bytes(), 0)]));
        }
        // second phase on the healthy device: more writes must not disturb what was acknowledged
        if r.is_ok() {
            for round in 0..3 {
                for k in &keys {
                    let n = *rr.pick(&[60usize, 3500, 5200]);
                    let v = rr.bytes(n);
                    rec.push(Ev::Begin(format!("ins2 {}", hex(k))));
                    let r2 = store.insert(k, &v);
                    let mut acc = None;
                    if r2.is_ok() {
                        let ts = store.verif_snapshot().iter().find(|x| &x.key == k).map(|x| x.timestamp).unwrap_or(0);
                        let h = hist.get_mut(k).unwrap();
                        h.push(St::Val { dig: fnv(&v), len: v.len(), ts });
                        acc = Some(h.len() - 1);
                        mem_view.insert(k.clone(), h.last().unwrap().clone());
                    }
                    rec.push(Ev::End { key: k.clone(), accepted: acc, result: String::new() });
                    if round == 1 { break; }
                }
                let snap: Vec<(Vec<u8>, usize)> = hist.iter().map(|(k, v)| (k.clone(), v.len() - 1)).collect();
                rec.push(Ev::FlushBegin(snap.clone()));
                let r3 = store.flush();
                rec.push(Ev::FlushEnd { ok: r3.is_ok(), snap: snap.clone() });
                flushes.push((r3.is_ok(), snap));
                for k in &keys {
                    let got = store.get(k).ok().map(|v| fnv(&v));
                    let want = match mem_view.get(k) { Some(St::Val { dig, .. }) => Some(*dig), _ => None };
                    if got != want { reads_ok = false; }
                }
            }
        }
        rec.enabled.store(false, Ordering::SeqCst);
        // keep the handle out of the trace from here: drop without recording
        drop(store);
        let trace = rec.log.lock().unwrap().clone();
        (trace, Some(Workload { keys, hist, blocks, inv: vec![], free_at_flush: None }), flushes, mem_view, reads_ok)
    };
    let (t0, w0, _, _, _) = rehearse(FaultPlan::default(), rec);
    if w0.is_none() { return; }
    let nwrites = t0.iter().filter(|e| matches!(e, Ev::Write { .. })).count() as u64;
    let nfsyncs = t0.iter().filter(|e| matches!(e, Ev::Fsync { .. })).count() as u64;
    if nwrites == 0 { return; }
    // fault plans: single write / fsync, before or after; a pair; persistent from a point on
    let mut plans: Vec<(String, FaultPlan)> = vec![];
    for _ in 0..3 {
        let n = rng.range(3, nwrites.max(3));
        let after = rng.chance(1, 2);
        plans.push((format!("write#{}{}", n, if after { "-after" } else { "-before" }), FaultPlan { fail_write: vec![(n, after)], ..Default::default() }));
    }
    for _ in 0..3 {
        let n = rng.range(1, nfsyncs.max(1));
        let after = rng.chance(1, 2);
        plans.push((format!("fsync#{}{}", n, if after { "-after" } else { "-before" }), FaultPlan { fail_fsync: vec![(n, after)], ..Default::default() }));
    }
    {
        let a = rng.range(3, nwrites.max(3));
        let b = rng.range(1, nfsyncs.max(1));
        plans.push((format!("pair-write#{}-fsync#{}", a, b), FaultPlan { fail_write: vec![(a, false)], fail_fsync: vec![(b, rng.chance(1, 2))], ..Default::default() }));
        let c = rng.range(3, nwrites.max(3));
        plans.push((format!("persistent-from-write#{}", c), FaultPlan { persistent_from_write: Some(c), ..Default::default() }));
        // the same write failing on every retry (3 attempts)
        let d = rng.range(3, nwrites.max(3));
        plans.push((format!("write#{}x3", d), FaultPlan { fail_write: vec![(d, false), (d + 1, false), (d + 2, false)], ..Default::default() }));
    }
    for (pname, plan) in plans {
        let (trace, w, flushes, _mem, reads_ok) = rehearse(plan, rec);
        let Some(w) = w else { continue };
        out.count("fault-run");
        // the per-key event sequence under faults must still be one the durability automaton accepts
        emit_dur_lines(out, &w, &trace);
        if out.samples.len() < 2 {
            out.samples.push(format!("fault plan {} on a {}-block device: {} device events, {} flush calls ({} acknowledged)", pname, w.blocks, trace.len(), flushes.len(), flushes.iter().filter(|f| f.0).count()));
        }
        out.count(&format!("fault-{}", pname.split('#').next().unwrap_or("")));
        if !reads_ok {
            out.fail("C09", format!("fault plan {}: a read did not return the latest accepted value from memory", pname), "-");
        }
        if let Some((_, sn)) = flushes.iter().find(|(_, s)| s.first().is_some_and(|x| x.0.starts_with(b"!marker-span"))) {
            let what = format!("fault plan {}: {} (device {} blocks)", pname, String::from_utf8_lossy(&sn[0].0), w.blocks);
            out.fail("C09", what.clone(), "-");
            out.fail("C05", what, "-");
        }
        if let Some((_, sn)) = flushes.iter().find(|(_, s)| s.first().is_some_and(|x| x.0.starts_with(b"!retry-failed"))) {
            out.fail("C09", format!("fault plan {}: after the device works again flush() still fails (and not as an indeterminate write): {} (device {} blocks)", pname, String::from_utf8_lossy(&sn[0].0), w.blocks), "-");
        }
        // flush()==Ok only if durable: the image at each FlushEnd{ok} (durable part only) must hold the window;
        // and at *every* point the last durable generation must still be recoverable
        let ends: Vec<usize> = trace.iter().enumerate().filter(|(_, e)| matches!(e, Ev::FlushEnd { .. })).map(|(i, _)| i + 1).collect();
        for upto in ends.iter().copied().chain(std::iter::once(trace.len())) {
            let win = window(&trace, upto, &w.keys);
            for (vname, lost) in [("all-lost", true), ("all-applied", false)] {
                let (img, _) = build_image(&trace, upto, w.blocks, &move |_, _| if lost { Fate::Lost } else { Fate::Applied });
                let p = write_image(dir, &format!("fault{}_{}_{}.feox", idx, upto, vname), &img);
                let keep = format!("{}.orig", p);
                std::fs::write(&keep, &img).unwrap();
                out.images += 1;
                out.count("image-fault");
                match recover(&p, w.blocks) {
                    Err(e) => out.fail("C09", format!("fault plan {}: device as it stands after event {} does not recover: {}", pname, upto, e), &keep),
                    Ok(rv) => {
                        if let Some(why) = check_window(&w, &win, &rv) {
                            out.fail("C09", format!("fault plan {}: {} (device as it stands after event {}, un-synced writes {})", pname, why, upto, vname), &keep);
                        } else {
                            let _ = std::fs::remove_file(&keep);
                        }
                    }
                }
                let _ = std::fs::remove_file(&p);
            }
        }
    }
    let _ = std::fs::remove_file(&path);
}

/// C19: no explicit flush; every accepted write must be durable within a generous deadline
/// directed fault case: the free pool starts with a coalesced retirement run (a head marker that
/// claims several blocks); one flush then carries the batches of several keys, and ONE device write
/// or fsync of that flush fails - every position in turn.  Right after the failed flush, and again
/// after the device works and a flush is acknowledged, no marker may claim a block of a published
/// record, and a recovery of the device as it stands must return every acknowledged key.
fn stale_head_run(rng: &mut Rng, out: &mut Out, rec: &Arc<Recorder>, dir: &str, idx: u64) {
    let blocks = 40u64;
    let path = format!("{}/head{}.feox", dir, idx);
    let nold = rng.range(2, 4);
    let nnew = rng.range(2, 4);
    let mut plans: Vec<(String, FaultPlan)> = vec![("rehearsal".into(), FaultPlan::default())];
    let mut pi = 0;
    let mut base_writes = (0u64, 0u64, 0u64, 0u64); // writes / fsyncs before and after the flush under test
    while pi < plans.len() {
        let (pname, plan) = plans[pi].clone();
        pi += 1;
        let _ = std::fs::remove_file(&path);
        *rec.plan.lock().unwrap() = FaultPlan::default();
        rec.log.lock().unwrap().clear();
        rec.writes.store(0, Ordering::SeqCst);
        rec.fsyncs.store(0, Ordering::SeqCst);
        rec.fd.store(-2, Ordering::SeqCst);
        rec.enabled.store(true, Ordering::SeqCst);
        let Ok(store) = open_store(&path, blocks, false) else { rec.enabled.store(false, Ordering::SeqCst); rec.fd.store(-1, Ordering::SeqCst); return };
        let old: Vec<Vec<u8>> = (0..nold).map(|i| format!("old-{}", i).into_bytes()).collect();
        for k in &old { let _ = store.insert(k, &vec![0x61; 100]); }
        let _ = store.flush();
        for k in &old { let _ = store.delete(k); }
        let _ = store.flush();
        let w0 = (rec.writes.load(Ordering::SeqCst), rec.fsyncs.load(Ordering::SeqCst));
        let newk: Vec<Vec<u8>> = (0..nnew).map(|i| format!("new-{}", i).into_bytes()).collect();
        let mut vals: BTreeMap<Vec<u8>, Vec<u8>> = BTreeMap::new();
        for (i, k) in newk.iter().enumerate() { let v = vec![0x70 + i as u8; 120]; let _ = store.insert(k, &v); vals.insert(k.clone(), v); }
        *rec.plan.lock().unwrap() = plan.clone();
        let fr = store.flush();
        *rec.plan.lock().unwrap() = FaultPlan::default();
        let w1 = (rec.writes.load(Ordering::SeqCst), rec.fsyncs.load(Ordering::SeqCst));
        out.count("stale-head-fault-case");
        let mut errs = marker_span_errors(&path, &store, blocks, &format!("stale-head case, fault plan {}, right after flush() = {}", pname, if fr.is_ok() { "Ok" } else { "Err" }));
        // the keys whose generation did not make it are deleted before any retry; then the device works
        for r in store.verif_snapshot() { if r.sector == 0 { let _ = store.delete(&r.key); vals.remove(&r.key); } }
        let fr2 = store.flush();
        let poisoned = matches!(fr2, Err(FeoxError::IndeterminateWrite(_)));
        if errs.is_empty() {
            errs = marker_span_errors(&path, &store, blocks, &format!("stale-head case, fault plan {}, after the device works again", pname));
        }
        if fr2.is_ok() {
            // recover the device as it stands
            let img = std::fs::read(&path).unwrap_or_default();
            let p = write_image(dir, &format!("head{}_{}.feox", idx, pi), &img);
            match recover(&p, blocks) {
                Err(e) => errs.push(format!("stale-head case, fault plan {}: the device as it stands after an acknowledged flush does not recover: {}", pname, e)),
                Ok(rv) => {
                    for (k, v) in &vals {
                        match rv.contents.get(k) {
                            Some((d, l, _)) if *d == fnv(v) && *l == v.len() => {}
                            other => { errs.push(format!("stale-head case, fault plan {}: key {} was acknowledged by flush() after the failure, but a recovery of the device as it stands returns {:?}", pname, hex(k), other.map(|x| x.1))); break; }
                        }
                    }
                }
            }
            let _ = std::fs::remove_file(&p);
        } else if !poisoned {
            errs.push(format!("stale-head case, fault plan {}: after the device works again flush() still fails: {:?}", pname, fr2.as_ref().err().map(err_name)));
        }
        for e in errs.iter().take(1) {
            out.fail("C09", e.clone(), "-");
            out.fail("C05", e.clone(), "-");
        }
        drop(store);
        rec.enabled.store(false, Ordering::SeqCst);
        rec.fd.store(-1, Ordering::SeqCst);
        if pname == "rehearsal" {
            base_writes = (w0.0, w0.1, w1.0, w1.1);
            for k in base_writes.0 + 1..=base_writes.2 {
                plans.push((format!("write#{}-before", k), FaultPlan { fail_write: vec![(k, false)], ..Default::default() }));
                if rng.chance(1, 2) { plans.push((format!("write#{}-after", k), FaultPlan { fail_write: vec![(k, true)], ..Default::default() })); }
            }
            for k in base_writes.1 + 1..=base_writes.3 {
                plans.push((format!("fsync#{}-before", k), FaultPlan { fail_fsync: vec![(k, false)], ..Default::default() }));
            }
        }
    }
    let _ = base_writes;
    let _ = std::fs::remove_file(&path);
}

/// C02 / C03 without any fault: a free run starts with a retirement marker that claims several
/// blocks (two neighbouring extents retired in one transaction).  Two write batches of different
/// workers take the first and the second block of that run; the one that holds the head block is
/// parked between its allocation and the device lock while the other one completes its whole
/// transaction (and the retirement of the generation it replaced).  A crash at that instant - only
/// what was fsynced survives - must still recover every key to a state no older than the last
/// acknowledged one.
fn hazard_run(rng: &mut Rng, out: &mut Out, rec: &Arc<Recorder>, dir: &str, idx: u64) {
    let blocks = 48u64;
    let path = format!("{}/hazard{}.feox", dir, idx);
    let _ = std::fs::remove_file(&path);
    *rec.plan.lock().unwrap() = FaultPlan::default();
    rec.log.lock().unwrap().clear();
    rec.hold_sector.store(0, Ordering::SeqCst);
    rec.hold_state.store(0, Ordering::SeqCst);
    rec.fd.store(-2, Ordering::SeqCst);
    rec.enabled.store(true, Ordering::SeqCst);
    let finish = |rec: &Arc<Recorder>| { rec.hold_sector.store(0, Ordering::SeqCst); rec.hold_state.store(2, Ordering::SeqCst); rec.enabled.store(false, Ordering::SeqCst); rec.fd.store(-1, Ordering::SeqCst); };
    let Ok(store) = open_store(&path, blocks, false) else { finish(rec); return };
    let tag = rng.below(100000);
    let kg = format!("g-{}", tag).into_bytes();
    let ka = format!("a-{}", tag).into_bytes();
    let kb = format!("b-{}", tag).into_bytes();
    let kf = format!("f-{}", tag).into_bytes();
    let v0 = rng.bytes(100);
    let v1 = rng.bytes(110);
    // one record per flush: kG, a, b end up in neighbouring blocks, in this order
    for (k, v) in [(&kg, &v0), (&ka, &rng.bytes(90)), (&kb, &rng.bytes(95))] {
        if store.insert(k, v).is_err() || store.flush().is_err() { finish(rec); return; }
    }
    let snap = store.verif_snapshot();
    let sec = |k: &Vec<u8>| snap.iter().find(|r| &r.key == k).map(|r| r.sector).unwrap_or(0);
    let (sg, sa, sb) = (sec(&kg), sec(&ka), sec(&kb));
    if sa == 0 || sb != sa + 1 { out.count("hazard skipped (extents not adjacent)"); drop(store); finish(rec); let _ = std::fs::remove_file(&path); return; }
    // both retired in one transaction: one coalesced run, its head claims two blocks
    let _ = store.delete(&ka);
    let _ = store.delete(&kb);
    if store.flush().is_err() { finish(rec); return; }
    let acked_trace_len = rec.log.lock().unwrap().len();
    let _ = acked_trace_len;
    // the batch that gets the head block is parked after its allocation
    rec.hold_sector.store(sa, Ordering::SeqCst);
    let _ = store.insert(&kf, &rng.bytes(80));
    let _ = store.insert(&kg, &v1);
    // no flush(): the periodic flusher wakes both workers; wait until the other batch has published kG's
    // new generation and the old one has been retired (its blocks released), or give up
    let t0 = std::time::Instant::now();
    let mut done = false;
    while t0.elapsed() < std::time::Duration::from_millis(1500) {
        std::thread::sleep(std::time::Duration::from_millis(5));
        let log = rec.log.lock().unwrap();
        let published = log.iter().any(|e| matches!(e, Ev::Publish(_, _, k, _) if k == &kg) ) && log.iter().filter(|e| matches!(e, Ev::Publish(_, _, k, _) if k == &kg)).count() >= 2;
        let retired = log.iter().any(|e| matches!(e, Ev::Release(s, _) if *s == sg));
        if rec.hold_state.load(Ordering::SeqCst) == 1 && published && retired { done = true; break; }
    }
    let parked = rec.hold_state.load(Ordering::SeqCst) == 1;
    let trace: Vec<Ev> = rec.log.lock().unwrap().clone();
    rec.hold_state.store(2, Ordering::SeqCst);
    if !(done && parked) || rec.hold_writes.load(Ordering::SeqCst) != 1 {
        out.count(if !parked { "hazard skipped (head batch not parked)" } else if rec.hold_writes.load(Ordering::SeqCst) != 1 { "hazard skipped (both records in one batch)" } else { "hazard skipped (other batch did not finish)" });
        let _ = store.flush();
        drop(store);
        finish(rec);
        let _ = std::fs::remove_file(&path);
        return;
    }
    out.count("hazard case");
    // crash now: what was fsynced, nothing else
    let (img, _) = build_image(&trace, trace.len(), blocks, &|_, _| Fate::Lost);
    let p = write_image(dir, &format!("hazard{}_crash.feox", idx), &img);
    let keep = format!("{}.orig", p);
    std::fs::write(&keep, &img).unwrap();
    let r = recover(&p, blocks);
    let _ = store.flush();
    drop(store);
    finish(rec);
    let verdict = match &r {
        Err(e) => Some(format!("the crash image does not recover: {}", e)),
        Ok(rv) => match rv.contents.get(&kg) {
            Some((d, l, _)) if (*d == fnv(&v0) && *l == v0.len()) || (*d == fnv(&v1) && *l == v1.len()) => None,
            other => Some(format!("key {} was acknowledged with a {}-byte value by flush(); after a crash while a neighbouring write batch sat between its allocation and the device lock, recovery returns {:?} for it", hex(&kg), v0.len(), other.map(|x| x.1))),
        },
    };
    match verdict {
        Some(why) => {
            let what = format!("no fault, two workers: the free run at block {} starts with a retirement marker claiming 2 blocks; one batch holds block {} (allocated, not yet journalled), the other wrote and published block {} and retired the old generation at block {}: {}", sa, sa, sa + 1, sg, why);
            out.fail("C02", what.clone(), &keep);
            out.fail("C03", what, &keep);
        }
        None => { let _ = std::fs::remove_file(&keep); }
    }
    let _ = std::fs::remove_file(&p);
    let _ = std::fs::remove_file(&path);
}

/// several callers of `flush()` at once, with many retirements pending: each caller's `Ok` is an acknowledgement of
/// every delete that completed before it was called - whichever thread does the retiring.  The moment a caller's
/// flush returns, the device as it is *durably* (what has been fsynced by then, nothing else) is recovered: none of
/// the deleted keys may be there.
fn concurrent_flush_run(rng: &mut Rng, out: &mut Out, rec: &Arc<Recorder>, dir: &str, idx: u64) {
    let blocks = 4096u64;
    let path = format!("{}/cflush{}.feox", dir, idx);
    let _ = std::fs::remove_file(&path);
    *rec.plan.lock().unwrap() = FaultPlan::default();
    rec.log.lock().unwrap().clear();
    rec.hold_sector.store(0, Ordering::SeqCst);
    rec.hold_state.store(0, Ordering::SeqCst);
    rec.fd.store(-2, Ordering::SeqCst);
    rec.enabled.store(true, Ordering::SeqCst);
    let finish = |rec: &Arc<Recorder>| { rec.enabled.store(false, Ordering::SeqCst); rec.fd.store(-1, Ordering::SeqCst); };
    let Ok(store) = open_store(&path, blocks, false) else { finish(rec); return };
    let store = Arc::new(store);
    let n = rng.range(600, 1800);
    let keys: Vec<Vec<u8>> = (0..n).map(|i| format!("cf{}-{:05}", idx, i).into_bytes()).collect();
    for k in &keys { let _ = store.insert(k, &rng.bytes(60)); }
    if store.flush().is_err() { finish(rec); return; }
    for k in &keys { let _ = store.delete(k); }
    let callers = rng.range(2, 4) as usize;
    let barrier = Arc::new(std::sync::Barrier::new(callers));
    let mut hs = vec![];
    for _ in 0..callers {
        let (st, rec2, barrier) = (store.clone(), rec.clone(), barrier.clone());
        hs.push(std::thread::spawn(move || {
            barrier.wait();
            let ok = st.flush().is_ok();
            // what the device trace holds at the moment this caller was answered
            let at = rec2.log.lock().unwrap().len();
            (ok, at)
        }));
    }
    let answers: Vec<(bool, usize)> = hs.into_iter().filter_map(|h| h.join().ok()).collect();
    let trace: Vec<Ev> = rec.log.lock().unwrap().clone();
    let _ = store.flush();
    drop(store);
    finish(rec);
    out.count("concurrent-flush case");
    for (i, (ok, at)) in answers.iter().enumerate() {
        if !*ok { continue; }
        let (img, _) = build_image(&trace, *at, blocks, &|_, _| Fate::Lost);
        let p = write_image(dir, &format!("cflush{}_{}.feox", idx, i), &img);
        let keep = format!("{}.orig", p);
        std::fs::write(&keep, &img).unwrap();
        let verdict = match recover(&p, blocks) {
            Err(e) => Some(format!("the device as it was durably when the call returned does not recover: {}", e)),
            Ok(rv) => {
                let back = keys.iter().filter(|k| rv.contents.contains_key(*k)).count();
                if back > 0 { Some(format!("{} of the {} keys are still there after a recovery of what was durable when the call returned", back, n)) } else { None }
            }
        };
        let _ = std::fs::remove_file(&p);
        match verdict {
            Some(why) => {
                out.fail("C02", format!("{} callers of flush() at once after {} deletes had completed: caller {} was answered Ok, but {}", callers, n, i, why), &keep);
                break;
            }
            None => { let _ = std::fs::remove_file(&keep); }
        }
    }
    let _ = std::fs::remove_file(&path);
}

/// an outage that spans several flush attempts, with updates in between: every device write fails from some point
/// on; keys written before are flushed (refused), updated, a few background ticks pass, flushed again (refused);
/// the device comes back.  Whatever `flush()` then says - Ok on a handle that survived, or an error until the file
/// is reopened - once a flush *is* acknowledged, deletes are issued and acknowledged, and the device as it stands
/// is recovered: no deleted key may be there, and no key may show a state older than the last acknowledged one.
fn outage_update_run(rng: &mut Rng, out: &mut Out, rec: &Arc<Recorder>, dir: &str, idx: u64) {
    let blocks = 256u64;
    let path = format!("{}/outupd{}.feox", dir, idx);
    let _ = std::fs::remove_file(&path);
    *rec.plan.lock().unwrap() = FaultPlan::default();
    rec.log.lock().unwrap().clear();
    rec.writes.store(0, Ordering::SeqCst);
    rec.fd.store(-2, Ordering::SeqCst);
    rec.enabled.store(true, Ordering::SeqCst);
    let finish = |rec: &Arc<Recorder>| { *rec.plan.lock().unwrap() = FaultPlan::default(); rec.enabled.store(false, Ordering::SeqCst); rec.fd.store(-1, Ordering::SeqCst); };
    let Ok(mut store) = open_store(&path, blocks, false) else { finish(rec); return };
    let n = rng.range(6, 14);
    let keys: Vec<Vec<u8>> = (0..n).map(|i| format!("ou{}-{:03}", idx, i).into_bytes()).collect();
    // a durable base generation for half of the keys
    for k in keys.iter().step_by(2) { let _ = store.insert(k, &rng.bytes(120)); }
    if store.flush().is_err() { finish(rec); return; }
    // the outage: every device write from now on fails before it lands
    let first = |rng: &mut Rng| rng.bytes(100);
    for k in &keys { let _ = store.insert(k, &first(rng)); }
    rec.plan.lock().unwrap().persistent_from_write = Some(rec.writes.load(Ordering::SeqCst) + 1);
    let r1 = store.flush().is_ok();
    for k in &keys { let _ = store.insert(k, &rng.bytes(140)); }
    std::thread::sleep(std::time::Duration::from_millis(rng.range(150, 350)));
    let r2 = store.flush().is_ok();
    std::thread::sleep(std::time::Duration::from_millis(120));
    // the device works again
    rec.plan.lock().unwrap().persistent_from_write = None;
    out.count("outage-with-updates case");
    let mut reopened = false;
    let mut acked = store.flush().is_ok();
    if !acked {
        // an indeterminate failure: the property asks for a reopen
        drop(store);
        rec.fd.store(-2, Ordering::SeqCst);
        match open_store(&path, blocks, false) { Ok(s) => { store = s; reopened = true; } Err(_) => { finish(rec); let _ = std::fs::remove_file(&path); return; } }
        for k in &keys { let _ = store.insert(k, &rng.bytes(90)); }
        acked = store.flush().is_ok();
    }
    if !acked { out.count("outage-with-updates: no flush acknowledged after the outage"); drop(store); finish(rec); let _ = std::fs::remove_file(&path); return; }
    if r1 || r2 { out.count("outage-with-updates: a flush during the outage said Ok"); }
    // acknowledged deletes of every key
    for k in &keys { let _ = store.delete(k); }
    if store.flush().is_err() { drop(store); finish(rec); let _ = std::fs::remove_file(&path); return; }
    // the device as it stands (everything acknowledged is fsynced; nothing is pending)
    let trace: Vec<Ev> = rec.log.lock().unwrap().clone();
    let cp = format!("{}/outupd{}_asis.feox", dir, idx);
    let _ = std::fs::copy(&path, &cp);
    let keep = format!("{}.orig", cp);
    let _ = std::fs::copy(&path, &keep);
    let _ = trace;
    let verdict = match recover(&cp, blocks) {
        Err(e) => Some(format!("the device as it stands does not recover: {}", e)),
        Ok(rv) => {
            let back: Vec<String> = keys.iter().filter(|k| rv.contents.contains_key(*k)).map(|k| hex(k)).collect();
            if back.is_empty() { None } else { Some(format!("{} of {} keys whose delete was acknowledged by flush() after the outage are back after a recovery of the device as it stands (first {})", back.len(), n, back[0])) }
        }
    };
    drop(store);
    finish(rec);
    let _ = std::fs::remove_file(&cp);
    match verdict {
        Some(why) => {
            let what = format!("outage spanning two flush attempts with updates in between ({}; flushes during the outage: {} / {}): {}", if reopened { "file reopened after the outage" } else { "same handle after the outage" }, r1, r2, why);
            out.fail("C09", what.clone(), &keep);
            out.fail("C02", what, &keep);
        }
        None => { let _ = std::fs::remove_file(&keep); }
    }
    let _ = std::fs::remove_file(&path);
}

/// a write batch large enough for its journal intent to span more than one 512-byte sector (60+ records), after two
/// earlier acknowledged transactions of the same session; the crash tears exactly that intent write (its first sector
/// lands, the rest does not, and the other way round).  The slot fails its checksum, so recovery takes the *other*
/// slot: that must be the record of the last completed transaction's end, not an older intent - every key that was
/// acknowledged before must be there with its value.
fn bigbatch_run(rng: &mut Rng, out: &mut Out, rec: &Arc<Recorder>, dir: &str, idx: u64) {
    let blocks = 512u64;
    let path = format!("{}/bigbatch{}.feox", dir, idx);
    let _ = std::fs::remove_file(&path);
    *rec.plan.lock().unwrap() = FaultPlan::default();
    rec.log.lock().unwrap().clear();
    rec.hold_sector.store(0, Ordering::SeqCst);
    rec.hold_state.store(0, Ordering::SeqCst);
    rec.fd.store(-2, Ordering::SeqCst);
    rec.enabled.store(true, Ordering::SeqCst);
    let finish = |rec: &Arc<Recorder>| { rec.enabled.store(false, Ordering::SeqCst); rec.fd.store(-1, Ordering::SeqCst); };
    let Ok(store) = open_store(&path, blocks, false) else { finish(rec); return };
    let mut acked: Vec<(Vec<u8>, Vec<u8>)> = vec![];
    for t in 0..rng.range(2, 4) {
        for i in 0..rng.range(2, 6) {
            let k = format!("bb{}-t{}-{}", idx, t, i).into_bytes();
            let vl = rng.range(20, 300) as usize;
            let v = rng.bytes(vl);
            let _ = store.insert(&k, &v);
            acked.push((k, v));
        }
        if store.flush().is_err() { finish(rec); return; }
    }
    // in half of the cases the store is closed and opened again first: the big batch's intent is then the first
    // journal record of a session (written next to the record the previous session ended with)
    let store = if rng.chance(1, 2) {
        drop(store);
        match open_store(&path, blocks, false) { Ok(s) => { out.count("bigbatch after a reopen"); s } Err(_) => { finish(rec); return; } }
    } else { store };
    // the big batch: one shard would do, but the keys spread; enough of them for every shard's intent to be long
    let nbig = rng.range(700, 1100);
    for i in 0..nbig { let _ = store.insert(format!("bb{}-big-{:05}", idx, i).as_bytes(), &rng.bytes(30)); }
    let before = rec.log.lock().unwrap().len();
    let _ = store.flush();
    let trace: Vec<Ev> = rec.log.lock().unwrap().clone();
    drop(store);
    finish(rec);
    out.count("bigbatch case");
    // journal writes of the big flush whose image is longer than one sector
    let targets: Vec<usize> = trace.iter().enumerate().skip(before).filter(|(_, e)| matches!(e, Ev::Write { sector, data, .. } if (1..7).contains(sector) && {
        let mut area = vec![0u8; 6 * BS];
        let off = (*sector as usize - 1) * BS;
        let l = data.len().min(area.len() - off);
        area[off..off + l].copy_from_slice(&data[..l]);
        matches!(feoxdb::verif::pure::journal_decode(&area, blocks), Ok((_, _, ex)) if ex.len() >= 60)
    })).map(|(i, _)| i + 1).collect();
    if targets.is_empty() { out.count("bigbatch skipped (no journal intent with 60+ extents)"); let _ = std::fs::remove_file(&path); return; }
    let mut reported = false;
    for &upto in targets.iter().take(4) {
        for style in 0..2 {
            let (img, _) = build_image(&trace, upto, blocks, &|i, n| if i + 1 == n { Fate::Torn((0..4096).map(|j| if style == 0 { j < 1 } else { j >= 1 }).collect()) } else { Fate::Applied });
            out.images += 1;
            out.count("image-torn-long-intent");
            let p = write_image(dir, &format!("bigbatch{}_c{}_{}.feox", idx, upto, style), &img);
            let keep = format!("{}.orig", p);
            std::fs::write(&keep, &img).unwrap();
            let verdict = match recover(&p, blocks) {
                Err(e) => Some(format!("the crash image does not reopen ({})", e)),
                Ok(rv) => {
                    let lost: Vec<String> = acked.iter().filter(|(k, v)| !matches!(rv.contents.get(k), Some((d, l, _)) if *d == fnv(v) && *l == v.len())).map(|(k, _)| String::from_utf8_lossy(k).to_string()).collect();
                    if lost.is_empty() { None } else { Some(format!("{} of the {} keys acknowledged by earlier flushes of the session are gone or changed after recovery (first {})", lost.len(), acked.len(), lost[0])) }
                }
            };
            let _ = std::fs::remove_file(&p);
            match verdict {
                Some(why) if !reported => {
                    reported = true;
                    let what = format!("crash that tears the journal intent of a {}-record batch (first sector {}): {}", nbig, if style == 0 { "landed, the rest lost" } else { "lost, the rest landed" }, why);
                    out.fail("C03", what.clone(), &keep);
                    out.fail("C02", what, &keep);
                }
                _ => { let _ = std::fs::remove_file(&keep); }
            }
        }
    }
    let _ = std::fs::remove_file(&path);
}

/// a long write-behind queue meets a failing journal write: the first record writes are slow, so
/// thousands of accepted writes pile up behind the worker and the next pass has several
/// 1024-entry transactions per shard; a few journal intent writes then fail.  Once the device
/// works again and flush() says Ok, a recovery of the device as it stands must return every key.
fn long_queue_fault_run(rng: &mut Rng, out: &mut Out, rec: &Arc<Recorder>, dir: &str, idx: u64) {
    let nkeys = rng.range(9000, 13000);
    let blocks = 16 + nkeys + 2048;
    let path = format!("{}/longq{}.feox", dir, idx);
    let _ = std::fs::remove_file(&path);
    *rec.plan.lock().unwrap() = FaultPlan::default();
    rec.log.lock().unwrap().clear();
    rec.fd.store(-2, Ordering::SeqCst);
    rec.enabled.store(true, Ordering::SeqCst);
    let finish = |rec: &Arc<Recorder>| { *rec.plan.lock().unwrap() = FaultPlan::default(); rec.data_write_delay_ms.store(0, Ordering::SeqCst); rec.slow_writes_left.store(u64::MAX, Ordering::SeqCst); rec.enabled.store(false, Ordering::SeqCst); rec.fd.store(-1, Ordering::SeqCst); };
    let Ok(store) = open_store(&path, blocks, false) else { finish(rec); return };
    rec.slow_writes_left.store(rng.range(2, 6), Ordering::SeqCst);
    rec.data_write_delay_ms.store(rng.range(40, 90), Ordering::SeqCst);
    let mut want: BTreeMap<Vec<u8>, u64> = BTreeMap::new();
    let fail_at = rng.range(nkeys / 4, nkeys / 2);
    for i in 0..nkeys {
        if i == fail_at { rec.plan.lock().unwrap().fail_journal_writes = rng.range(1, 3); }
        let k = format!("q{}-{:06}", idx, i).into_bytes();
        let vl = rng.range(20, 60) as usize;
        let v = rng.bytes(vl);
        if store.insert(&k, &v).is_ok() { want.insert(k, fnv(&v)); }
    }
    let first = store.flush();
    let injected = rec.injected.load(Ordering::SeqCst);
    // the device works again
    *rec.plan.lock().unwrap() = FaultPlan::default();
    rec.data_write_delay_ms.store(0, Ordering::SeqCst);
    let mut healed = store.flush();
    for _ in 0..3 { if healed.is_ok() { break; } healed = store.flush(); }
    out.count("long-queue fault case");
    out.count(if first.is_err() { "long-queue: the failing flush reported an error" } else { "long-queue: the faults were absorbed by retries" });
    let _ = injected;
    if healed.is_ok() {
        let img = std::fs::read(&path).unwrap_or_default();
        let p = write_image(dir, &format!("longq{}_copy.feox", idx), &img);
        match recover(&p, blocks) {
            Err(e) => { out.fail("C09", format!("long-queue fault case: the device as it stands after an acknowledged flush does not recover: {}", e), "-"); }
            Ok(rv) => {
                let missing: Vec<&Vec<u8>> = want.iter().filter(|(k, d)| rv.contents.get(*k).map(|x| x.0) != Some(**d)).map(|(k, _)| k).collect();
                if !missing.is_empty() {
                    let what = format!("long-queue fault case: {} keys were accepted, some journal writes failed while thousands of writes were queued, the device worked again and flush() returned Ok - but a recovery of the device as it stands lacks {} of them (first: {})", want.len(), missing.len(), String::from_utf8_lossy(missing[0]));
                    out.fail("C09", what.clone(), "-");
                    out.fail("C02", what, "-");
                }
            }
        }
        let _ = std::fs::remove_file(&p);
    } else if !matches!(healed, Err(FeoxError::IndeterminateWrite(_))) {
        out.fail("C09", format!("long-queue fault case: after the device works again flush() still fails: {:?}", healed.as_ref().err().map(err_name)), "-");
    }
    drop(store);
    finish(rec);
    let _ = std::fs::remove_file(&path);
}

/// write-behind after an outage: the device is overfull for a few seconds (every background flush
/// fails with OutOfSpace), then deletes make room and a few more writes are accepted - no flush
/// call anywhere.  Once there is room, what is buffered must reach the device about as fast as it
/// does on a store that never saw a failure (measured first, on the same store).
fn outage_run(rng: &mut Rng, out: &mut Out, rec: &Arc<Recorder>, dir: &str, idx: u64) {
    let blocks = 48u64;
    let path = format!("{}/outage{}.feox", dir, idx);
    let _ = std::fs::remove_file(&path);
    rec.log.lock().unwrap().clear();
    *rec.plan.lock().unwrap() = FaultPlan::default();
    rec.fd.store(-2, Ordering::SeqCst);
    rec.enabled.store(true, Ordering::SeqCst);
    let finish = |rec: &Arc<Recorder>| { rec.enabled.store(false, Ordering::SeqCst); rec.fd.store(-1, Ordering::SeqCst); };
    let Ok(store) = open_store(&path, blocks, false) else { finish(rec); return };
    // durable = present with this digest in the image rebuilt from the fsynced part of the trace
    let durable = |want: &BTreeMap<Vec<u8>, Option<u64>>| -> bool {
        let trace: Vec<Ev> = rec.log.lock().unwrap().clone();
        let (img, _) = build_image(&trace, trace.len(), blocks, &|_, _| Fate::Lost);
        let p = write_image(dir, &format!("outage{}_probe.feox", idx), &img);
        let r = recover(&p, blocks);
        let _ = std::fs::remove_file(&p);
        match r { Ok(rv) => want.iter().all(|(k, w)| rv.contents.get(k).map(|x| x.0) == *w), Err(_) => false }
    };
    let wait_durable = |want: &BTreeMap<Vec<u8>, Option<u64>>, limit_ms: u64| -> Option<u64> {
        let t0 = std::time::Instant::now();
        while (t0.elapsed().as_millis() as u64) < limit_ms {
            if durable(want) { return Some(t0.elapsed().as_millis() as u64); }
            std::thread::sleep(std::time::Duration::from_millis(25));
        }
        None
    };
    // 1. the normal latency of this store on this machine
    let mut want: BTreeMap<Vec<u8>, Option<u64>> = BTreeMap::new();
    for i in 0..4 { let k = format!("pre{}-{}", idx, i).into_bytes(); let v = rng.bytes(100); if store.insert(&k, &v).is_ok() { want.insert(k, Some(fnv(&v))); } }
    let Some(normal) = wait_durable(&want, 20_000) else { out.fail("C19", "outage case: the first writes were not durable after 20 s without flush".into(), "-"); drop(store); finish(rec); return };
    // 2. overfill: more one-block records than the device has blocks; the flusher keeps failing
    let mut big: Vec<Vec<u8>> = vec![];
    for i in 0..64 { let k = format!("big{}-{:02}", idx, i).into_bytes(); if store.insert(&k, &rng.bytes(3000)).is_ok() { big.push(k); } }
    let outage_ms = rng.range(5000, 7000);
    std::thread::sleep(std::time::Duration::from_millis(outage_ms));
    // 3. room returns, a few more writes are accepted; no flush call
    for k in &big { if store.delete(k).is_ok() { want.insert(k.clone(), None); } }
    for i in 0..6 { let k = format!("post{}-{}", idx, i).into_bytes(); let v = rng.bytes(120); if store.insert(&k, &v).is_ok() { want.insert(k, Some(fnv(&v))); } }
    let bound = (normal * 12).max(3000);
    let got = wait_durable(&want, 25_000);
    out.count("outage case");
    out.max_latency_ms = out.max_latency_ms.max(got.unwrap_or(25_000));
    match got {
        Some(ms) if ms <= bound => {}
        Some(ms) => out.fail("C19", format!("outage case: after {} ms of failing background flushes (device overfull), deletes made room; what was buffered then needed {} ms to reach the device without flush - the same store needed {} ms before the outage (bound {} ms)", outage_ms, ms, normal, bound), "-"),
        None => out.fail("C19", format!("outage case: after {} ms of failing background flushes, deletes made room, but what was buffered was not durable 25 s later (no flush call)", outage_ms), "-"),
    }
    drop(store);
    finish(rec);
    let _ = std::fs::remove_file(&path);
}

/// C19, directed: a write accepted on a shard WHILE that shard's periodic flush is in flight (the worker has drained
/// the shard and sits in its - slowed - record write), followed by silence: no further write, no flush call.  The
/// coordinator's next ticks must still see it.  (The same key is written twice, so both writes hash to one shard
/// whatever the shard count.)
fn append_during_flush_run(rng: &mut Rng, out: &mut Out, rec: &Arc<Recorder>, dir: &str, idx: u64) {
    let blocks = 96u64;
    let path = format!("{}/adf{}.feox", dir, idx);
    let _ = std::fs::remove_file(&path);
    rec.log.lock().unwrap().clear();
    *rec.plan.lock().unwrap() = FaultPlan::default();
    rec.fd.store(-2, Ordering::SeqCst);
    rec.enabled.store(true, Ordering::SeqCst);
    let finish = |rec: &Arc<Recorder>| { rec.data_write_delay_ms.store(0, Ordering::SeqCst); rec.slow_writes_left.store(u64::MAX, Ordering::SeqCst); rec.enabled.store(false, Ordering::SeqCst); rec.fd.store(-1, Ordering::SeqCst); };
    let Ok(store) = open_store(&path, blocks, false) else { finish(rec); return };
    let durable = |want: &BTreeMap<Vec<u8>, Option<u64>>| -> bool {
        let trace: Vec<Ev> = rec.log.lock().unwrap().clone();
        let (img, _) = build_image(&trace, trace.len(), blocks, &|_, _| Fate::Lost);
        let p = write_image(dir, &format!("adf{}_probe.feox", idx), &img);
        let r = recover(&p, blocks);
        let _ = std::fs::remove_file(&p);
        match r { Ok(rv) => want.iter().all(|(k, w)| rv.contents.get(k).map(|x| x.0) == *w), Err(_) => false }
    };
    let mut want: BTreeMap<Vec<u8>, Option<u64>> = BTreeMap::new();
    let mut hit = 0;
    for round in 0..5u64 {
        let key = format!("adf{}-{}", idx, round % 3).into_bytes();
        rec.slow_writes_left.store(1, Ordering::SeqCst);
        rec.data_write_delay_ms.store(rng.range(30, 60), Ordering::SeqCst); // shorter than the 100 ms tick: the flush was started by a tick, the next one comes after it has ended
        let started0 = rec.data_writes_started.load(Ordering::SeqCst);
        let v1 = rng.bytes(100 + round as usize);
        if store.insert(&key, &v1).is_err() { continue; }
        want.insert(key.clone(), Some(fnv(&v1)));
        // the tick-driven flush has drained the shard and entered its (slowed) record write
        let t0 = std::time::Instant::now();
        while rec.data_writes_started.load(Ordering::SeqCst) == started0 && t0.elapsed().as_millis() < 3000 { std::thread::sleep(std::time::Duration::from_millis(2)); }
        if rec.data_writes_started.load(Ordering::SeqCst) == started0 { continue; }
        let v2 = rng.bytes(140 + round as usize);
        if store.insert(&key, &v2).is_ok() { want.insert(key.clone(), Some(fnv(&v2))); hit += 1; }
        // silence
        let t1 = std::time::Instant::now();
        let mut ok = false;
        while t1.elapsed().as_millis() < 8000 {
            if durable(&want) { ok = true; break; }
            std::thread::sleep(std::time::Duration::from_millis(40));
        }
        out.max_latency_ms = out.max_latency_ms.max(t1.elapsed().as_millis() as u64);
        if !ok {
            out.fail("C19", format!("a write accepted while its shard's periodic flush was in flight (round {}: second write of key {} issued during the worker's record write) was not durable 8 s later - no further write, no flush call", round, String::from_utf8_lossy(&key)), "-");
            break;
        }
    }
    out.count("append-during-flush case");
    if hit > 0 { out.count("append-during-flush case: write landed inside an in-flight flush"); }
    drop(store);
    finish(rec);
    let _ = std::fs::remove_file(&path);
}

fn writebehind_run(rng: &mut Rng, out: &mut Out, rec: &Arc<Recorder>, dir: &str, idx: u64) {
    let blocks = 256u64;
    let path = format!("{}/wb{}.feox", dir, idx);
    let _ = std::fs::remove_file(&path);
    // half of the devices are files somebody pre-sized (all zero) before the store first opens them
    let preallocated = rng.chance(1, 2);
    rec.log.lock().unwrap().clear();
    *rec.plan.lock().unwrap() = FaultPlan::default();
    // the probes below open a second store while this one keeps running: record only this one's device
    rec.fd.store(-2, Ordering::SeqCst);
    rec.enabled.store(true, Ordering::SeqCst);
    if preallocated {
        if let Ok(f) = std::fs::File::create(&path) { let _ = f.set_len(blocks * BS as u64); }
        out.count("write-behind on a preallocated (all-zero) device file");
    }
    let Ok(store) = open_store(&path, blocks, false) else { rec.enabled.store(false, Ordering::SeqCst); rec.fd.store(-1, Ordering::SeqCst); return };
    let nkeys = rng.range(8, 40);
    let keys: Vec<Vec<u8>> = (0..nkeys).map(|i| format!("w{}-{}", i, rng.below(100000)).into_bytes()).collect();
    let mut want: BTreeMap<Vec<u8>, Option<(u64, usize)>> = BTreeMap::new();
    let store = Arc::new(store);
    let mut burst = if rng.chance(1, 4) { 1200 } else { rng.range(1, 60) };
    // a sustained burst from several threads: shards fill up (>= 1024 entries), every add_write then
    // posts a wake-up of its own and the workers' bounded channels are full when the coordinator ticks
    let heavy = rng.chance(1, 3);
    if heavy {
        out.count("writebehind-heavy-burst");
        let stop = Arc::new(std::sync::atomic::AtomicBool::new(false));
        let hs: Vec<_> = (0..4u64).map(|t| {
            let st = store.clone();
            let stop = stop.clone();
            let mine: Vec<Vec<u8>> = keys.iter().enumerate().filter(|(i, _)| *i as u64 % 4 == t).map(|(_, k)| k.clone()).collect();
            let mut r = Rng::new(rng.next() ^ (t + 1));
            std::thread::spawn(move || {
                let mut last: BTreeMap<Vec<u8>, Option<(u64, usize)>> = BTreeMap::new();
                let mut n = 0u64;
                while !stop.load(Ordering::Relaxed) && !mine.is_empty() {
                    for k in &mine {
                        let v = r.bytes(24);
                        if st.insert(k, &v).is_ok() { last.insert(k.clone(), Some((fnv(&v), v.len()))); n += 1; }
                    }
                }
                (last, n)
            })
        }).collect();
        std::thread::sleep(std::time::Duration::from_millis(rng.range(250, 700)));
        stop.store(true, Ordering::Relaxed);
        for h in hs {
            if let Ok((last, n)) = h.join() { want.extend(last); burst += n; }
        }
    }
    let start = std::time::Instant::now();
    for i in 0..(if heavy { 0 } else { burst }) {
        let k = keys[(i % nkeys) as usize].clone();
        if rng.chance(1, 6) && want.get(&k).is_some_and(|x| x.is_some()) {
            if store.delete(&k).is_ok() { want.insert(k, None); }
        } else {
            let n = *rng.pick(&[20usize, 200, 3000]);
            let v = rng.bytes(n);
            if store.insert(&k, &v).is_ok() { want.insert(k, Some((fnv(&v), v.len()))); }
        }
    }
    // poll: rebuild the durable image from the trace until everything accepted is in it; then a second
    // phase: a few more writes after the store went quiet must become durable by themselves as well
    let deadline = std::time::Duration::from_secs(20);
    let mut ok = false;
    let mut waited = 0u64;
    let mut last_bad: Vec<String> = vec![];
    let mut phase = 0;
    let mut start = start;
    while start.elapsed() < deadline {
        std::thread::sleep(std::time::Duration::from_millis(60));
        let trace: Vec<Ev> = rec.log.lock().unwrap().clone();
        let (img, _) = build_image(&trace, trace.len(), blocks, &|_, _| Fate::Lost);
        let p = write_image(dir, &format!("wb{}_probe.feox", idx), &img);
        let r = recover(&p, blocks);
        let _ = std::fs::remove_file(&p);
        if let Ok(rv) = r {
            let good = want.iter().all(|(k, w)| match (w, rv.contents.get(k)) {
                (None, None) => true,
                (Some((d, l)), Some((d2, l2, _))) => d == d2 && l == l2,
                _ => false,
            });
            last_bad = want.iter().filter_map(|(k, w)| match (w, rv.contents.get(k)) {
                (None, None) => None,
                (Some((d, l)), Some((d2, l2, _))) if d == d2 && l == l2 => None,
                (w, g) => Some(format!("{} want={:?} recovered={:?}", hex(k), w.map(|x| x.1), g.map(|x| x.1))),
            }).collect();
            if good {
                waited = waited.max(start.elapsed().as_millis() as u64);
                if phase == 0 {
                    phase = 1;
                    out.count("writebehind-quiet-then-probe");
                    for i in 0..rng.range(1, 5) {
                        let k = format!("probe{}-{}", idx, i).into_bytes();
                        let n = *rng.pick(&[20usize, 200, 3000]);
                        let v = rng.bytes(n);
                        if store.insert(&k, &v).is_ok() { want.insert(k, Some((fnv(&v), v.len()))); burst += 1; }
                    }
                    start = std::time::Instant::now();
                    continue;
                }
                ok = true;
                break;
            }
        }
    }
    out.count("writebehind-run");
    out.max_latency_ms = out.max_latency_ms.max(waited);
    if !ok {
        let keep = format!("{}/wb{}_trace.txt", dir, idx);
        let trace: Vec<Ev> = rec.log.lock().unwrap().clone();
        let nw = trace.iter().filter(|e| matches!(e, Ev::Write { .. })).count();
        let nf = trace.iter().filter(|e| matches!(e, Ev::Fsync { .. })).count();
        let np = trace.iter().filter(|e| matches!(e, Ev::Publish(..))).count();
        let visits: Vec<(u64, u64)> = rec.visits.lock().unwrap().iter().cloned().collect();
        let ticks = rec.ticks.lock().unwrap().clone();
        eprintln!("C19 debug: writes={} fsyncs={} publishes={} visits={:?} ticks={:?}", nw, nf, np, visits, &ticks[..ticks.len().min(12)]);
        std::fs::write(&keep, format!("keys={} burst={}\nnot durable at the last probe:\n{}\n", nkeys, burst, last_bad.join("\n"))).unwrap();
        out.fail("C19", format!("without an explicit flush, {} accepted writes over {} keys were not all durable after {:?}{}", burst, nkeys, deadline,
            if phase == 1 { " (the writes of the burst became durable; the ones issued after the store went quiet did not)" } else { "" }), &keep);
    }
    // ownership: after a forced flush every worker has visited every shard it owns
    rec.visits.lock().unwrap().clear();
    let flushed = store.flush();
    let visits: Vec<(u64, u64)> = rec.visits.lock().unwrap().iter().cloned().collect();
    let ticks: Vec<(u64, u64, u64)> = std::mem::take(&mut *rec.ticks.lock().unwrap());
    if flushed.is_ok() {
        let cpus = std::thread::available_parallelism().map(|n| n.get()).unwrap_or(1) as u64;
        let workers = visits.iter().map(|v| v.0 + 1).max().unwrap_or(0);
        let shards = visits.iter().map(|v| v.1 + 1).max().unwrap_or(0);
        out.emit(format!("shards geom {}", cpus), format!("ok {} {}", shards, workers));
        for w in 0..workers {
            let own: Vec<String> = visits.iter().filter(|v| v.0 == w).map(|v| v.1.to_string()).collect();
            out.emit(format!("shards own {} {} {}", workers, shards, w), format!("ok {}", own.join(" ")).trim_end().to_string());
        }
        out.count(&format!("geometry cpus={} shards={} workers={}", cpus, shards, workers));
        for s in 0..shards {
            let owners = visits.iter().filter(|v| v.1 == s).count();
            if owners != 1 {
                let keep = format!("{}/wb{}_trace.txt", dir, idx);
                std::fs::write(&keep, format!("visits={:?}\n", visits)).unwrap();
                out.fail("C19", format!("shard {} of {} is flushed by {} workers after flush()", s, shards, owners), &keep);
            }
        }
        for t in &ticks {
            out.count("tick");
            if t.0 != 0 { out.count("tick-wake"); }
            if t.1 != shards || t.2 != workers {
                let keep = format!("{}/wb{}_trace.txt", dir, idx);
                std::fs::write(&keep, format!("tick={:?} shards={} workers={}\n", t, shards, workers)).unwrap();
                out.fail("C19", format!("coordinator sees {} shards / {} workers, the workers visit {} / {}", t.1, t.2, shards, workers), &keep);
            }
        }
    }
    rec.enabled.store(false, Ordering::SeqCst);
    drop(store);
    rec.fd.store(-1, Ordering::SeqCst);
    let _ = std::fs::remove_file(&path);
}

fn main() {
    let args = parse_args();
    std::fs::create_dir_all(&args.out).unwrap();
    let open = |n: &str| std::io::BufWriter::new(std::fs::File::create(format!("{}/{}", args.out, n)).unwrap());
    let mut out = Out { ops: open("proto.ops"), imp: open("proto.impl"), failures: vec![], hist: BTreeMap::new(), images: 0, lines: 0,
        dir: args.out.clone(), recsize: feoxdb::verif::pure::record_struct_size(), samples: vec![], max_latency_ms: 0 };
    std::panic::set_hook(Box::new(|_| {}));
    feoxdb::verif::io::disable_ring(true);
    feoxdb::verif::proto::fast_shutdown(true);
    let rec = Arc::new(Recorder { log: Mutex::new(vec![]), enabled: AtomicBool::new(false), writes: AtomicU64::new(0), fsyncs: AtomicU64::new(0),
        plan: Mutex::new(FaultPlan::default()), injected: AtomicU64::new(0), fd: AtomicI64::new(-1),
        visits: Mutex::new(Default::default()), ticks: Mutex::new(vec![]), alloc_fails: AtomicU64::new(0), drain_delay_ms: AtomicU64::new(0), drained: AtomicU64::new(0), data_write_delay_ms: AtomicU64::new(0), data_writes_started: AtomicU64::new(0), slow_writes_left: AtomicU64::new(u64::MAX), hold_sector: AtomicU64::new(0), hold_state: AtomicU64::new(0), hold_writes: AtomicU64::new(0) });
    feoxdb::verif::io::set_observer(Some(rec.clone()));
    feoxdb::verif::proto::set_observer(Some(rec.clone()));
    let mut rng = Rng::new(args.seed);
    let get = |k: &str, d: u64| -> u64 { args.extra.iter().find_map(|e| e.strip_prefix(&format!("{}=", k)).map(|v| v.parse().unwrap())).unwrap_or(d) };
    let sections: Vec<String> = args.extra.iter().filter(|x| !x.contains('=')).cloned().collect();
    let has = |s: &str| sections.is_empty() || sections.iter().any(|x| x == s);
    if has("crash") {
        let n = get("workloads", 3);
        let budget = get("budget", 12) as usize;
        for i in 0..n {
            let pressure = i % 3 == 2;
            PRESSURE.store(pressure, Ordering::Relaxed);
            let blocks = if pressure { rng.range(22, 30) } else { rng.range(24, 56) };
            let steps = rng.range(3, 30);
            let path = format!("{}/crash{}.feox", args.out, i);
            let explicit = rng.chance(2, 3);
            if let Some(w) = run_workload(&mut rng, &rec, &path, blocks, steps, explicit) {
                let trace: Vec<Ev> = rec.log.lock().unwrap().clone();
                out.count("crash-workload");
                if out.samples.len() < 2 {
                    out.samples.push(trace.iter().take(40).map(|e| match e {
                        Ev::Write { sector, data, .. } => format!("w{}+{}", sector, data.len() / BS),
                        Ev::Fsync { .. } => "fsync".into(),
                        Ev::Begin(s) => format!("[{}", s.chars().take(24).collect::<String>()),
                        Ev::End { accepted, .. } => format!("]{:?}", accepted),
                        Ev::FlushBegin(_) => "[flush".into(),
                        Ev::FlushEnd { ok, .. } => format!("]flush={}", ok),
                        Ev::Alloc(a, b) => format!("alloc{}+{}", a, b),
                        Ev::Publish(a, b, _, _) => format!("pub{}+{}", a, b),
                        Ev::Release(a, b) => format!("rel{}+{}", a, b),
                    }).collect::<Vec<_>>().join(" "));
                }
                PRESSURE.store(false, Ordering::Relaxed);
                if pressure { out.count("crash-workload-pressure"); }
                for (props, what) in w.inv.iter().take(2) {
                    for p in props { out.fail(p, format!("crash workload {}: {}", i, what), "-"); }
                }
                emit_dur_lines(&mut out, &w, &trace);
                emit_txn_lines(&mut out, &trace, blocks, None);
                if let Some((upto, free)) = &w.free_at_flush {
                    emit_space_lines(&mut out, &trace[..*upto], blocks, free);
                }
                explore_crashes(&mut rng, &mut out, &rec, &w, &trace, &format!("crash{}", i), budget, get("lean", 1) == 1);
            }
            let _ = std::fs::remove_file(&path);
        }
    }
    if has("partition") {
        for i in 0..get("partitions", 4) {
            partition_run(&mut rng, &mut out, &args.out.clone(), i);
        }
    }
    if has("fault") {
        for i in 0..get("faults", 2) {
            fault_run(&mut rng, &mut out, &rec, &args.out.clone(), args.seed * 100 + i);
            stale_head_run(&mut rng, &mut out, &rec, &args.out.clone(), i);
            if i == 0 { long_queue_fault_run(&mut rng, &mut out, &rec, &args.out.clone(), i); }
            outage_update_run(&mut rng, &mut out, &rec, &args.out.clone(), i);
        }
    }
    if has("hazard") {
        for i in 0..get("hazards", 4) {
            hazard_run(&mut rng, &mut out, &rec, &args.out.clone(), i);
        }
        for i in 0..get("bigbatch", 1) {
            bigbatch_run(&mut rng, &mut out, &rec, &args.out.clone(), i);
        }
        for i in 0..get("cflush", 2) {
            concurrent_flush_run(&mut rng, &mut out, &rec, &args.out.clone(), i);
        }
    }
    if has("writebehind") {
        for i in 0..get("wb", 2) {
            writebehind_run(&mut rng, &mut out, &rec, &args.out.clone(), i);
            if i == 0 && get("outage", 1) == 1 { outage_run(&mut rng, &mut out, &rec, &args.out.clone(), i); }
            if i < 2 { append_during_flush_run(&mut rng, &mut out, &rec, &args.out.clone(), i); }
        }
    }
    out.ops.flush().unwrap();
    out.imp.flush().unwrap();
    std::fs::write(format!("{}/proto.failures", args.out), out.failures.iter().map(|l| format!("{}\n", l)).collect::<String>()).unwrap();
    let hist: Vec<String> = out.hist.iter().map(|(k, v)| format!("\"{}\": {}", k, v)).collect();
    let samples: Vec<String> = out.samples.iter().map(|s| format!("\"{}\"", s.replace('"', "'"))).collect();
    std::fs::write(format!("{}/proto.meta.json", args.out), format!(
        "{{\"engine\": \"proto\", \"seed\": {}, \"images\": {}, \"lean_lines\": {}, \"failures\": {}, \"max_durability_latency_ms\": {}, \"kinds\": {{{}}}, \"samples\": [{}]}}\n",
        args.seed, out.images, out.lines, out.failures.len(), out.max_latency_ms, hist.join(", "), samples.join(", "))).unwrap();
}
