//! Shared helpers for the correspondence harness binaries.
use std::fmt::Write as _;

/// SplitMix64: every random choice of a harness run derives from one seed.
#[derive(Clone)]
pub struct Rng(pub u64);

impl Rng {
    pub fn new(seed: u64) -> Self {
        Rng(seed.wrapping_mul(0x9E37_79B9_7F4A_7C15) ^ 0xD1B5_4A32_D192_ED03)
    }
    pub fn next(&mut self) -> u64 {
        self.0 = self.0.wrapping_add(0x9E37_79B9_7F4A_7C15);
        let mut z = self.0;
        z = (z ^ (z >> 30)).wrapping_mul(0xBF58_476D_1CE4_E5B9);
        z = (z ^ (z >> 27)).wrapping_mul(0x94D0_49BB_1331_11EB);
        z ^ (z >> 31)
    }
    /// uniform in `0..n` (n > 0)
    pub fn below(&mut self, n: u64) -> u64 {
        self.next() % n
    }
    /// uniform in `lo..=hi`
    pub fn range(&mut self, lo: u64, hi: u64) -> u64 {
        lo + self.below(hi - lo + 1)
    }
    pub fn chance(&mut self, num: u64, den: u64) -> bool {
        self.below(den) < num
    }
    pub fn pick<'a, T>(&mut self, xs: &'a [T]) -> &'a T {
        &xs[self.below(xs.len() as u64) as usize]
    }
    pub fn bytes(&mut self, n: usize) -> Vec<u8> {
        (0..n).map(|_| self.next() as u8).collect()
    }
}

pub fn hex(b: &[u8]) -> String {
    if b.is_empty() {
        return "-".to_string();
    }
    let mut s = String::with_capacity(b.len() * 2);
    for x in b {
        let _ = write!(s, "{:02x}", x);
    }
    s
}

pub fn unhex(s: &str) -> Vec<u8> {
    if s == "-" {
        return Vec::new();
    }
    (0..s.len() / 2)
        .map(|i| u8::from_str_radix(&s[2 * i..2 * i + 2], 16).unwrap())
        .collect()
}

pub fn err_name(e: &feoxdb::FeoxError) -> &'static str {
    use feoxdb::FeoxError::*;
    match e {
        InvalidKeySize => "InvalidKeySize",
        InvalidValueSize => "InvalidValueSize",
        KeyNotFound => "KeyNotFound",
        DatabaseFull => "DatabaseFull",
        OutOfMemory => "OutOfMemory",
        OlderTimestamp => "OlderTimestamp",
        InvalidNumericValue => "InvalidNumericValue",
        NumericOverflow => "NumericOverflow",
        InvalidRange => "InvalidRange",
        MultiTenantDisabled => "MultiTenantDisabled",
        NoDevice => "NoDevice",
        InvalidMetadata => "InvalidMetadata",
        CorruptedRecord => "CorruptedRecord",
        AmbiguousLegacyTombstone => "AmbiguousLegacyTombstone",
        InvalidRecord => "InvalidRecord",
        StaleExtent => "StaleExtent",
        InvalidDevice => "InvalidDevice",
        InvalidOperation => "InvalidOperation",
        IoError(_) => "IoError",
        IndeterminateWrite(_) => "IndeterminateWrite",
        SystemError(_) => "SystemError",
        JsonPatchError(_) => "JsonPatchError",
        AllocationFailed => "AllocationFailed",
        LockPoisoned => "LockPoisoned",
        ChannelClosed => "ChannelClosed",
        ChannelError => "ChannelError",
        ShuttingDown => "ShuttingDown",
        Timeout => "Timeout",
        NotImplemented => "NotImplemented",
        Unsupported => "Unsupported",
        SizeMismatch { .. } => "SizeMismatch",
        InvalidArgument => "InvalidArgument",
        OutOfSpace => "OutOfSpace",
        CorruptedData => "CorruptedData",
        DuplicateKey => "DuplicateKey",
        TtlNotEnabled => "TtlNotEnabled",
        #[allow(unreachable_patterns)]
        _ => "Other",
    }
}

/// Parsed common command line: `--seed N --tier quick|thorough --out DIR [--replay FILE]`
pub struct Args {
    pub seed: u64,
    pub thorough: bool,
    pub out: String,
    pub replay: Option<String>,
    pub extra: Vec<String>,
}

pub fn parse_args() -> Args {
    let mut a = Args { seed: 1, thorough: false, out: ".".into(), replay: None, extra: vec![] };
    let mut it = std::env::args().skip(1);
    while let Some(x) = it.next() {
        match x.as_str() {
            "--seed" => a.seed = it.next().unwrap().parse().unwrap(),
            "--tier" => a.thorough = it.next().unwrap() == "thorough",
            "--out" => a.out = it.next().unwrap(),
            "--replay" => a.replay = Some(it.next().unwrap()),
            _ => a.extra.push(x),
        }
    }
    a
}
