//! Shared helpers for the correspondence harness binaries.
use std::fmt::Write as _;

/// SplitMix64: every random choice of a harness run derives from one seed.
#[derive(Clone)]
pub struct Rng(pub u64);

impl Rng {
    pub fn new(seed: u64) -> Self {
        Rng(seed.wrapping_mul(0x9E37_79B9_7F4A_7C15) ^ 0xD1B5_4A32_D192_ED03)
    }
    pub fn next(&mut self) -> u64 {
        self.0 = self.0.wrapping_add(0x9E37_79B9_7F4A_7C15);
        let mut z = self.0;
        z = (z ^ (z >> 30)).wrapping_mul(0xBF58_476D_1CE4_E5B9);
        z = (z ^ (z >> 27)).wrapping_mul(0x94D0_49BB_1331_11EB);
        z ^ (z >> 31)
    }
    /// uniform in `0..n` (n > 0)
    pub fn below(&mut self, n: u64) -> u64 {
        self.next() % n
    }
    /// uniform in `lo..=hi`
    pub fn range(&mut self, lo: u64, hi: u64) -> u64 {
        lo + self.below(hi - lo + 1)
    }
    pub fn chance(&mut self, num: u64, den: u64) -> bool {
        self.below(den) < num
    }
    pub fn pick<'a, T>(&mut self, xs: &'a [T]) -> &'a T {
        &xs[self.below(xs.len() as u64) as usize]
    }
    pub fn bytes(&mut self, n: usize) -> Vec<u8> {
        (0..n).map(|_| self.next() as u8).collect()
    }
}

pub fn hex(b: &[u8]) -> String {
    if b.is_empty() {
        return "-".to_string();
    }
    let mut s = String::with_capacity(b.len() * 2);
    for x in b {
        let _ = write!(s, "{:02x}", x);
    }
    s
}

pub fn unhex(s: &str) -> Vec<u8> {
    if s == "-" {
        return Vec::new();
    }
    (0..s.len() / 2)
        .map(|i| u8::from_str_radix(&s[2 * i..2 * i + 2], 16).unwrap())
        .collect()
}

pub fn err_name(e: &feoxdb::FeoxError) -> &'static str {
    use feoxdb::FeoxError::*;
    match e {
        InvalidKeySize => "InvalidKeySize",
        InvalidValueSize => "InvalidValueSize",
        KeyNotFound => "KeyNotFound",
        DatabaseFull => "DatabaseFull",
        OutOfMemory => "OutOfMemory",
        OlderTimestamp => "OlderTimestamp",
        InvalidNumericValue => "InvalidNumericValue",
        NumericOverflow => "NumericOverflow",
        InvalidRange => "InvalidRange",
        MultiTenantDisabled => "MultiTenantDisabled",
        NoDevice => "NoDevice",
        InvalidMetadata => "InvalidMetadata",
        CorruptedRecord => "CorruptedRecord",
        AmbiguousLegacyTombstone => "AmbiguousLegacyTombstone",
        InvalidRecord => "InvalidRecord",
        StaleExtent => "StaleExtent",
        InvalidDevice => "InvalidDevice",
        InvalidOperation => "InvalidOperation",
        IoError(_) => "IoError",
        IndeterminateWrite(_) => "IndeterminateWrite",
        SystemError(_) => "SystemError",
        JsonPatchError(_) => "JsonPatchError",
        AllocationFailed => "AllocationFailed",
        LockPoisoned => "LockPoisoned",
        ChannelClosed => "ChannelClosed",
        ChannelError => "ChannelError",
        ShuttingDown => "ShuttingDown",
        Timeout => "Timeout",
        NotImplemented => "NotImplemented",
        Unsupported => "Unsupported",
        SizeMismatch { .. } => "SizeMismatch",
        InvalidArgument => "InvalidArgument",
        OutOfSpace => "OutOfSpace",
        CorruptedData => "CorruptedData",
        DuplicateKey => "DuplicateKey",
        TtlNotEnabled => "TtlNotEnabled",
        #[allow(unreachable_patterns)]
        _ => "Other",
    }
}

/// Parsed common command line: `--seed N --tier quick|thorough --out DIR [--replay FILE]`
pub struct Args {
    pub seed: u64,
    pub thorough: bool,
    pub out: String,
    pub replay: Option<String>,
    pub extra: Vec<String>,
}

pub fn parse_args() -> Args {
    let mut a = Args { seed: 1, thorough: false, out: ".".into(), replay: None, extra: vec![] };
    let mut it = std::env::args().skip(1);
    while let Some(x) = it.next() {
        match x.as_str() {
            "--seed" => a.seed = it.next().unwrap().parse().unwrap(),
            "--tier" => a.thorough = it.next().unwrap() == "thorough",
            "--out" => a.out = it.next().unwrap(),
            "--replay" => a.replay = Some(it.next().unwrap()),
            _ => a.extra.push(x),
        }
    }
    a
}

/// Invariants of a store at rest, read through the verification hooks.  They are the standing
/// hypotheses of the Lean models (index agreement, clock floor, tier copies, exact accounting,
/// ownership partition, `MarkOK`); every engine evaluates them wherever a store is quiescent.
pub mod inv {
    use feoxdb::FeoxStore;

    pub const BS: usize = 4096;

    pub struct Finding {
        /// properties the violated invariant belongs to
        pub props: &'static [&'static str],
        pub what: String,
    }

    fn header(version: u32, key_len: usize) -> usize {
        if version <= 1 { 22 + key_len } else { 30 + key_len }
    }

    /// no call in flight (any configuration)
    pub fn quiescent(store: &FeoxStore) -> Vec<Finding> {
        let mut out = vec![];
        let snap = store.verif_snapshot();
        let hash: Vec<&Vec<u8>> = snap.iter().map(|r| &r.key).collect();
        let tree = store.verif_tree_keys();
        if hash.len() != tree.len() || hash.iter().zip(tree.iter()).any(|(a, b)| *a != b) {
            let only_tree: Vec<String> = tree.iter().filter(|k| !hash.contains(k)).map(|k| super::hex(k)).collect();
            let only_hash: Vec<String> = hash.iter().filter(|k| !tree.contains(k)).map(|k| super::hex(k)).collect();
            out.push(Finding { props: &["C14", "C01"], what: format!("the ordered index and the hash index hold different keys: only ordered {:?}, only hash {:?}", only_tree, only_hash) });
        }
        if store.len() != snap.len() {
            out.push(Finding { props: &["C13", "C01"], what: format!("len() = {} but the index holds {} keys", store.len(), snap.len()) });
        }
        let rs = feoxdb::verif::pure::record_struct_size();
        let foot: usize = snap.iter().map(|r| rs + r.key.len() + r.value_len).sum();
        if store.memory_usage() != foot {
            out.push(Finding { props: &["C13"], what: format!("memory_usage() = {} but the live records add up to {} ({} keys)", store.memory_usage(), foot, snap.len()) });
        }
        for r in &snap {
            let shard = store.verif_clock_shard(&r.key);
            let clock = store.verif_clock_value(shard);
            if clock < r.timestamp && r.timestamp != u64::MAX {   // (a key pinned at the maximum is the one exception the property names)
                out.push(Finding { props: &["C12"], what: format!("key {} carries timestamp {} but its clock shard stands at {}", super::hex(&r.key), r.timestamp, clock) });
                break;
            }
        }
        for r in &snap {
            if let Some(t) = store.verif_tiers(&r.key) {
                let copies: Vec<(&str, &Vec<u8>)> = [("resident", &t.resident), ("device", &t.on_disk), ("cache", &t.cached)].iter().filter_map(|(n, c)| c.as_ref().map(|c| (*n, c))).collect();
                if copies.is_empty() && !store.verif_is_memory_only() {
                    out.push(Finding { props: &["C01", "C08"], what: format!("key {} (timestamp {}) has neither resident bytes nor a readable device copy", super::hex(&r.key), r.timestamp) });
                    break;
                }
                if let Some(w) = copies.windows(2).find(|w| w[0].1 != w[1].1) {
                    out.push(Finding { props: &["C01", "C16"], what: format!("key {}: the {} copy and the {} copy of one generation differ", super::hex(&r.key), w[0].0, w[1].0) });
                    break;
                }
            }
        }
        out
    }

    /// a persistent store right after an acknowledged flush (nothing queued, no retirement pending)
    pub fn after_flush(store: &FeoxStore, path: &str) -> Vec<Finding> {
        after_flush_opt(store, path, true)
    }

    /// `persisted`: the flush itself rewrote the metadata (an explicit flush; not a recovery, which leaves the
    /// counters of the previous session on the device until the next flush)
    pub fn after_flush_opt(store: &FeoxStore, path: &str, persisted: bool) -> Vec<Finding> {
        let mut out = vec![];
        if store.verif_is_memory_only() { return out; }
        let blocks = (store.verif_device_size() / BS as u64) as usize;
        let version = store.verif_format_version();
        let snap = store.verif_snapshot();
        let mut owner: Vec<Option<usize>> = vec![None; blocks];
        let mut live_blocks = 0u64;
        for (i, r) in snap.iter().enumerate() {
            if r.sector == 0 {
                out.push(Finding { props: &["C05", "C02", "C10"], what: format!("after an acknowledged flush key {} has no extent", super::hex(&r.key)) });
                return out;
            }
            let n = (header(version, r.key.len()) + r.value_len).div_ceil(BS).max(1);
            live_blocks += n as u64;
            for b in r.sector as usize..r.sector as usize + n {
                if b >= blocks || b < 16 {
                    out.push(Finding { props: &["C05"], what: format!("the extent of key {} leaves the data area (block {})", super::hex(&r.key), b) });
                    return out;
                }
                if owner[b].is_some() {
                    out.push(Finding { props: &["C05"], what: format!("block {} belongs to two live extents", b) });
                    return out;
                }
                owner[b] = Some(i);
            }
        }
        let mut free = vec![false; blocks];
        for (s, n) in store.verif_free_runs() {
            for b in s as usize..(s + n) as usize {
                if b >= blocks || b < 16 || owner[b].is_some() || free[b] {
                    out.push(Finding { props: &["C05", "C06"], what: format!("free run {}+{} overlaps a live extent / another run or leaves the data area at block {}", s, n, b) });
                    return out;
                }
                free[b] = true;
            }
        }
        // (on a legacy-format device the extent of a record follows that format's layout: C10 as well)
        let own: &'static [&'static str] = if version < 3 { &["C05", "C10"] } else { &["C05"] };
        if let Some(b) = (16..blocks).find(|b| owner[*b].is_none() && !free[*b]) {
            let n = (16..blocks).filter(|b| owner[*b].is_none() && !free[*b]).count();
            out.push(Finding { props: own, what: format!("{} data blocks are neither live nor free (leaked), first {} (format v{})", n, b, version) });
            // … and when such a block still carries a record head that the format's own reader accepts, the file
            // holds a record of a key the store does not have: an independent reader (or the next open) finds it
            if let Ok(img) = std::fs::read(path) {
                let format = feoxdb::storage::format::get_format(version);
                for g in (16..blocks).filter(|b| owner[*b].is_none() && !free[*b]) {
                    let o = g * BS;
                    if o + BS > img.len() || !(img[o] == 0xCD && img[o + 1] == 0xAB) { continue; }
                    if let Some((key, vlen, _ts, _exp)) = format.parse_record(&img[o..o + BS]) {
                        let need = (header(version, key.len()) + vlen as usize).div_ceil(BS).max(1);
                        let tok_ok = version < 3 || (o + need * BS <= img.len() && {
                            let mut ext = img[o..o + need * BS].to_vec();
                            let stored = [ext[2], ext[3]];
                            feoxdb::verif::pure::stamp_seq_token(&mut ext, g as u64, version);
                            [ext[2], ext[3]] == stored
                        });
                        if !key.is_empty() && vlen > 0 && tok_ok && !snap.iter().any(|r| r.key == key && r.sector as usize == g) {
                            out.push(Finding { props: &["C10", "C02"], what: format!("after an acknowledged flush block {} of the device file holds a complete, valid record of key {} which the store does not have there (an independent reader of the file finds it; it comes back at the next open if nothing newer hides it)", g, super::hex(&key)) });
                            break;
                        }
                    }
                }
            }
        }
        if store.verif_disk_usage() != live_blocks * BS as u64 {
            out.push(Finding { props: own, what: format!("disk usage counter {} != live total {} (format v{})", store.verif_disk_usage(), live_blocks * BS as u64, version) });
        }
        // the persisted counters: the newest valid metadata copy on the device says what the store says
        if let Some(img) = std::fs::read(path).ok().filter(|_| persisted) {
            use feoxdb::storage::metadata::Metadata;
            let copy = |b: usize| -> Option<Metadata> {
                let o = b * BS;
                if o + BS > img.len() { return None; }
                Metadata::from_bytes(&img[o..o + BS]).filter(|m| m.validate())
            };
            let newest = match (copy(0), copy(7)) {
                (Some(a), Some(b)) => Some(if feoxdb::verif::pure::metadata_generation(&b) > feoxdb::verif::pure::metadata_generation(&a) { b } else { a }),
                (a, b) => a.or(b),
            };
            match newest {
                None => out.push(Finding { props: &["C05", "C10"], what: "after an acknowledged flush neither metadata copy on the device is valid".into() }),
                Some(m) => {
                    if m.total_records != store.len() as u64 || m.total_size != store.verif_disk_usage() {
                        out.push(Finding { props: &["C05", "C10"], what: format!("after an acknowledged flush the newest metadata copy on the device says {} records / {} bytes, the store holds {} records / {} bytes", m.total_records, m.total_size, store.len(), store.verif_disk_usage()) });
                    }
                }
            }
        }
        // MarkOK: no valid retirement marker in a free block claims a block of a published record
        if version >= 3 {
            if let Ok(img) = std::fs::read(path) {
                'blocks: for b in 16..blocks {
                    let o = b * BS;
                    if o + 19 > img.len() || owner[b].is_some() || &img[o..o + 8] != b"\0DELETED" { continue; }
                    let token = u16::from_le_bytes([img[o + 16], img[o + 17]]);
                    if token != feoxdb::verif::pure::retirement_marker_token(b as u64, &img[o..o + 19]) { continue; }
                    let rem = u64::from_le_bytes(img[o + 8..o + 16].try_into().unwrap()) as usize;
                    for i in 1..rem.min(blocks - b) {
                        if let Some(k) = owner[b + i] {
                            out.push(Finding { props: &["C05", "C03"], what: format!("the retirement marker in free block {} claims {} blocks, but block {} holds the live record of key {}", b, rem, b + i, super::hex(&snap[k].key)) });
                            break 'blocks;
                        }
                    }
                }
            }
        }
        out
    }
}
