import Feox.Fmt.Commit
/-!
# Fmt.Expiry — the record a recovery exposes for a key is a generation that is on the device, whole

`foldl absorbLive` (what `scan_rep_tiled` says the scan's table is) keeps, for a key with exactly one
generation on the device, that generation with the timestamp, value length and **absolute expiry
instant** its writer put into the head: the expiry survives flush and restart unchanged.
-/
namespace Feox.Fmt
open Feox.Gen Feox.Proto

theorem findLive_absorb_other (live : List Live) (l : Live) (k : Bytes) (hk : k ≠ l.key) :
    findLive k (absorbLive live l) = findLive k live := by
  unfold absorbLive
  split
  · split
    · rfl
    · exact findLive_insertLive_other l live k hk
  · exact findLive_insertLive_other l live k hk

theorem findLive_absorb_fresh (live : List Live) (l : Live) (h : findLive l.key live = none) :
    findLive l.key (absorbLive live l) = some l := by
  unfold absorbLive
  rw [h]
  exact findLive_insertLive_same l live

/-- a key that exactly one element of `ls` carries (and the starting table does not) ends up with that
element, whatever else is folded in before and after it -/
theorem findLive_fold_unique (ls : List Live) : ∀ (live : List Live) (l : Live), l ∈ ls →
    (∀ x ∈ ls, x.key = l.key → x = l) → ls.Nodup → findLive l.key live = none →
    findLive l.key (ls.foldl absorbLive live) = some l := by
  induction ls with
  | nil => intro live l hl; cases hl
  | cons x xs ih =>
    intro live l hl huniq hnd hnone
    simp only [List.foldl_cons]
    have hnd' := (List.nodup_cons.mp hnd)
    rcases List.mem_cons.mp hl with rfl | hl'
    · -- the head is the one: afterwards nothing with this key comes
      have h1 := findLive_absorb_fresh live l hnone
      have : ∀ (ys : List Live) (lv : List Live), (∀ y ∈ ys, y.key ≠ l.key) → findLive l.key lv = some l →
          findLive l.key (ys.foldl absorbLive lv) = some l := by
        intro ys
        induction ys with
        | nil => intro lv _ h; exact h
        | cons y ys ihy =>
          intro lv hne h
          simp only [List.foldl_cons]
          apply ihy _ (fun z hz => hne z (List.mem_cons_of_mem _ hz))
          rw [findLive_absorb_other lv y l.key (fun e => hne y List.mem_cons_self e.symm)]
          exact h
      apply this xs _ _ h1
      intro y hy hkey
      have := huniq y (List.mem_cons_of_mem _ hy) hkey
      subst this
      exact hnd'.1 hy
    · have hxk : x.key ≠ l.key := by
        intro e
        have := huniq x List.mem_cons_self e
        subst this
        exact hnd'.1 hl'
      apply ih _ l hl' (fun y hy => huniq y (List.mem_cons_of_mem _ hy)) hnd'.2
      rw [findLive_absorb_other live x l.key (fun e => hxk e.symm)]
      exact hnone

end Feox.Fmt
