import Feox.Fmt.ScanOk
import Feox.Fmt.Order
/-!
# Fmt.Acct — the counters recovery rebuilds are exact

After the scan of an image that represents a tiled data area, `count` is the number of keys the table
shows and `memory` the sum of their footprints (`recSize + key length + value length`) — whatever the
order and the number of generations on the device (C13's recovery clause; seeded change C13-2 broke it).
The table itself stays sorted by key, with one entry per key.
-/
namespace Feox.Fmt
open Feox.Gen Feox.Proto

def fp (o : Opts) (l : Live) : Nat := o.recSize + l.key.length + l.valueLen

def memOf (o : Opts) (ls : List Live) : Nat := (ls.map (fp o)).sum

def SortedL (ls : List Live) : Prop := ls.Pairwise (fun a b => bytesLt a.key b.key = true)

theorem mem_insertLive {l x : Live} : ∀ {ls : List Live}, x ∈ insertLive l ls → x = l ∨ x ∈ ls := by
  intro ls
  induction ls with
  | nil => intro h; simp [insertLive] at h; exact Or.inl h
  | cons y ys ih =>
    intro h
    unfold insertLive at h
    split at h
    · rcases List.mem_cons.mp h with h | h
      · exact Or.inl h
      · exact Or.inr (List.mem_cons_of_mem _ h)
    · split at h
      · rcases List.mem_cons.mp h with h | h
        · exact Or.inl h
        · exact Or.inr h
      · rcases List.mem_cons.mp h with h | h
        · exact Or.inr (by rw [h]; exact List.mem_cons_self)
        · rcases ih h with h | h
          · exact Or.inl h
          · exact Or.inr (List.mem_cons_of_mem _ h)

theorem insertLive_sorted (l : Live) : ∀ (ls : List Live), SortedL ls → SortedL (insertLive l ls) := by
  intro ls
  induction ls with
  | nil => intro _; simp [insertLive, SortedL]
  | cons y ys ih =>
    intro hs
    unfold SortedL at hs ⊢
    rw [List.pairwise_cons] at hs
    unfold insertLive
    split
    · rename_i heq
      have hk : l.key = y.key := by simpa using heq
      rw [List.pairwise_cons]
      exact ⟨fun b hb => by rw [hk]; exact hs.1 b hb, hs.2⟩
    · rename_i hne
      split
      · rename_i hlt
        rw [List.pairwise_cons]
        refine ⟨?_, List.pairwise_cons.mpr hs⟩
        intro b hb
        rcases List.mem_cons.mp hb with rfl | hb'
        · exact hlt
        · exact bytesLt_trans _ _ _ hlt (hs.1 b hb')
      · rename_i hnlt
        rw [List.pairwise_cons]
        refine ⟨?_, ih hs.2⟩
        intro b hb
        rcases mem_insertLive hb with rfl | hb'
        · apply bytesLt_total
          · simpa using hnlt
          · intro e; apply hne; simp [e]
        · exact hs.1 b hb'

theorem findLive_none_iff {k : Bytes} {ls : List Live} : findLive k ls = none ↔ ∀ x ∈ ls, x.key ≠ k := by
  unfold findLive
  rw [List.find?_eq_none]
  constructor
  · intro h x hx e; exact h x hx (by simp [e])
  · intro h x hx; simpa using h x hx

theorem insertLive_fresh (l : Live) : ∀ (ls : List Live), (∀ x ∈ ls, x.key ≠ l.key) →
    (insertLive l ls).length = ls.length + 1 ∧ ∀ o, memOf o (insertLive l ls) = memOf o ls + fp o l := by
  intro ls
  induction ls with
  | nil => intro _; simp [insertLive, memOf]
  | cons x xs ih =>
    intro h
    have hx : (l.key == x.key) = false := by
      have := h x List.mem_cons_self
      simp; exact fun e => this e.symm
    unfold insertLive
    simp only [hx, Bool.false_eq_true, ↓reduceIte]
    split
    · refine ⟨by simp, fun o => by simp [memOf]; omega⟩
    · obtain ⟨h1, h2⟩ := ih (fun y hy => h y (List.mem_cons_of_mem _ hy))
      refine ⟨by simp [h1], fun o => ?_⟩
      have := h2 o
      simp only [memOf, List.map_cons, List.sum_cons] at this ⊢
      omega

theorem insertLive_replace (l ex : Live) : ∀ (ls : List Live), SortedL ls → findLive l.key ls = some ex →
    (insertLive l ls).length = ls.length ∧ ∀ o, memOf o (insertLive l ls) + fp o ex = memOf o ls + fp o l := by
  intro ls
  induction ls with
  | nil => intro _ h; simp [findLive] at h
  | cons x xs ih =>
    intro hs hf
    unfold SortedL at hs
    rw [List.pairwise_cons] at hs
    unfold insertLive
    by_cases hk : l.key = x.key
    · have hx : (l.key == x.key) = true := by simp [hk]
      simp only [hx, ↓reduceIte]
      have : ex = x := by
        unfold findLive at hf
        simp only [List.find?_cons] at hf
        have : (x.key == l.key) = true := by simp [hk]
        rw [this] at hf
        exact (Option.some.inj hf).symm
      subst this
      refine ⟨by simp, fun o => by simp [memOf]; omega⟩
    · have hx : (l.key == x.key) = false := by simp; exact hk
      simp only [hx, Bool.false_eq_true, ↓reduceIte]
      have hf' : findLive l.key xs = some ex := by
        unfold findLive at hf ⊢
        simp only [List.find?_cons] at hf
        have : (x.key == l.key) = false := by simp; exact fun e => hk e.symm
        rw [this] at hf
        exact hf
      have hexmem : ex ∈ xs := List.mem_of_find?_eq_some hf'
      have hexkey : ex.key = l.key := findLive_key hf'
      split
      · rename_i hlt
        -- l.key < x.key < ex.key = l.key: impossible
        exfalso
        have h1 := hs.1 ex hexmem
        rw [hexkey] at h1
        have := bytesLt_asymm _ _ hlt
        rw [this] at h1; cases h1
      · obtain ⟨h1, h2⟩ := ih hs.2 hf'
        refine ⟨by simp [h1], fun o => ?_⟩
        have := h2 o
        simp only [memOf, List.map_cons, List.sum_cons] at this ⊢
        omega

theorem fp_le_memOf (o : Opts) {ex : Live} : ∀ {ls : List Live}, ex ∈ ls → fp o ex ≤ memOf o ls := by
  intro ls
  induction ls with
  | nil => intro h; cases h
  | cons x xs ih =>
    intro h
    simp only [memOf, List.map_cons, List.sum_cons]
    rcases List.mem_cons.mp h with rfl | h'
    · omega
    · have := ih h'; simp only [memOf] at this; omega

/-- what recovery's counters say about its table -/
structure AcctInv (o : Opts) (st : ScanSt) : Prop where
  sorted : SortedL st.live
  count : st.count = st.live.length
  memory : st.memory = memOf o st.live

theorem acct_init (o : Opts) (f : Fsm.State) : AcctInv o { fsm := f } := ⟨by simp [SortedL], rfl, rfl⟩

/-- **The counters stay exact through the whole scan.** -/
theorem scan_acct {img : Image} {v lo total : Nat} {o : Opts} {journal : List (Nat × Nat)}
    {info : Gen → RecMeta} {d : Disk} (hro : o.readOnly = false) (hrep : Rep img v lo total info d) :
    ∀ (fuel p : Nat) (L : List Rec) (st st' : ScanSt), total - p ≤ fuel → lo ≤ p → TiledBy d total L p →
      AcctInv o st → scan img v total o journal p st = .ok st' → AcctInv o st' := by
  intro fuel
  induction fuel with
  | zero =>
    intro p L st st' hf hlo ht hinv hs
    cases ht with
    | done hp =>
      have : ¬ p < total := by omega
      rw [scan] at hs; simp [this] at hs; rw [← hs]; exact hinv
    | free hp _ _ _ => omega
    | recd hint hb _ => have := hint.1; omega
  | succ fuel ih =>
    intro p L st st' hf hlo ht hinv hs
    cases ht with
    | done hp =>
      have : ¬ p < total := by omega
      rw [scan] at hs; simp [this] at hs; rw [← hs]; exact hinv
    | free hp hfl hmk ht' =>
      have hr := hrep p hlo hp
      rcases hfl with hz | ⟨r, hm⟩
      · rw [hz] at hr
        rw [scan_step_free hro hp hr] at hs
        exact ih (p + 1) L st st' (by omega) (by omega) ht' hinv hs
      · rw [hm] at hr
        obtain ⟨hmark, h64⟩ := hr
        obtain ⟨h0, hb, hspan⟩ := hmk r hm
        rw [scan_step_mark hro hp hmark h64 h0 hb] at hs
        have hsk := (TiledBy.free hp (Or.inr ⟨r, hm⟩) hmk ht').skip r hb (by
          intro q h1 h2
          by_cases hq : q = p
          · subst hq; exact Or.inr ⟨r, hm⟩
          · exact hspan q (by omega) h2)
        obtain ⟨_, b, _⟩ := markSt_fields img o p r st
        have hinv' : AcctInv o (markSt img o p r st) := by
          have hc : (markSt img o p r st).count = st.count := by unfold markSt; simp only []; split <;> rfl
          have hm' : (markSt img o p r st).memory = st.memory := by unfold markSt; simp only []; split <;> rfl
          exact ⟨by rw [b]; exact hinv.sorted, by rw [hc, b]; exact hinv.count, by rw [hm', b]; exact hinv.memory⟩
        exact ih (p + r) L _ st' (by omega) (by omega) hsk hinv' hs
    | recd hint hb ht' =>
      rename_i L' g n
      have hp : p < total := by have := hint.1; omega
      have hr := hrep p hlo hp
      have hd0 := hint.2 0 hint.1
      simp only [Nat.add_zero] at hd0
      rw [hd0] at hr
      rw [scan_step_rec hro hp hr hint.1 hb] at hs
      have hnext : total - (p + n) ≤ fuel := by have := hint.1; omega
      simp only [recStep, hro, Bool.not_false, ↓reduceIte] at hs
      cases hex : findLive (info g).key st.live with
      | none =>
        rw [hex] at hs
        simp only [] at hs
        split at hs
        · cases hs
        · have hfresh := findLive_none_iff.mp hex
          obtain ⟨h1, h2⟩ := insertLive_fresh ⟨(info g).key, (info g).ts, (info g).expiry, (info g).valueLen, p, n⟩ st.live hfresh
          apply ih (p + n) L' _ st' hnext (by omega) ht' _ hs
          refine ⟨insertLive_sorted _ _ hinv.sorted, ?_, ?_⟩
          · simp only []; rw [h1, hinv.count]
          · simp only []; rw [h2 o, hinv.memory]; simp [fp]
      | some ex =>
        rw [hex] at hs
        simp only [] at hs
        split at hs
        · -- an older generation scanned after its winner: the table and the counters stay
          apply ih (p + n) L' _ st' hnext (by omega) ht' _ hs
          exact ⟨hinv.sorted, hinv.count, hinv.memory⟩
        · split at hs
          · cases hs
          · split at hs
            · cases hs
            · obtain ⟨h1, h2⟩ := insertLive_replace ⟨(info g).key, (info g).ts, (info g).expiry, (info g).valueLen, p, n⟩ ex st.live hinv.sorted hex
              have hmem : ex ∈ st.live := List.mem_of_find?_eq_some hex
              have hle := fp_le_memOf o hmem
              apply ih (p + n) L' _ st' hnext (by omega) ht' _ hs
              refine ⟨insertLive_sorted _ _ hinv.sorted, ?_, ?_⟩
              · simp only []; rw [h1, hinv.count]
              · simp only []
                have := h2 o
                rw [hinv.memory]
                simp only [fp] at this hle ⊢
                omega

end Feox.Fmt
