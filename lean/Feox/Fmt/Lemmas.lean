import Feox.Fmt.Codec
/-! Helper lemmas for the codecs: slicing concatenations, reading back fields. -/
namespace Feox.Fmt
open Feox.Gen

theorem slice_mid (pre f post : Bytes) : slice (pre ++ (f ++ post)) pre.length f.length = f := by
  simp [slice]

theorem slice_mid' {pre f post : Bytes} {off n : Nat} (h1 : off = pre.length) (h2 : n = f.length) :
    slice (pre ++ (f ++ post)) off n = f := by
  subst h1; subst h2; exact slice_mid pre f post

theorem slice_zero_prefix (f post : Bytes) {n : Nat} (h : n = f.length) : slice (f ++ post) 0 n = f := by
  subst h; simp [slice]

theorem slice_length_le (b : Bytes) (off n : Nat) : (slice b off n).length ≤ n := by
  simp [slice]; omega

theorem slice_length {b : Bytes} {off n : Nat} (h : off + n ≤ b.length) : (slice b off n).length = n := by
  simp [slice]; omega

theorem rd_lt (b : Bytes) : rd b < 256 ^ b.length := by
  induction b with
  | nil => simp [rd]
  | cons x xs ih =>
    simp only [rd, List.length_cons, Nat.pow_succ]
    have := x.toNat_lt
    have h2 : x.toNat < 256 := by simpa using this
    calc x.toNat + 256 * rd xs < 256 + 256 * rd xs := by omega
      _ = 256 * (rd xs + 1) := by rw [Nat.mul_add]; omega
      _ ≤ 256 * 256 ^ xs.length := Nat.mul_le_mul_left _ ih
      _ = 256 ^ xs.length * 256 := Nat.mul_comm _ _

theorem le2 (v : Nat) (h : v < 65536) : rd (le 2 v) = v := rd_le_of_lt (by simpa using h)
theorem le4 (v : Nat) (h : v < 4294967296) : rd (le 4 v) = v := rd_le_of_lt (by simpa using h)
theorem le8 (v : Nat) (h : v < 2 ^ 64) : rd (le 8 v) = v := rd_le_of_lt (by simpa using h)

@[simp] theorem patch_length {b p : Bytes} {off : Nat} (h : off + p.length ≤ b.length) :
    (patch b off p).length = b.length := by
  simp [patch]; omega

/-- patching the middle piece of a three-part concatenation -/
theorem patch_mid (pre f post p : Bytes) (h : p.length = f.length) :
    patch (pre ++ (f ++ post)) pre.length p = pre ++ (p ++ post) := by
  simp [patch, h]

end Feox.Fmt
