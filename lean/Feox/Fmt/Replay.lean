import Feox.Fmt.Commit
namespace Feox.Fmt
open Feox.Gen Feox.Proto

theorem applyIo_append (img : Image) (a b : List IoEv) : applyIo img (a ++ b) = applyIo (applyIo img a) b := by
  induction a generalizing img with
  | nil => rfl
  | cons x xs ih => cases x <;> simp [applyIo, ih]

/-- what the chunked marker writes of one retired extent leave in every block -/
theorem blockAt_retireWrites (s n : Nat) : ∀ (img : Image) (q : Nat), s + n ≤ img.size →
    blockAt (applyIo img (retireWrites s n)) q =
      if s ≤ q ∧ q < s + n then markerBlock q (s + n - q) RETIREMENT_COMPLETE else blockAt img q := by
  fun_induction retireWrites s n with
  | case1 s =>
    intro img q _
    have : ¬ (s ≤ q ∧ q < s + 0) := by omega
    simp [applyIo]
    intro h1 h2; omega
  | case2 s n h blocks ih =>
    intro img q hb
    have hbl : blocks ≤ n := Nat.min_le_left _ _
    have hbpos : 0 < blocks := by
      simp only [blocks]; have : 0 < RETIREMENT_WRITE_BLOCKS := by decide
      omega
    simp only [applyIo]
    rw [ih _ q (by rw [writeBlocks_size]; omega)]
    by_cases h2 : s + blocks ≤ q ∧ q < s + blocks + (n - blocks)
    · have h1 : s ≤ q ∧ q < s + n := by omega
      simp only [h2, and_self, ↓reduceIte, h1]
      congr 1; omega
    · simp only [h2, ↓reduceIte]
      by_cases h1 : s ≤ q ∧ q < s + blocks
      · have h3 : s ≤ q ∧ q < s + n := by omega
        simp only [h3, and_self, ↓reduceIte]
        have := blockAt_writeBlocks_in img s (markerBlocks s n blocks) (q - s) (by rw [markerBlocks_length]; omega)
          (by rw [markerBlocks_length]; omega)
        have e1 : s + (q - s) = q := by omega
        rw [e1] at this
        rw [this, markerBlocks_getD s n blocks (q - s) (by omega), e1]
        congr 1; omega
      · have h3 : ¬ (s ≤ q ∧ q < s + n) := by omega
        simp only [h3, ↓reduceIte]
        apply blockAt_writeBlocks_out
        rw [markerBlocks_length]; omega


theorem blockAt_markerWrite (img : Image) (s n q : Nat) (hb : s + n ≤ img.size) :
    blockAt (writeBlocks img s (markerBlocks s n n)) q =
      if s ≤ q ∧ q < s + n then markerBlock q (s + n - q) RETIREMENT_COMPLETE else blockAt img q := by
  by_cases h1 : s ≤ q ∧ q < s + n
  · simp only [h1, and_self, ↓reduceIte]
    have := blockAt_writeBlocks_in img s (markerBlocks s n n) (q - s) (by rw [markerBlocks_length]; omega)
      (by rw [markerBlocks_length]; omega)
    have e1 : s + (q - s) = q := by omega
    rw [e1] at this
    rw [this, markerBlocks_getD s n n (q - s) (by omega), e1]
    congr 1; omega
  · simp only [h1, ↓reduceIte]
    apply blockAt_writeBlocks_out
    rw [markerBlocks_length]; omega

/-- **Journal replay as `recoverImage` issues it** (`retireUnjournaled`: the marker writes of the
journalled run in chunks of `RETIREMENT_WRITE_BLOCKS`, then an fsync), on any crash image that agrees
with the old image outside the run. -/
theorem replay_io_on_bytes {img0 img : Image} {v lo total : Nat} {info : Gen → RecMeta} {d0 : Disk} {L : List Rec}
    (hrep : Rep img0 v lo total info d0) (ht : TiledBy d0 total L lo) (htot0 : total ≤ img0.size) (htot : total ≤ img.size)
    (h64 : total < 2 ^ 64) (s e : Nat) (hse : s < e) (hlo : lo ≤ s) (he : e ≤ total) (hal : Aligned L s e)
    (hagree : ∀ p, ¬ (s ≤ p ∧ p < e) → blockAt img p = blockAt img0 p) :
    let img' := applyIo img (retireUnjournaled [(s, e - s)])
    Rep img' v lo total info (maskRun d0 s e) ∧
    TiledBy (maskRun d0 s e) total (L.filter (outside s e)) lo ∧
    ∀ (o : Opts) (journal : List (Nat × Nat)) (st : ScanSt), o.readOnly = false →
      GoodOutcome info (L.filter (outside s e)) st (scan img' v total o journal lo st) := by
  intro img'
  obtain ⟨hrep1, ht', _⟩ := replay_on_bytes hrep ht htot0 htot h64 s e hse hlo he hal hagree
  have hsame : ∀ q, blockAt img' q = blockAt (writeBlocks img s (markerBlocks s (e - s) (e - s))) q := by
    intro q
    have e1 : img' = applyIo (applyIo img (retireWrites s (e - s))) [.fsync] := by
      simp only [img', retireUnjournaled, List.flatMap_cons, List.flatMap_nil, List.append_nil]
      rw [applyIo_append]
    rw [e1]
    simp only [applyIo]
    rw [blockAt_retireWrites s (e - s) img q (by omega), blockAt_markerWrite img s (e - s) q (by omega)]
  have hrep' := Rep.congr hsame hrep1
  exact ⟨hrep', ht', fun o journal st hro =>
    scan_rep_tiled hro hrep' (total - lo) lo _ st (Nat.le_refl _) (Nat.le_refl _) ht'⟩

end Feox.Fmt
