import Feox.Fmt.CrashedTxn
import Feox.Fmt.Blank
/-!
# Fmt.Reopen — opening again after a crashed open

`replayIo_keeps_metadata`: the replay's writes (markers in the data area, one journal block) leave both
metadata blocks alone.  `reopen_after_crashed_open`: the image the first open left is opened by
`recover_clean_image` — no write, the same table.  The journal state of that image (clear) is a hypothesis here; the differential reader evaluates it on
every recovered image.
-/
namespace Feox.Fmt
open Feox.Gen Feox.Proto

/-- sharper shape of the replay's writes: the journal write is one block at most, at the next slot's sector -/
theorem replayIo_shape' {p p1 : JPos} {extents co : List (Nat × Nat)} {io1 : List IoEv}
    (hne : extents.isEmpty = false) (hco : coalesceExtents extents = some co) (hio : replayIo p extents = .ok (io1, p1)) :
    ∃ bs, io1 = retireUnjournaled co ++ [.write (journalSector p.next.slot) bs, .fsync] ∧ bs.length ≤ 1 := by
  unfold replayIo at hio
  have hg : (p.next.gen == 0) = false := by simp [JPos.next]
  simp only [hne, hco, Bool.false_eq_true, ↓reduceIte, clearJournalIo, encodeClear, hg, bind, Except.bind, pure, Except.pure] at hio
  injection hio with hio
  injection hio with h1 h2
  exact ⟨_, h1.symm, toBlocks_length_le 1 _ (by rw [clear_image_length]; omega)⟩

/-- the replay does not touch the two metadata blocks -/
theorem replayIo_keeps_metadata {p p1 : JPos} {extents co : List (Nat × Nat)} {io1 : List IoEv} (img : Image)
    (hne : extents.isEmpty = false) (hco : coalesceExtents extents = some co) (hio : replayIo p extents = .ok (io1, p1))
    (hruns : ∀ r ∈ co, r.1 ≤ r.1 + r.2 ∧ FEOX_DATA_START_BLOCK ≤ r.1 ∧ r.1 + r.2 ≤ img.size)
    (hdisj : co.Pairwise (fun a b => a.1 + a.2 ≤ b.1 ∨ b.1 + b.2 ≤ a.1)) :
    blockAt (applyIo img io1) FEOX_METADATA_BLOCK = blockAt img FEOX_METADATA_BLOCK ∧
    blockAt (applyIo img io1) FEOX_METADATA_BACKUP_BLOCK = blockAt img FEOX_METADATA_BACKUP_BLOCK := by
  obtain ⟨bs, hshape, hlen⟩ := replayIo_shape' hne hco hio
  have hs : p.next.slot < 2 := by
    simp only [JPos.next, ALLOCATION_JOURNAL_SLOTS]
    exact Nat.mod_lt _ (by decide)
  have key : ∀ q, q < FEOX_DATA_START_BLOCK → (q < journalSector p.next.slot ∨ journalSector p.next.slot + bs.length ≤ q) →
      blockAt (applyIo img io1) q = blockAt img q := by
    intro q hq hj
    rw [hshape, retireUnjournaled, applyIo_append, applyIo_append]
    simp only [applyIo]
    rw [blockAt_writeBlocks_out _ _ bs q hj,
      blockAt_retireAll co img img (fun _ => rfl) rfl (fun r hr => (hruns r hr).2.2) q]
    refine (blockAt_replayWrites (co.map toRun) img ?_ ?_ q).1 ?_
    · intro r hr
      obtain ⟨e, he, rfl⟩ := List.mem_map.mp hr
      exact ⟨(hruns e he).1, (hruns e he).2.2⟩
    · rw [List.pairwise_map]
      exact hdisj.imp (fun h => by simpa [toRun] using h)
    · rintro ⟨r, hr, h1, _⟩
      obtain ⟨e, he, rfl⟩ := List.mem_map.mp hr
      have := (hruns e he).2.1
      simp only [toRun] at h1
      omega
  have hj : journalSector p.next.slot = 1 ∨ journalSector p.next.slot = 4 := by
    simp only [journalSector, ALLOCATION_JOURNAL_START_BLOCK, ALLOCATION_JOURNAL_SLOT_BLOCKS]
    omega
  constructor
  · apply key
    · decide
    · left; simp only [FEOX_METADATA_BLOCK]; omega
  · apply key
    · decide
    · simp only [FEOX_METADATA_BACKUP_BLOCK]; omega


/-- **Opening again after a crashed open: no write, the same contents.**  `imgF` is the image the first
open of a crashed device left (`applyIo img io1`, the replay).  Its metadata blocks are those of `img`
(`replayIo_keeps_metadata`), its data area represents the masked tiling with complete markers
(`crashed_open_restores_clean_rep`); if its journal area decodes to a clear journal — the replay's last
write — the second open returns `.ok`, issues no device write and shows the same table as the first:
recovery is restartable, and a crash *after* a recovery's replay costs nothing. -/
theorem reopen_after_crashed_open (img0 img : Image) (size : Nat) (o : Opts) (info : Gen → RecMeta) (d0 : Disk) (L : List Rec)
    (md : Meta) (js js2 : JournalState) (co : List (Nat × Nat)) (io1 : List IoEv) (p1 : JPos)
    (hro : o.readOnly = false)
    (hsize : validDeviceSize size = true) (himg : img.size * BSZ = size)
    (hsig : slice (selectMeta (blockAt img FEOX_METADATA_BLOCK) (blockAt img FEOX_METADATA_BACKUP_BLOCK)) 0 FEOX_SIGNATURE_SIZE = FEOX_SIGNATURE)
    (hmd : Meta.decode (selectMeta (blockAt img FEOX_METADATA_BLOCK) (blockAt img FEOX_METADATA_BACKUP_BLOCK)) = some md)
    (hne : js.extents.isEmpty = false) (hco : coalesceExtents js.extents = some co)
    (hio : replayIo ⟨js.generation, js.slot⟩ js.extents = .ok (io1, p1))
    (hjsF : decodeJournal ((List.range ALLOCATION_JOURNAL_BLOCKS).flatMap fun i => blockAt (applyIo img io1) (ALLOCATION_JOURNAL_START_BLOCK + i)) (size / BSZ) = .ok js2)
    (hclear : js2.extents = [])
    (hrep : Rep img0 md.version FEOX_DATA_START_BLOCK (size / BSZ) info d0) (ht : TiledBy d0 (size / BSZ) L FEOX_DATA_START_BLOCK)
    (htot0 : size / BSZ ≤ img0.size)
    (hes : ∀ r ∈ js.extents, FEOX_DATA_START_BLOCK ≤ r.1 ∧ r.1 + r.2 ≤ size / BSZ ∧ Aligned L r.1 (r.1 + r.2))
    (hagree : ∀ q, FEOX_DATA_START_BLOCK ≤ q → ¬ inExt js.extents q → blockAt img q = blockAt img0 q)
    (hclean0 : ∀ p r, FEOX_DATA_START_BLOCK ≤ p → p < size / BSZ → ¬ inExt js.extents p → d0 p = .mark r →
      rd (slice (blockAt img0 p) 18 1) = RETIREMENT_COMPLETE ∧ (r > 1 → tailsComplete img0 p r = true))
    (hspan : ∀ p r, FEOX_DATA_START_BLOCK ≤ p → p < size / BSZ → ¬ inExt js.extents p → d0 p = .mark r →
      ∀ q, p ≤ q → q < p + r → ¬ inExt js.extents q)
    (hnd : ((filterRuns L (co.map toRun)).map (fun r => (info r.2.1).key)).Nodup)
    (hexp : o.ttlOn = true → ∀ l ∈ (filterRuns L (co.map toRun)).foldl (fun lv r => absorbLive lv (liveOf info r)) [],
      (decide (l.expiry > 0) && decide (o.now > l.expiry)) = false) :
    ∃ r2, (recoverImage (applyIo img io1) size o).result = .ok r2 ∧ (recoverImage (applyIo img io1) size o).io = [] ∧
      r2.image = applyIo img io1 ∧
      r2.live = (filterRuns L (co.map toRun)).foldl (fun lv r => absorbLive lv (liveOf info r)) [] := by
  have hBSZ : BSZ = 4096 := rfl
  have hvs := hsize
  unfold validDeviceSize at hvs
  simp only [Bool.not_eq_true', Bool.or_eq_false_iff, decide_eq_false_iff_not, bne_eq_false_iff_eq] at hvs
  obtain ⟨⟨h1, h2⟩, h3⟩ := hvs
  have hMAX : MAX_DEVICE_SIZE < 2 ^ 64 := by decide
  have h64 : size / BSZ < 2 ^ 64 := by
    have : size / BSZ ≤ size := Nat.div_le_self _ _
    omega
  have htot : size / BSZ ≤ img.size := by
    rw [← himg, hBSZ]; simp
  obtain ⟨hruns, hdisj, _⟩ := coalesceExtents_spec L FEOX_DATA_START_BLOCK (size / BSZ) js.extents co hco hes
  obtain ⟨hrepF, htF, hmarksF⟩ := crashed_open_restores_clean_rep h64 js.extents co _ p1 io1 img0 img d0 L hne hco hio hrep ht htot0 htot
    hes hagree hclean0 hspan
  obtain ⟨m0, m7⟩ := replayIo_keeps_metadata img hne hco hio
    (fun r hr => by obtain ⟨a, b, c, _⟩ := hruns r hr; exact ⟨by omega, b, by omega⟩) hdisj
  obtain ⟨r2, a1, a2, a3, _, a5⟩ := recover_clean_image (applyIo img io1) size o info (maskRuns d0 (co.map toRun))
    (filterRuns L (co.map toRun)) md js2 hro hsize (by rw [applyIo_size]; exact himg)
    (not_blank_of_signature _ (by rw [m0, m7]; exact hsig))
    (by rw [m0, m7]; exact hsig) (by rw [m0, m7]; exact hmd) hjsF hclear hrepF htF hmarksF hnd hexp
  exact ⟨r2, a1, a2, a3, a5⟩

end Feox.Fmt
