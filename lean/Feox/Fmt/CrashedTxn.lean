import Feox.Fmt.Intent
/-!
# Fmt.CrashedTxn — the two kinds of crashed transaction, as whole opens

`recover_crashed_retirement`: the journal holds extents of records of the old tiling; alignment and the
marker-span condition follow from the tiling (`tiled_markOK`, `span_avoids_retired`);
`survivors_of_retirement` says which records the table is folded over: exactly those not journalled.
`recover_crashed_write`: the journal holds extents that were free; nothing of the write is visible and
every old record survives (`filterRuns_free`).  `recover_crashed_front_write`: the same from a device with
complete markers when every journalled extent was allocated from the front of a free run — the marker-span
condition then follows too (`span_avoids_front_alloc`).
-/
namespace Feox.Fmt
open Feox.Gen Feox.Proto

/-- in a tiled area every marker's span is well formed -/
theorem tiled_markOK {d : Disk} {hi : Nat} {L : List Rec} {p : Nat} (h : TiledBy d hi L p) :
    ∀ b, p ≤ b → b < hi → MarkOK d hi b := by
  induction h with
  | done hp => intro b h1 h2; omega
  | @free L' p' hp hfl hm _ ih =>
    intro b h1 h2
    by_cases hb : b = p'
    · subst hb; exact hm
    · exact ih b (by omega) h2
  | @recd L' p' g n hint hb _ ih =>
    intro b h1 h2
    by_cases hin : b < p' + n
    · intro r hr
      have := hint.2 (b - p') (by omega)
      have e : p' + (b - p') = b := by omega
      rw [e] at this
      rw [this] at hr
      cases hr
    · exact ih b (by omega) h2

/-- **No old marker span reaches into a retired record.**  When every journalled extent is the extent of a
record of the tiling (a retirement), the span of a marker outside the journalled blocks contains none of
them — the hypothesis `hspan` of the crashed-open theorems. -/
theorem span_avoids_retired {d : Disk} {hi lo : Nat} {L : List Rec} (h : TiledBy d hi L lo) (exts : List (Nat × Nat))
    (hx : ∀ e ∈ exts, ∃ r ∈ L, r.1 = e.1 ∧ r.2.2 = e.2) :
    ∀ p r, lo ≤ p → p < hi → ¬ inExt exts p → d p = .mark r → ∀ q, p ≤ q → q < p + r → ¬ inExt exts q := by
  intro p r hlo hp hout hm q hq1 hq2 hin
  by_cases hqp : q = p
  · subst hqp; exact hout hin
  · obtain ⟨_, _, hfl⟩ := tiled_markOK h p hlo hp r hm
    have hf := hfl q (by omega) hq2
    obtain ⟨e, he, h1, h2⟩ := hin
    obtain ⟨rc, hrc, e1, e2⟩ := hx e he
    obtain ⟨hint, _, _⟩ := h.recs.1 rc hrc
    have hd := hint.2 (q - rc.1) (by omega)
    have e3 : rc.1 + (q - rc.1) = q := by omega
    rw [e3] at hd
    rcases hf with hz | ⟨r', hm'⟩
    · rw [hd] at hz; cases hz
    · rw [hd] at hm'; cases hm'


/-- **A crash during a retirement transaction, whole open.**  The journal holds the extents of records of
the old tiling (what a retirement journals); the crash left anything inside them; old markers were
complete.  `recoverImage` succeeds, writes only the replay, and shows the newest-wins table over the
records outside the journalled extents.  Compared with `recover_crashed_device_journalled` the alignment
and marker-span hypotheses are gone: they follow from the tiling. -/
theorem recover_crashed_retirement (img0 img : Image) (size : Nat) (o : Opts) (info : Gen → RecMeta) (d0 : Disk) (L : List Rec)
    (md : Meta) (js : JournalState) (co : List (Nat × Nat))
    (hro : o.readOnly = false)
    (hsize : validDeviceSize size = true) (himg : img.size * BSZ = size) (hnz : imageAllZero img = false)
    (hsig : slice (selectMeta (blockAt img FEOX_METADATA_BLOCK) (blockAt img FEOX_METADATA_BACKUP_BLOCK)) 0 FEOX_SIGNATURE_SIZE = FEOX_SIGNATURE)
    (hmd : Meta.decode (selectMeta (blockAt img FEOX_METADATA_BLOCK) (blockAt img FEOX_METADATA_BACKUP_BLOCK)) = some md)
    (hjs : decodeJournal ((List.range ALLOCATION_JOURNAL_BLOCKS).flatMap fun i => blockAt img (ALLOCATION_JOURNAL_START_BLOCK + i)) (size / BSZ) = .ok js)
    (hne : js.extents.isEmpty = false) (hco : coalesceExtents js.extents = some co)
    (hrep : Rep img0 md.version FEOX_DATA_START_BLOCK (size / BSZ) info d0) (ht : TiledBy d0 (size / BSZ) L FEOX_DATA_START_BLOCK)
    (htot0 : size / BSZ ≤ img0.size)
    (hx : ∀ e ∈ js.extents, ∃ r ∈ L, r.1 = e.1 ∧ r.2.2 = e.2)
    (hagree : ∀ q, FEOX_DATA_START_BLOCK ≤ q → ¬ inExt js.extents q → blockAt img q = blockAt img0 q)
    (hclean0 : ∀ p r, FEOX_DATA_START_BLOCK ≤ p → p < size / BSZ → ¬ inExt js.extents p → d0 p = .mark r →
      rd (slice (blockAt img0 p) 18 1) = RETIREMENT_COMPLETE ∧ (r > 1 → tailsComplete img0 p r = true))
    (hnd : ((filterRuns L (co.map toRun)).map (fun r => (info r.2.1).key)).Nodup)
    (hexp : o.ttlOn = true → ∀ l ∈ (filterRuns L (co.map toRun)).foldl (fun lv r => absorbLive lv (liveOf info r)) [],
      (decide (l.expiry > 0) && decide (o.now > l.expiry)) = false) :
    ∃ r io1, (recoverImage img size o).result = .ok r ∧ (recoverImage img size o).io = io1 ∧ r.image = applyIo img io1 ∧
      r.version = md.version ∧
      r.live = (filterRuns L (co.map toRun)).foldl (fun lv r => absorbLive lv (liveOf info r)) [] := by
  have hes : ∀ e ∈ js.extents, FEOX_DATA_START_BLOCK ≤ e.1 ∧ e.1 + e.2 ≤ size / BSZ ∧ Aligned L e.1 (e.1 + e.2) := by
    intro e he
    obtain ⟨r, hr, e1, e2⟩ := hx e he
    obtain ⟨_, h1, h2⟩ := ht.recs.1 r hr
    rw [← e1, ← e2]
    exact ⟨h1, h2, tiled_aligned_of_rec ht r hr⟩
  obtain ⟨r, io1, h1, h2, h3, _, h4, h5⟩ := recover_crashed_device_journalled img0 img size o info d0 L md js co hro hsize himg hnz hsig hmd
    hjs hne hco hrep ht htot0 hes hagree hclean0 (span_avoids_retired ht js.extents hx) hnd hexp
  exact ⟨r, io1, h1, h2, h3, h4, h5⟩


theorem filterRuns_free {d : Disk} {hi lo : Nat} {L : List Rec} (h : TiledBy d hi L lo) : ∀ (runs : List (Nat × Nat)),
    (∀ run ∈ runs, run.1 < run.2 ∧ ∀ q, run.1 ≤ q → q < run.2 → FLs d q) → filterRuns L runs = L := by
  intro runs
  induction runs with
  | nil => intro _; rfl
  | cons r rs ih =>
    intro hr
    obtain ⟨s, e⟩ := r
    obtain ⟨hse, hfl⟩ := hr (s, e) List.mem_cons_self
    simp only [filterRuns]
    rw [(h.aligned_of_fls s e hse hfl).2]
    exact ih (fun run hrun => hr run (List.mem_cons_of_mem _ hrun))

/-- **A crash during a write transaction, whole open: nothing of it is visible.**  The journal holds
extents that were free when the intent became durable (what a write transaction journals: the blocks it
allocated); the crash left anything inside them — whole records, torn records, nothing.  `recoverImage`
succeeds, writes only the replay, and shows the newest-wins table over exactly the old records: the
unacknowledged write is invisible and every older record survives. -/
theorem recover_crashed_write (img0 img : Image) (size : Nat) (o : Opts) (info : Gen → RecMeta) (d0 : Disk) (L : List Rec)
    (md : Meta) (js : JournalState) (co : List (Nat × Nat))
    (hro : o.readOnly = false)
    (hsize : validDeviceSize size = true) (himg : img.size * BSZ = size) (hnz : imageAllZero img = false)
    (hsig : slice (selectMeta (blockAt img FEOX_METADATA_BLOCK) (blockAt img FEOX_METADATA_BACKUP_BLOCK)) 0 FEOX_SIGNATURE_SIZE = FEOX_SIGNATURE)
    (hmd : Meta.decode (selectMeta (blockAt img FEOX_METADATA_BLOCK) (blockAt img FEOX_METADATA_BACKUP_BLOCK)) = some md)
    (hjs : decodeJournal ((List.range ALLOCATION_JOURNAL_BLOCKS).flatMap fun i => blockAt img (ALLOCATION_JOURNAL_START_BLOCK + i)) (size / BSZ) = .ok js)
    (hne : js.extents.isEmpty = false) (hco : coalesceExtents js.extents = some co)
    (hrep : Rep img0 md.version FEOX_DATA_START_BLOCK (size / BSZ) info d0) (ht : TiledBy d0 (size / BSZ) L FEOX_DATA_START_BLOCK)
    (htot0 : size / BSZ ≤ img0.size)
    (hx : ∀ e ∈ js.extents, 0 < e.2 ∧ FEOX_DATA_START_BLOCK ≤ e.1 ∧ e.1 + e.2 ≤ size / BSZ ∧ ∀ q, e.1 ≤ q → q < e.1 + e.2 → FLs d0 q)
    (hagree : ∀ q, FEOX_DATA_START_BLOCK ≤ q → ¬ inExt js.extents q → blockAt img q = blockAt img0 q)
    (hclean0 : ∀ p r, FEOX_DATA_START_BLOCK ≤ p → p < size / BSZ → ¬ inExt js.extents p → d0 p = .mark r →
      rd (slice (blockAt img0 p) 18 1) = RETIREMENT_COMPLETE ∧ (r > 1 → tailsComplete img0 p r = true))
    (hspan : ∀ p r, FEOX_DATA_START_BLOCK ≤ p → p < size / BSZ → ¬ inExt js.extents p → d0 p = .mark r →
      ∀ q, p ≤ q → q < p + r → ¬ inExt js.extents q)
    (hnd : (L.map (fun r => (info r.2.1).key)).Nodup)
    (hexp : o.ttlOn = true → ∀ l ∈ L.foldl (fun lv r => absorbLive lv (liveOf info r)) [],
      (decide (l.expiry > 0) && decide (o.now > l.expiry)) = false) :
    ∃ r io1, (recoverImage img size o).result = .ok r ∧ (recoverImage img size o).io = io1 ∧ r.image = applyIo img io1 ∧
      r.version = md.version ∧ r.live = L.foldl (fun lv r => absorbLive lv (liveOf info r)) [] := by
  have hes : ∀ e ∈ js.extents, FEOX_DATA_START_BLOCK ≤ e.1 ∧ e.1 + e.2 ≤ size / BSZ ∧ Aligned L e.1 (e.1 + e.2) := by
    intro e he
    obtain ⟨h0, h1, h2, h3⟩ := hx e he
    exact ⟨h1, h2, (ht.aligned_of_fls e.1 (e.1 + e.2) (by omega) h3).1⟩
  obtain ⟨hruns, _, hcov⟩ := coalesceExtents_spec L FEOX_DATA_START_BLOCK (size / BSZ) js.extents co hco hes
  have hsame : filterRuns L (co.map toRun) = L := by
    apply filterRuns_free ht
    intro run hrun
    obtain ⟨c, hc, rfl⟩ := List.mem_map.mp hrun
    refine ⟨by have := (hruns c hc).1; simp only [toRun]; omega, fun q h1 h2 => ?_⟩
    obtain ⟨e, he, h3, h4⟩ := (hcov q).mp ⟨toRun c, hrun, h1, h2⟩
    exact (hx e he).2.2.2 q h3 h4
  obtain ⟨r, io1, h1, h2, h3, _, h4, h5⟩ := recover_crashed_device_journalled img0 img size o info d0 L md js co hro hsize himg hnz hsig hmd
    hjs hne hco hrep ht htot0 hes hagree hclean0 hspan (by rw [hsame]; exact hnd) (by rw [hsame]; exact hexp)
  rw [hsame] at h5
  exact ⟨r, io1, h1, h2, h3, h4, h5⟩


theorem mem_filterRuns : ∀ (runs : List (Nat × Nat)) (L : List Rec) (r : Rec),
    r ∈ filterRuns L runs ↔ r ∈ L ∧ ∀ run ∈ runs, outside run.1 run.2 r = true := by
  intro runs
  induction runs with
  | nil => intro L r; simp [filterRuns]
  | cons x xs ih =>
    intro L r
    obtain ⟨s, e⟩ := x
    simp only [filterRuns, ih, List.mem_filter, List.mem_cons, forall_eq_or_imp]
    constructor
    · rintro ⟨⟨a, b⟩, c⟩; exact ⟨a, b, c⟩
    · rintro ⟨a, b, c⟩; exact ⟨⟨a, b⟩, c⟩

/-- **Which records survive a replayed retirement**: exactly the records of the old tiling that were not
journalled. -/
theorem survivors_of_retirement {d : Disk} {hi lo : Nat} {L : List Rec} (ht : TiledBy d hi L lo) (exts co : List (Nat × Nat))
    (hco : coalesceExtents exts = some co)
    (hx : ∀ e ∈ exts, ∃ r ∈ L, r.1 = e.1 ∧ r.2.2 = e.2) (r : Rec) :
    r ∈ filterRuns L (co.map toRun) ↔ r ∈ L ∧ ¬ ∃ e ∈ exts, e.1 = r.1 ∧ e.2 = r.2.2 := by
  have hes : ∀ e ∈ exts, lo ≤ e.1 ∧ e.1 + e.2 ≤ hi ∧ Aligned L e.1 (e.1 + e.2) := by
    intro e he
    obtain ⟨r, hr, e1, e2⟩ := hx e he
    obtain ⟨_, h1, h2⟩ := ht.recs.1 r hr
    rw [← e1, ← e2]
    exact ⟨h1, h2, tiled_aligned_of_rec ht r hr⟩
  obtain ⟨hruns, _, hcov⟩ := coalesceExtents_spec L lo hi exts co hco hes
  rw [mem_filterRuns]
  constructor
  · rintro ⟨hr, hout⟩
    refine ⟨hr, ?_⟩
    rintro ⟨e, he, e1, e2⟩
    obtain ⟨hint, _, _⟩ := ht.recs.1 r hr
    have hn := hint.1
    -- the first block of r is journalled, hence inside a run, so r is not outside that run
    obtain ⟨run, hrun, h1, h2⟩ := (hcov r.1).mpr ⟨e, he, by omega, by omega⟩
    have := hout run hrun
    simp only [outside, decide_eq_true_eq] at this
    omega
  · rintro ⟨hr, hnot⟩
    refine ⟨hr, fun run hrun => ?_⟩
    obtain ⟨c, hc, rfl⟩ := List.mem_map.mp hrun
    obtain ⟨hpos, _, _, hal⟩ := hruns c hc
    simp only [outside, toRun]
    rcases hal r hr with ⟨h1, h2⟩ | h | h
    · exfalso
      obtain ⟨hint, _, _⟩ := ht.recs.1 r hr
      have hn := hint.1
      -- r's first block lies in the run, hence in a journalled extent, i.e. in a retired record rc = r
      obtain ⟨e, he, h3, h4⟩ := (hcov r.1).mp ⟨toRun c, hrun, h1, by simp only [toRun]; omega⟩
      obtain ⟨rc, hrc, e1, e2⟩ := hx e he
      rcases pairwise_mem_cases ht.recs.2 r hr rc hrc with heq | h5 | h5
      · exact hnot ⟨e, he, by rw [← e1, heq], by rw [← e2, heq]⟩
      · omega
      · omega
    · exact decide_eq_true (Or.inl h)
    · exact decide_eq_true (Or.inr h)

/-- **No old marker span reaches into space allocated from the front of a free run.**  Every journalled
extent starts at the beginning of the data area, right after a block that is not free-looking (a record),
or right after another journalled block (the previous extent of the same batch).  Then the span of a marker
outside the journalled blocks contains none of them — the hypothesis `hspan` for write transactions. -/
theorem span_avoids_front_alloc {d : Disk} {hi lo : Nat} {L : List Rec} (h : TiledBy d hi L lo) (exts : List (Nat × Nat))
    (hx : ∀ e ∈ exts, lo ≤ e.1 ∧ (e.1 = lo ∨ ¬ FLs d (e.1 - 1) ∨ inExt exts (e.1 - 1))) :
    ∀ p r, lo ≤ p → p < hi → ¬ inExt exts p → d p = .mark r → ∀ q, p ≤ q → q < p + r → ¬ inExt exts q := by
  intro p r hlo hp hout hm
  obtain ⟨_, _, hfl⟩ := tiled_markOK h p hlo hp r hm
  intro q
  induction q using Nat.strongRecOn with
  | ind q ih =>
    intro hq1 hq2 hin
    by_cases hqp : q = p
    · subst hqp; exact hout hin
    · obtain ⟨e, he, h1, h2⟩ := hin
      have hpe : p < e.1 := by
        rcases Nat.lt_or_ge p e.1 with h' | h'
        · exact h'
        · exact absurd ⟨e, he, h', by omega⟩ hout
      obtain ⟨hlo', hc | hc | hc⟩ := hx e he
      · omega
      · by_cases hpp : e.1 - 1 = p
        · rw [hpp] at hc; exact hc (Or.inr ⟨r, hm⟩)
        · exact hc (hfl (e.1 - 1) (by omega) (by omega))
      · by_cases hpp : e.1 - 1 = p
        · rw [hpp] at hc; exact hout hc
        · exact ih (e.1 - 1) (by omega) (by omega) (by omega) hc


/-- **A crash during a write transaction that allocated from the front of free runs — whole open, from a
clean device.**  `img0` is a device with complete markers (`MarksClean`, what `openCleanB` decides on every
flushed file); the journal holds extents that were free on it, each starting at the front of a free run (or
right after the previous extent of the batch); the crashed image differs from `img0` only inside them.
`recoverImage` succeeds, writes only the replay, and shows exactly the old records. -/
theorem recover_crashed_front_write (img0 img : Image) (size : Nat) (o : Opts) (info : Gen → RecMeta) (d0 : Disk) (L : List Rec)
    (md : Meta) (js : JournalState) (co : List (Nat × Nat))
    (hro : o.readOnly = false)
    (hsize : validDeviceSize size = true) (himg : img.size * BSZ = size) (hnz : imageAllZero img = false)
    (hsig : slice (selectMeta (blockAt img FEOX_METADATA_BLOCK) (blockAt img FEOX_METADATA_BACKUP_BLOCK)) 0 FEOX_SIGNATURE_SIZE = FEOX_SIGNATURE)
    (hmd : Meta.decode (selectMeta (blockAt img FEOX_METADATA_BLOCK) (blockAt img FEOX_METADATA_BACKUP_BLOCK)) = some md)
    (hjs : decodeJournal ((List.range ALLOCATION_JOURNAL_BLOCKS).flatMap fun i => blockAt img (ALLOCATION_JOURNAL_START_BLOCK + i)) (size / BSZ) = .ok js)
    (hne : js.extents.isEmpty = false) (hco : coalesceExtents js.extents = some co)
    (hrep : Rep img0 md.version FEOX_DATA_START_BLOCK (size / BSZ) info d0) (ht : TiledBy d0 (size / BSZ) L FEOX_DATA_START_BLOCK)
    (htot0 : size / BSZ ≤ img0.size)
    (hclean : MarksClean img0 FEOX_DATA_START_BLOCK (size / BSZ) d0)
    (hx : ∀ e ∈ js.extents, 0 < e.2 ∧ FEOX_DATA_START_BLOCK ≤ e.1 ∧ e.1 + e.2 ≤ size / BSZ ∧
      (∀ q, e.1 ≤ q → q < e.1 + e.2 → FLs d0 q) ∧
      (e.1 = FEOX_DATA_START_BLOCK ∨ ¬ FLs d0 (e.1 - 1) ∨ inExt js.extents (e.1 - 1)))
    (hagree : ∀ q, FEOX_DATA_START_BLOCK ≤ q → ¬ inExt js.extents q → blockAt img q = blockAt img0 q)
    (hnd : (L.map (fun r => (info r.2.1).key)).Nodup)
    (hexp : o.ttlOn = true → ∀ l ∈ L.foldl (fun lv r => absorbLive lv (liveOf info r)) [],
      (decide (l.expiry > 0) && decide (o.now > l.expiry)) = false) :
    ∃ r io1, (recoverImage img size o).result = .ok r ∧ (recoverImage img size o).io = io1 ∧ r.image = applyIo img io1 ∧
      r.version = md.version ∧ r.live = L.foldl (fun lv r => absorbLive lv (liveOf info r)) [] :=
  recover_crashed_write img0 img size o info d0 L md js co hro hsize himg hnz hsig hmd hjs hne hco hrep ht htot0
    (fun e he => by obtain ⟨a, b, c, d, _⟩ := hx e he; exact ⟨a, b, c, d⟩)
    hagree
    (fun p r h1 h2 _ hm => hclean p r h1 h2 hm)
    (span_avoids_front_alloc ht js.extents (fun e he => by obtain ⟨_, b, _, _, f⟩ := hx e he; exact ⟨b, f⟩))
    hnd hexp


/-- **A crashed open re-establishes the clean representation.**  Under the hypotheses of
`recover_crashed_device_journalled` about the data area, the image the replay leaves again *represents* a
tiled disk (the old one with the journalled runs masked), tiled by the surviving records, with every marker
complete — the hypotheses (`Rep`, `TiledBy`, `MarksClean`) that `recover_clean_image` and the commit
theorems start from.  So "represents a tiled disk with complete markers" is an invariant of
transaction ; crash ; open, not only of transaction ; commit. -/
theorem crashed_open_restores_clean_rep {v total : Nat} {info : Gen → RecMeta} (h64 : total < 2 ^ 64)
    (extents co : List (Nat × Nat)) (p p1 : JPos) (io1 : List IoEv) (img0 img : Image) (d0 : Disk) (L : List Rec)
    (hne : extents.isEmpty = false) (hco : coalesceExtents extents = some co)
    (hio : replayIo p extents = .ok (io1, p1))
    (hrep : Rep img0 v FEOX_DATA_START_BLOCK total info d0) (ht : TiledBy d0 total L FEOX_DATA_START_BLOCK)
    (htot0 : total ≤ img0.size) (htot : total ≤ img.size)
    (hes : ∀ r ∈ extents, FEOX_DATA_START_BLOCK ≤ r.1 ∧ r.1 + r.2 ≤ total ∧ Aligned L r.1 (r.1 + r.2))
    (hagree : ∀ q, FEOX_DATA_START_BLOCK ≤ q → ¬ inExt extents q → blockAt img q = blockAt img0 q)
    (hclean0 : ∀ p r, FEOX_DATA_START_BLOCK ≤ p → p < total → ¬ inExt extents p → d0 p = .mark r →
      rd (slice (blockAt img0 p) 18 1) = RETIREMENT_COMPLETE ∧ (r > 1 → tailsComplete img0 p r = true))
    (hspan : ∀ p r, FEOX_DATA_START_BLOCK ≤ p → p < total → ¬ inExt extents p → d0 p = .mark r →
      ∀ q, p ≤ q → q < p + r → ¬ inExt extents q) :
    Rep (applyIo img io1) v FEOX_DATA_START_BLOCK total info (maskRuns d0 (co.map toRun)) ∧
    TiledBy (maskRuns d0 (co.map toRun)) total (filterRuns L (co.map toRun)) FEOX_DATA_START_BLOCK ∧
    MarksClean (applyIo img io1) FEOX_DATA_START_BLOCK total (maskRuns d0 (co.map toRun)) := by
  obtain ⟨hruns, hdisj, hcov⟩ := coalesceExtents_spec L FEOX_DATA_START_BLOCK total extents co hco hes
  have hagree' : ∀ q, FEOX_DATA_START_BLOCK ≤ q → ¬ inRuns (co.map toRun) q → blockAt img q = blockAt img0 q :=
    fun q hq hout => hagree q hq (fun h => hout ((hcov q).mpr h))
  obtain ⟨hrepF, htF, _⟩ := replay_open_on_bytes h64 extents co p p1 io1 img0 img d0 L hne hco hio hrep ht htot0 htot hruns hdisj hagree'
  refine ⟨hrepF, htF, ?_⟩
  apply marksClean_replayed h64 (co.map toRun) img0 img (applyIo img io1) d0 ?_ htot ?_ hagree'
    (fun p r a b hout => hclean0 p r a b (fun h => hout ((hcov p).mpr h)))
    (fun p r a b hout hl q c d hin => hspan p r a b (fun h => hout ((hcov p).mpr h)) hl q c d ((hcov q).mp hin))
    (replayIo_blocks img hne hco hio (fun r hr => by have := (hruns r hr).2.2.1; omega))
  · intro r hr
    obtain ⟨e, he, rfl⟩ := List.mem_map.mp hr
    obtain ⟨a, b, c, _⟩ := hruns e he
    exact ⟨by simp only [toRun]; omega, b, c⟩
  · rw [List.pairwise_map]
    exact hdisj.imp (fun h => by simpa [toRun] using h)


end Feox.Fmt
