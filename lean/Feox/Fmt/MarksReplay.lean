import Feox.Fmt.OpenCrashed
import Feox.Fmt.WriteRead
/-!
# Fmt.MarksReplay — the markers a replay leaves are complete; the crashed open from the pre-crash state

`maskRuns` / `replayWrites` block by block (`maskRuns_in/out`, `blockAt_replayWrites`), then
`marksClean_replayed`: after the replay every marker the masked labelling shows is complete on the image
(state byte and tails) — the replay's own by `C10.marker_roundtrip`, the old ones outside the runs because
their bytes are untouched.  `recover_crashed_device` plugs this into `recover_crashed_image`: the only
hypotheses left about the device are about the image *before* the crashed transaction (it represented a
tiled disk, its markers outside the runs were complete, no old marker span reaches into a run), the shape
of the journalled runs (whole tiles in the data area, disjoint) and what the journal area decodes to.
-/
namespace Feox.Fmt
open Feox.Gen Feox.Proto Feox.Fsm

theorem maskRuns_out : ∀ (runs : List (Nat × Nat)) (d : Disk) (b : Nat), ¬ inRuns runs b → maskRuns d runs b = d b := by
  intro runs
  induction runs with
  | nil => intro d b _; rfl
  | cons r rs ih =>
    intro d b h
    obtain ⟨s, e⟩ := r
    simp only [maskRuns]
    rw [ih _ b (fun ⟨r', hr', h1⟩ => h ⟨r', List.mem_cons_of_mem _ hr', h1⟩)]
    unfold maskRun
    have : ¬ (s ≤ b ∧ b < e) := fun hh => h ⟨(s, e), List.mem_cons_self, hh⟩
    simp only [this, ↓reduceIte]

theorem maskRuns_in : ∀ (runs : List (Nat × Nat)), runs.Pairwise (fun a b => a.2 ≤ b.1 ∨ b.2 ≤ a.1) →
    ∀ (d : Disk) (s e b : Nat), (s, e) ∈ runs → s ≤ b → b < e → maskRuns d runs b = .mark (e - b) := by
  intro runs
  induction runs with
  | nil => intro _ d s e b hm; cases hm
  | cons r rs ih =>
    intro hdisj d s e b hm h1 h2
    rw [List.pairwise_cons] at hdisj
    obtain ⟨s', e'⟩ := r
    simp only [maskRuns]
    rcases List.mem_cons.mp hm with heq | hm'
    · cases heq
      rw [maskRuns_out rs _ b]
      · unfold maskRun; simp only [h1, h2, and_self, ↓reduceIte]
      · rintro ⟨r', hr', h3, h4⟩
        have := hdisj.1 r' hr'
        simp only at this
        omega
    · exact ih hdisj.2 _ s e b hm' h1 h2

theorem blockAt_replayWrites : ∀ (runs : List (Nat × Nat)) (img : Image),
    (∀ r ∈ runs, r.1 ≤ r.2 ∧ r.2 ≤ img.size) → runs.Pairwise (fun a b => a.2 ≤ b.1 ∨ b.2 ≤ a.1) → ∀ q,
    (¬ inRuns runs q → blockAt (replayWrites img runs) q = blockAt img q) ∧
    (∀ s e, (s, e) ∈ runs → s ≤ q → q < e → blockAt (replayWrites img runs) q = markerBlock q (e - q) RETIREMENT_COMPLETE) := by
  intro runs
  induction runs with
  | nil => intro img _ _ q; exact ⟨fun _ => rfl, fun s e hm => by cases hm⟩
  | cons r rs ih =>
    intro img hb hdisj q
    rw [List.pairwise_cons] at hdisj
    obtain ⟨s', e'⟩ := r
    obtain ⟨hle, hsz⟩ := hb (s', e') List.mem_cons_self
    simp only at hle hsz
    simp only [replayWrites]
    have hb' : ∀ r ∈ rs, r.1 ≤ r.2 ∧ r.2 ≤ (writeBlocks img s' (markerBlocks s' (e' - s') (e' - s'))).size := by
      intro r hr; rw [writeBlocks_size]; exact hb r (List.mem_cons_of_mem _ hr)
    obtain ⟨iho, ihi⟩ := ih (writeBlocks img s' (markerBlocks s' (e' - s') (e' - s'))) hb' hdisj.2 q
    have hw := blockAt_markerWrite img s' (e' - s') q (by omega)
    have he : s' + (e' - s') = e' := by omega
    rw [he] at hw
    refine ⟨fun hout => ?_, fun s e hm h1 h2 => ?_⟩
    · rw [iho (fun ⟨r', hr', h1⟩ => hout ⟨r', List.mem_cons_of_mem _ hr', h1⟩), hw]
      have : ¬ (s' ≤ q ∧ q < e') := fun hh => hout ⟨(s', e'), List.mem_cons_self, hh⟩
      simp only [this, ↓reduceIte]
    · rcases List.mem_cons.mp hm with heq | hm'
      · cases heq
        rw [iho, hw]
        · simp only [h1, h2, and_self, ↓reduceIte]
        · rintro ⟨r', hr', h3, h4⟩
          have := hdisj.1 r' hr'
          simp only at this
          omega
      · exact ihi s e hm' h1 h2

/-- **The markers a replay leaves are clean.**  On the replayed image, under the masked labelling, every
marker is complete: the replay's own (written whole, counting down to the end of their run) and the old
ones outside the runs, provided those were complete before and no old marker span is cut by a run. -/
theorem marksClean_replayed {lo total : Nat} (h64 : total < 2 ^ 64) (runs : List (Nat × Nat)) (img0 img imgF : Image) (d0 : Disk)
    (hb : ∀ r ∈ runs, r.1 < r.2 ∧ lo ≤ r.1 ∧ r.2 ≤ total) (htot : total ≤ img.size)
    (hdisj : runs.Pairwise (fun a b => a.2 ≤ b.1 ∨ b.2 ≤ a.1))
    (hagree : ∀ p, lo ≤ p → ¬ inRuns runs p → blockAt img p = blockAt img0 p)
    (hclean0 : ∀ p r, lo ≤ p → p < total → ¬ inRuns runs p → d0 p = .mark r →
      rd (slice (blockAt img0 p) 18 1) = RETIREMENT_COMPLETE ∧ (r > 1 → tailsComplete img0 p r = true))
    (hspan : ∀ p r, lo ≤ p → p < total → ¬ inRuns runs p → d0 p = .mark r → ∀ q, p ≤ q → q < p + r → ¬ inRuns runs q)
    (hF : ∀ q, lo ≤ q → blockAt imgF q = blockAt (replayWrites img runs) q) :
    MarksClean imgF lo total (maskRuns d0 runs) := by
  have hbw : ∀ r ∈ runs, r.1 ≤ r.2 ∧ r.2 ≤ img.size := fun r hr => by
    obtain ⟨a, _, c⟩ := hb r hr; exact ⟨by omega, by omega⟩
  intro p r hlo hp hlab
  by_cases hin : inRuns runs p
  · obtain ⟨⟨s, e⟩, hm, h1, h2⟩ := hin
    simp only at h1 h2
    rw [maskRuns_in runs hdisj d0 s e p hm h1 h2] at hlab
    injection hlab with hr
    have he : e ≤ total := (hb _ hm).2.2
    have hblk : ∀ q, s ≤ q → q < e → blockAt imgF q = markerBlock q (e - q) RETIREMENT_COMPLETE := by
      intro q hq1 hq2
      rw [hF q (by have := (hb _ hm).2.1; simp only at this; omega)]
      exact (blockAt_replayWrites runs img hbw hdisj q).2 s e hm hq1 hq2
    have hcm : ∀ q, s ≤ q → q < e → isCompleteMarker (blockAt imgF q) q (e - q) = true := by
      intro q hq1 hq2
      rw [hblk q hq1 hq2]
      exact (C10.marker_roundtrip q (e - q) (by omega)).1
    refine ⟨?_, fun hr1 => ?_⟩
    · have := hcm p h1 h2
      unfold isCompleteMarker at this
      simp only [Bool.and_eq_true, decide_eq_true_eq, beq_iff_eq] at this
      exact this.1.2
    · unfold tailsComplete
      rw [List.all_eq_true]
      intro i hi
      rw [List.mem_range] at hi
      have := hcm (p + 1 + i) (by omega) (by omega)
      have e2 : e - (p + 1 + i) = r - (1 + i) := by omega
      rw [e2] at this
      exact this
  · rw [maskRuns_out runs d0 p hin] at hlab
    obtain ⟨c1, c2⟩ := hclean0 p r hlo hp hin hlab
    have hsame : ∀ q, p ≤ q → q < p + r → blockAt imgF q = blockAt img0 q := by
      intro q hq1 hq2
      have hout := hspan p r hlo hp hin hlab q hq1 hq2
      rw [hF q (by omega), (blockAt_replayWrites runs img hbw hdisj q).1 hout, hagree q (by omega) hout]
    refine ⟨?_, fun hr1 => ?_⟩
    · rw [hF p hlo, (blockAt_replayWrites runs img hbw hdisj p).1 hin, hagree p hlo hin]
      exact c1
    · have := c2 hr1
      unfold tailsComplete at this ⊢
      rw [List.all_eq_true] at this ⊢
      intro i hi
      have hi' := List.mem_range.mp hi
      rw [hsame (p + 1 + i) (by omega) (by omega)]
      exact this i hi


/-- on the data area the writes `replayIo` issues leave what `replayWrites` leaves -/
theorem replayIo_blocks {p p1 : JPos} {extents co : List (Nat × Nat)} {io1 : List IoEv} (img : Image)
    (hne : extents.isEmpty = false) (hco : coalesceExtents extents = some co) (hio : replayIo p extents = .ok (io1, p1))
    (hin : ∀ r ∈ co, r.1 + r.2 ≤ img.size) :
    ∀ q, FEOX_DATA_START_BLOCK ≤ q → blockAt (applyIo img io1) q = blockAt (replayWrites img (co.map toRun)) q := by
  obtain ⟨js, bs, hshape, hbelow, _⟩ := replayIo_shape hne hco hio
  intro q hq
  rw [hshape, retireUnjournaled, applyIo_append, applyIo_append]
  simp only [applyIo]
  rw [blockAt_writeBlocks_out _ js bs q (by omega)]
  exact blockAt_retireAll co img img (fun _ => rfl) rfl hin q

/-- **Opening a crashed device, from the state before the crash.**  As `recover_crashed_image`, with the
marker hypothesis discharged: it is enough that the markers of the *old* disk outside the journalled runs
were complete on the old image and that no old marker span reaches into a run. -/
theorem recover_crashed_device (img0 img : Image) (size : Nat) (o : Opts) (info : Gen → RecMeta) (d0 : Disk) (L : List Rec)
    (md : Meta) (js : JournalState) (co : List (Nat × Nat)) (io1 : List IoEv) (p1 : JPos)
    (hro : o.readOnly = false)
    (hsize : validDeviceSize size = true) (himg : img.size * BSZ = size) (hnz : imageAllZero img = false)
    (hsig : slice (selectMeta (blockAt img FEOX_METADATA_BLOCK) (blockAt img FEOX_METADATA_BACKUP_BLOCK)) 0 FEOX_SIGNATURE_SIZE = FEOX_SIGNATURE)
    (hmd : Meta.decode (selectMeta (blockAt img FEOX_METADATA_BLOCK) (blockAt img FEOX_METADATA_BACKUP_BLOCK)) = some md)
    (hjs : decodeJournal ((List.range ALLOCATION_JOURNAL_BLOCKS).flatMap fun i => blockAt img (ALLOCATION_JOURNAL_START_BLOCK + i)) (size / BSZ) = .ok js)
    (hne : js.extents.isEmpty = false) (hco : coalesceExtents js.extents = some co)
    (hio : replayIo ⟨js.generation, js.slot⟩ js.extents = .ok (io1, p1))
    (hrep : Rep img0 md.version FEOX_DATA_START_BLOCK (size / BSZ) info d0) (ht : TiledBy d0 (size / BSZ) L FEOX_DATA_START_BLOCK)
    (htot0 : size / BSZ ≤ img0.size)
    (hruns : ∀ r ∈ co, 0 < r.2 ∧ FEOX_DATA_START_BLOCK ≤ r.1 ∧ r.1 + r.2 ≤ size / BSZ ∧ Aligned L r.1 (r.1 + r.2))
    (hdisj : co.Pairwise (fun a b => a.1 + a.2 ≤ b.1 ∨ b.1 + b.2 ≤ a.1))
    (hagree : ∀ q, FEOX_DATA_START_BLOCK ≤ q → ¬ inRuns (co.map toRun) q → blockAt img q = blockAt img0 q)
    (hclean0 : ∀ p r, FEOX_DATA_START_BLOCK ≤ p → p < size / BSZ → ¬ inRuns (co.map toRun) p → d0 p = .mark r →
      rd (slice (blockAt img0 p) 18 1) = RETIREMENT_COMPLETE ∧ (r > 1 → tailsComplete img0 p r = true))
    (hspan : ∀ p r, FEOX_DATA_START_BLOCK ≤ p → p < size / BSZ → ¬ inRuns (co.map toRun) p → d0 p = .mark r →
      ∀ q, p ≤ q → q < p + r → ¬ inRuns (co.map toRun) q)
    (hnd : ((filterRuns L (co.map toRun)).map (fun r => (info r.2.1).key)).Nodup)
    (hexp : o.ttlOn = true → ∀ l ∈ (filterRuns L (co.map toRun)).foldl (fun lv r => absorbLive lv (liveOf info r)) [],
      (decide (l.expiry > 0) && decide (o.now > l.expiry)) = false) :
    ∃ r, (recoverImage img size o).result = .ok r ∧ (recoverImage img size o).io = io1 ∧ r.image = applyIo img io1 ∧
      r.version = md.version ∧
      r.live = (filterRuns L (co.map toRun)).foldl (fun lv r => absorbLive lv (liveOf info r)) [] := by
  have hBSZ : BSZ = 4096 := rfl
  have hvs := hsize
  unfold validDeviceSize at hvs
  simp only [Bool.not_eq_true', Bool.or_eq_false_iff, decide_eq_false_iff_not, bne_eq_false_iff_eq] at hvs
  obtain ⟨⟨h1, h2⟩, h3⟩ := hvs
  have hMAX : MAX_DEVICE_SIZE < 2 ^ 64 := by decide
  have h64 : size / BSZ < 2 ^ 64 := by
    have : size / BSZ ≤ size := Nat.div_le_self _ _
    omega
  have htot : size / BSZ ≤ img.size := by
    rw [← himg, hBSZ]; simp
  refine recover_crashed_image img0 img size o info d0 L md js co io1 p1 hro hsize himg hnz hsig hmd hjs hne hco hio
    hrep ht htot0 hruns hdisj hagree ?_ hnd hexp
  apply marksClean_replayed h64 (co.map toRun) img0 img (applyIo img io1) d0 ?_ htot ?_ hagree hclean0 hspan
    (replayIo_blocks img hne hco hio (fun r hr => by have := (hruns r hr).2.2.1; omega))
  · intro r hr
    obtain ⟨e, he, rfl⟩ := List.mem_map.mp hr
    obtain ⟨a, b, c, _⟩ := hruns e he
    exact ⟨by simp only [toRun]; omega, b, c⟩
  · rw [List.pairwise_map]
    exact hdisj.imp (fun h => by simpa [toRun] using h)

end Feox.Fmt
