import Feox.Fmt.Expiry
/-!
# Fmt.Newest — per key, the table the scan ends with shows a newest generation of the tiling

`scan_rep_tiled` describes the scan's table as a fold (`absorbLive`) over the tiling's records.  Read
key by key that fold is "keep the entry unless the next generation of this key is at least as new"
(`findLive_fold`), so what a key shows at the end is one of its generations on the device with the
greatest timestamp (`winner_newest`) — the documented newest-timestamp-wins rule, and the reason an
older generation can never surface while a newer one is on the device.
-/
namespace Feox.Fmt
open Feox.Gen Feox.Proto

/-- what one scanned generation does to the entry shown for key `k` -/
def winnerStep (k : Bytes) (w : Option Live) (x : Live) : Option Live :=
  if x.key = k then
    match w with
    | some ex => if ex.ts > x.ts then some ex else some x
    | none => some x
  else w

theorem findLive_absorb (live : List Live) (x : Live) (k : Bytes) :
    findLive k (absorbLive live x) = winnerStep k (findLive k live) x := by
  unfold winnerStep
  by_cases hk : x.key = k
  · subst hk
    simp only [↓reduceIte]
    unfold absorbLive
    cases hex : findLive x.key live with
    | none => simp only []; exact findLive_insertLive_same x live
    | some ex =>
      simp only []
      split
      · exact hex
      · exact findLive_insertLive_same x live
  · simp only [hk, ↓reduceIte]
    exact findLive_absorb_other live x k (fun e => hk e.symm)

theorem findLive_fold (k : Bytes) (ls : List Live) : ∀ live : List Live,
    findLive k (ls.foldl absorbLive live) = ls.foldl (winnerStep k) (findLive k live) := by
  induction ls with
  | nil => intro live; rfl
  | cons x xs ih => intro live; simp only [List.foldl_cons]; rw [ih, findLive_absorb]

/-- the per-key fold ends with an entry that is at least as new as where it started and as every
generation of the key it met, and that is the start entry or one of those generations -/
theorem winner_fold (k : Bytes) (ls : List Live) : ∀ w0 : Option Live,
    match ls.foldl (winnerStep k) w0 with
    | none => w0 = none ∧ ∀ x ∈ ls, x.key ≠ k
    | some w => (w0 = some w ∨ (w ∈ ls ∧ w.key = k)) ∧ (∀ e, w0 = some e → e.ts ≤ w.ts) ∧ ∀ x ∈ ls, x.key = k → x.ts ≤ w.ts := by
  induction ls with
  | nil =>
    intro w0
    cases w0 with
    | none => simp
    | some e => simp
  | cons x xs ih =>
    intro w0
    simp only [List.foldl_cons]
    have h := ih (winnerStep k w0 x)
    cases hres : xs.foldl (winnerStep k) (winnerStep k w0 x) with
    | none =>
      rw [hres] at h
      simp only at h ⊢
      obtain ⟨h1, h2⟩ := h
      unfold winnerStep at h1
      by_cases hk : x.key = k
      · simp only [hk, ↓reduceIte] at h1
        cases w0 with
        | none => simp at h1
        | some e => simp only at h1; split at h1 <;> cases h1
      · simp only [hk, ↓reduceIte] at h1
        refine ⟨h1, fun y hy => ?_⟩
        rcases List.mem_cons.mp hy with rfl | hy'
        · exact hk
        · exact h2 y hy'
    | some w =>
      rw [hres] at h
      simp only at h ⊢
      obtain ⟨h1, h2, h3⟩ := h
      unfold winnerStep at h1 h2
      by_cases hk : x.key = k
      · simp only [hk, ↓reduceIte] at h1 h2
        cases w0 with
        | none =>
          simp only at h1 h2
          have hx := h2 x rfl
          refine ⟨?_, fun e he => (by cases he), fun y hy hyk => ?_⟩
          · rcases h1 with h1 | h1
            · right; cases h1; exact ⟨List.mem_cons_self, hk⟩
            · right; exact ⟨List.mem_cons_of_mem _ h1.1, h1.2⟩
          · rcases List.mem_cons.mp hy with rfl | hy'
            · exact hx
            · exact h3 y hy' hyk
        | some e =>
          simp only at h1 h2
          by_cases hnew : e.ts > x.ts
          · simp only [hnew, ↓reduceIte] at h1 h2
            have he := h2 e rfl
            refine ⟨?_, fun e' he' => (by cases he'; exact he), fun y hy hyk => ?_⟩
            · rcases h1 with h1 | h1
              · left; exact h1
              · right; exact ⟨List.mem_cons_of_mem _ h1.1, h1.2⟩
            · rcases List.mem_cons.mp hy with rfl | hy'
              · omega
              · exact h3 y hy' hyk
          · simp only [hnew, ↓reduceIte] at h1 h2
            have hx := h2 x rfl
            refine ⟨?_, fun e' he' => (by cases he'; omega), fun y hy hyk => ?_⟩
            · rcases h1 with h1 | h1
              · right; cases h1; exact ⟨List.mem_cons_self, hk⟩
              · right; exact ⟨List.mem_cons_of_mem _ h1.1, h1.2⟩
            · rcases List.mem_cons.mp hy with rfl | hy'
              · exact hx
              · exact h3 y hy' hyk
      · simp only [hk, ↓reduceIte] at h1 h2
        refine ⟨?_, h2, fun y hy hyk => ?_⟩
        · rcases h1 with h1 | h1
          · left; exact h1
          · right; exact ⟨List.mem_cons_of_mem _ h1.1, h1.2⟩
        · rcases List.mem_cons.mp hy with rfl | hy'
          · exact absurd hyk hk
          · exact h3 y hy' hyk

/-- **Newest timestamp wins, per key**: from an empty table, what the fold shows for `k` is one of the
generations of `k` in the list, with a timestamp no smaller than any other generation of `k`; and it
shows nothing only if the list has no generation of `k`. -/
theorem winner_newest (k : Bytes) (ls : List Live) :
    match findLive k (ls.foldl absorbLive []) with
    | none => ∀ x ∈ ls, x.key ≠ k
    | some w => w ∈ ls ∧ w.key = k ∧ ∀ x ∈ ls, x.key = k → x.ts ≤ w.ts := by
  rw [findLive_fold]
  have h := winner_fold k ls (findLive k [])
  have h0 : findLive k ([] : List Live) = none := by simp [findLive]
  rw [h0] at h ⊢
  cases hres : ls.foldl (winnerStep k) none with
  | none => rw [hres] at h; exact h.2
  | some w =>
    rw [hres] at h
    simp only at h ⊢
    obtain ⟨h1, _, h3⟩ := h
    rcases h1 with h1 | h1
    · cases h1
    · exact ⟨h1.1, h1.2, h3⟩

end Feox.Fmt
