import Feox.Fmt.Bytes
/-!
# Fmt — the documented device layout, written from the layout (shares no code with the crate)

Record extents (v1 / v2 / v3), retirement markers, allocation-journal slots, metadata
blocks.  All numbers come from `Feox.Gen` (regenerated from the Rust constants each run).
-/
namespace Feox.Fmt
open Feox.Gen

abbrev BSZ : Nat := FEOX_BLOCK_SIZE

/-! ## records -/

/-- what a record head carries -/
structure RecMeta where
  key      : Bytes
  valueLen : Nat
  ts       : Nat
  expiry   : Nat
  deriving Repr, DecidableEq, Inhabited

/-- format v1 has no TTL field; v2 and v3 (and anything else, as `get_format`) have it -/
def hasTtl (v : Nat) : Bool := v != 1

/-- `record_header_size` (includes the 4-byte sector header) -/
def headerSize (v : Nat) (keyLen : Nat) : Nat :=
  SECTOR_HEADER_SIZE + 2 + keyLen + 8 + 8 + (if hasTtl v then 8 else 0)

/-- `total_size` -/
def totalSize (v keyLen valueLen : Nat) : Nat := headerSize v keyLen + valueLen

def divCeil (a b : Nat) : Nat := (a + b - 1) / b

/-- blocks of the extent holding a record -/
def extentBlocks (v keyLen valueLen : Nat) : Nat := divCeil (totalSize v keyLen valueLen) BSZ

/-- `serialize_record_into(record, false, ..)`: everything after the sector header and before
the value.  The key length is stored as `u16` (`as u16` truncates). -/
def serializeHead (v : Nat) (m : RecMeta) : Bytes :=
  le 2 (m.key.length % 65536) ++ m.key ++ le 8 m.valueLen ++ le 8 m.ts ++
    (if hasTtl v then le 8 m.expiry else [])

/-- `header_range(format, data).is_some()` -/
def headerOk (v : Nat) (data : Bytes) : Bool :=
  if data.length < SECTOR_HEADER_SIZE + 2 then false
  else
    let keyLen := rd (slice data SECTOR_HEADER_SIZE 2)
    if keyLen == 0 then false
    else
      let e := headerSize v keyLen
      !(e > BSZ || e > data.length)

/-- `stamp_seq_token` -/
def stamp (v : Nat) (data : Bytes) (sector : Nat) : Bytes :=
  if headerOk v data then patch data 2 (tokenBytes (recordSeqToken sector data)) else data

/-- `serialize_record_data` followed (v3) by `stamp_seq_token`: the bytes of a record extent
at `sector` -/
def encodeExtent (v : Nat) (sector : Nat) (m : RecMeta) (value : Bytes) : Bytes :=
  let raw := le 2 SECTOR_MARKER ++ [0, 0] ++ serializeHead v m ++ value
  let padded := raw ++ zeros (extentBlocks v m.key.length m.valueLen * BSZ - raw.length)
  if v ≥ SEQ_TOKEN_MIN_VERSION then stamp v padded sector else padded

/-- `parse_record` (both formats); `none` where the Rust returns `None` -/
def parseRecord (v : Nat) (data : Bytes) : Option RecMeta :=
  if data.length < SECTOR_HEADER_SIZE + 2 then none
  else
    let keyLen := rd (slice data SECTOR_HEADER_SIZE 2)
    let off := SECTOR_HEADER_SIZE + 2
    let tail := if hasTtl v then 24 else 16
    if off + keyLen + tail > data.length then none
    else
      some {
        key := slice data off keyLen
        valueLen := rd (slice data (off + keyLen) 8)
        ts := rd (slice data (off + keyLen + 8) 8)
        expiry := if hasTtl v then rd (slice data (off + keyLen + 16) 8) else 0 }

/-- `value_offset` -/
def valueOffset (v keyLen : Nat) : Nat := headerSize v keyLen

/-- `sector_holds_record(data, record)` -/
def sectorHoldsRecord (data : Bytes) (key : Bytes) (valueLen ts : Nat) : Bool :=
  if data.length < SECTOR_HEADER_SIZE + 2 then false
  else if rd (slice data 0 2) != SECTOR_MARKER then false
  else
    let keyLen := rd (slice data SECTOR_HEADER_SIZE 2)
    if keyLen != key.length then false
    else
      let keyAt := SECTOR_HEADER_SIZE + 2
      let vlAt := keyAt + keyLen
      if vlAt + 16 > data.length then false
      else if slice data keyAt keyLen != key then false
      else if rd (slice data vlAt 8) != valueLen then false
      else rd (slice data (vlAt + 8) 8) == ts

/-! ## retirement markers -/

/-- `retirement_marker_token(sector, marker)`: bytes 0..16 and the state byte 18 -/
def markerToken (sector : Nat) (marker : Bytes) : UInt16 :=
  seqToken sector (slice marker 0 16 ++ slice marker 18 1)

/-- `write_retirement_marker`: tag(8) | remaining(8) | token(2) | state(1) -/
def encodeMarker (sector remaining state : Nat) : Bytes :=
  let pre := DELETION_MARKER ++ le 8 remaining
  let tok := seqToken sector (pre ++ [UInt8.ofNat state])
  pre ++ tokenBytes tok ++ [UInt8.ofNat state]

/-- one whole retired block: marker then zeros (the scratch buffer is zero outside markers) -/
def markerBlock (sector remaining state : Nat) : Bytes :=
  encodeMarker sector remaining state ++ zeros (BSZ - DELETION_MARKER_SIZE)

/-- `fill_retirement_markers` over `blocks` blocks starting at `sector`, counting down from
`remaining` -/
def markerBlocks (sector remaining : Nat) : Nat → List Bytes
  | 0 => []
  | n + 1 => markerBlock sector remaining RETIREMENT_COMPLETE :: markerBlocks (sector + 1) (remaining - 1) n

def isMarkerTag (data : Bytes) : Bool := data.length ≥ 8 && slice data 0 8 == DELETION_MARKER

/-- `is_complete_retirement_block` -/
def isCompleteMarker (data : Bytes) (sector remaining : Nat) : Bool :=
  data.length ≥ DELETION_MARKER_SIZE && slice data 0 8 == DELETION_MARKER &&
  rd (slice data 8 8) == remaining && rd (slice data 18 1) == RETIREMENT_COMPLETE &&
  rd (slice data 16 2) == (markerToken sector data).toNat

/-! ## allocation journal -/

def journalImageSize (count : Nat) : Nat :=
  divCeil (JOURNAL_HEADER_SIZE + count * JOURNAL_ENTRY_SIZE) BSZ * BSZ

/-- `journal_checksum`: the checksum field (12..16) and its complement (32..36) count as zero -/
def journalChecksum (data : Bytes) : UInt32 :=
  crc32c (crc32c (crc32c (crc32c (crc32c 0 (slice data 0 12)) (zeros 4)) (slice data 16 16)) (zeros 4))
    (data.drop 36)

def u32not (x : Nat) : Nat := 4294967295 - x % 4294967296

def stampJournal (data : Bytes) : Bytes :=
  let c := (journalChecksum data).toNat
  patch (patch data 12 (le 4 c)) 32 (le 4 (u32not c))

/-- `journal_header` + entries, before the checksum -/
def journalBody (gen state : Nat) (extents : List (Nat × Nat)) : Bytes :=
  let head := JOURNAL_MAGIC ++ le 4 JOURNAL_VERSION ++ zeros 4 ++ le 8 gen ++ le 4 state ++
    le 4 extents.length ++ zeros 8
  let entries := extents.flatMap (fun e => le 4 e.1 ++ le 4 e.2)
  let raw := head ++ entries
  raw ++ zeros (journalImageSize extents.length - raw.length)

inductive JErr | InvalidArgument | Corrupted
  deriving Repr, DecidableEq

/-- `encode_active` -/
def encodeActive (gen : Nat) (extents : List (Nat × Nat)) : Except JErr Bytes :=
  if gen == 0 || extents.isEmpty || extents.length > ALLOCATION_JOURNAL_MAX_ENTRIES then
    .error .InvalidArgument
  else if extents.any (fun e => e.1 ≥ 2 ^ 32 || e.2 ≥ 2 ^ 32 || e.1 < FEOX_DATA_START_BLOCK || e.2 == 0) then
    .error .InvalidArgument
  else .ok (stampJournal (journalBody gen JOURNAL_ACTIVE extents))

/-- `encode_clear` -/
def encodeClear (gen : Nat) : Except JErr Bytes :=
  if gen == 0 then .error .InvalidArgument
  else .ok (stampJournal (journalBody gen JOURNAL_CLEAR []))

structure JournalState where
  generation : Nat
  slot : Nat
  extents : List (Nat × Nat)
  deriving Repr, DecidableEq, Inhabited

def readEntries (data : Bytes) (count : Nat) : List (Nat × Nat) :=
  (List.range count).map fun i =>
    let off := JOURNAL_HEADER_SIZE + i * JOURNAL_ENTRY_SIZE
    (rd (slice data off 4), rd (slice data (off + 4) 4))

def insertSorted (e : Nat × Nat) : List (Nat × Nat) → List (Nat × Nat)
  | [] => [e]
  | x :: xs => if e.1 < x.1 then e :: x :: xs else x :: insertSorted e xs

def sortByStart (es : List (Nat × Nat)) : List (Nat × Nat) := es.foldr insertSorted []

def overlapping : List (Nat × Nat) → Bool
  | a :: b :: rest => a.1 + a.2 > b.1 || overlapping (b :: rest)
  | _ => false

/-- outcome of decoding one slot: a state, "not a valid slot", or the place where the Rust
would index out of range -/
inductive SlotRes
  | ok (s : JournalState)
  | invalid
  | panic (why : String)
  deriving Repr, DecidableEq

/-- `decode_slot` on one 3-block slot.  The Rust slices `data[..checksum_len]` and the entry
table without a bounds check of their own; those are checked slices here. -/
def decodeSlot (data : Bytes) (total : Nat) (slot : Nat) : SlotRes :=
  if data.length < JOURNAL_HEADER_SIZE then .panic "slot shorter than its header"
  else if slice data 0 8 != JOURNAL_MAGIC then .invalid
  else
    let version := rd (slice data 8 4)
    if version != FULL_SLOT_CHECKSUM_VERSION && version != JOURNAL_VERSION then .invalid
    else
      let gen := rd (slice data 16 8)
      let state := rd (slice data 24 4)
      let count := rd (slice data 28 4)
      if gen == 0 || count > ALLOCATION_JOURNAL_MAX_ENTRIES
          || (state != JOURNAL_CLEAR && state != JOURNAL_ACTIVE)
          || (state == JOURNAL_CLEAR && count != 0) || (state == JOURNAL_ACTIVE && count == 0) then .invalid
      else
        let clen := if version == FULL_SLOT_CHECKSUM_VERSION then JOURNAL_SLOT_SIZE else journalImageSize count
        let checksum := rd (slice data 12 4)
        let complement := rd (slice data 32 4)
        if complement != u32not checksum then .invalid
        else match slice? data 0 clen with
          | none => .panic "checksum range past the slot"
          | some covered =>
            if (journalChecksum covered).toNat != checksum then .invalid
            else if JOURNAL_HEADER_SIZE + count * JOURNAL_ENTRY_SIZE > data.length then .panic "entry table past the slot"
            else
              let extents := readEntries data count
              if extents.any (fun e => e.1 + e.2 > total || e.1 < FEOX_DATA_START_BLOCK || e.2 == 0) then .invalid
              else if overlapping (sortByStart extents) then .invalid
              else .ok { generation := gen, slot := slot, extents := extents }

def SlotRes.toOption : SlotRes → Option JournalState
  | .ok s => some s
  | _ => none

def SlotRes.isPanic : SlotRes → Bool
  | .panic _ => true
  | _ => false

inductive JErr' | Corrupted | panic (why : String)
  deriving Repr, DecidableEq

/-- `decode` on the 6 journal blocks: the valid slot with the greatest generation (the later
slot on ties, as `max_by_key`); else an all-zero slot (the later one) as generation 0; else
corrupted. -/
def decodeJournal (data : Bytes) (total : Nat) : Except JErr' JournalState :=
  if data.length != ALLOCATION_JOURNAL_BLOCKS * BSZ then .error .Corrupted
  else
    let s0 := slice data 0 JOURNAL_SLOT_SIZE
    let s1 := slice data JOURNAL_SLOT_SIZE JOURNAL_SLOT_SIZE
    let z0 := allZero s0
    let z1 := allZero s1
    let r0 := if z0 then SlotRes.invalid else decodeSlot s0 total 0
    let r1 := if z1 then SlotRes.invalid else decodeSlot s1 total 1
    match r0, r1 with
    | .panic w, _ => .error (.panic w)
    | _, .panic w => .error (.panic w)
    | .ok a, .ok b => .ok (if b.generation ≥ a.generation then b else a)
    | .ok a, .invalid => .ok a
    | .invalid, .ok b => .ok b
    | .invalid, .invalid =>
      if z1 then .ok { generation := 0, slot := 1, extents := [] }
      else if z0 then .ok { generation := 0, slot := 0, extents := [] }
      else .error .Corrupted

/-- `coalesce_extents`: sort by start, merge exactly adjacent, reject zero length / overlap -/
def coalesceSorted : List (Nat × Nat) → Option (List (Nat × Nat))
  | [] => some []
  | [a] => if a.2 == 0 then none else some [a]
  | a :: b :: rest =>
    if a.2 == 0 then none
    else if b.1 < a.1 + a.2 then none
    else if b.1 == a.1 + a.2 then
      if b.2 == 0 then none else coalesceSorted ((a.1, a.2 + b.2) :: rest)
    else (coalesceSorted (b :: rest)).map (a :: ·)
termination_by l => l.length

def coalesceExtents (es : List (Nat × Nat)) : Option (List (Nat × Nat)) :=
  coalesceSorted (sortByStart es)

/-! ## metadata -/

structure Meta where
  signature : Bytes
  version : Nat
  totalRecords : Nat
  totalSize : Nat
  deviceSize : Nat
  blockSize : Nat
  fragmentation : Nat
  creationTime : Nat
  lastUpdate : Nat
  reserved : Bytes            -- RESERVED_SIZE bytes: "FM3C" | crc(4) | ~crc(4) | generation(8) | …
  deriving Repr, DecidableEq, Inhabited

def Meta.fields (m : Meta) : Bytes :=
  m.signature ++ le 4 m.version ++ le 8 m.totalRecords ++ le 8 m.totalSize ++ le 8 m.deviceSize ++
    le 4 m.blockSize ++ le 4 m.fragmentation ++ le 8 m.creationTime ++ le 8 m.lastUpdate

/-- `Metadata::checksum` -/
def Meta.checksum (m : Meta) : UInt32 :=
  crc32c 0 (m.fields ++ m.reserved.drop CHECKSUM_DATA_OFFSET)

/-- `refresh_checksum` -/
def Meta.refresh (m : Meta) : Meta :=
  let r1 := patch m.reserved 0 CHECKSUM_MAGIC
  let m1 := { m with reserved := r1 }
  let c := m1.checksum.toNat
  { m1 with reserved := patch (patch r1 CHECKSUM_OFFSET (le 4 c)) CHECKSUM_COMPLEMENT_OFFSET (le 4 (u32not c)) }

def Meta.generation (m : Meta) : Nat := rd (slice m.reserved GENERATION_OFFSET 8)

/-- `advance_generation` (the `checked_add` failure is outside the model's range of interest
and reported as `none`) -/
def Meta.advance (m : Meta) : Option Meta :=
  if m.generation + 1 ≥ 2 ^ 64 then none
  else some ({ m with reserved := patch m.reserved GENERATION_OFFSET (le 8 (m.generation + 1)) }).refresh

/-- `encode`: 136 bytes — signature(8) version(4) pad(4) records(8) size(8) device(8)
block(4) frag(4) created(8) updated(8) reserved(68) -/
def Meta.encode (m : Meta) : Bytes :=
  m.signature ++ le 4 m.version ++ zeros 4 ++ le 8 m.totalRecords ++ le 8 m.totalSize ++
    le 8 m.deviceSize ++ le 4 m.blockSize ++ le 4 m.fragmentation ++ le 8 m.creationTime ++
    le 8 m.lastUpdate ++ m.reserved ++
    zeros (METADATA_ENCODED_SIZE - (RESERVED_OFFSET + RESERVED_SIZE))

def Meta.block (m : Meta) : Bytes := m.encode ++ zeros (BSZ - METADATA_ENCODED_SIZE)

/-- `validate` -/
def Meta.validate (m : Meta) : Bool :=
  if m.signature != FEOX_SIGNATURE then false
  else if m.blockSize != FEOX_BLOCK_SIZE then false
  else if m.version == 0 || m.version > METADATA_VERSION then false
  else if m.deviceSize == 0 || m.deviceSize > MAX_DEVICE_SIZE then false
  else
    let hasC := slice m.reserved 0 4 == CHECKSUM_MAGIC
    if m.version ≥ 3 && !hasC then false
    else if !hasC then true
    else
      let c := rd (slice m.reserved CHECKSUM_OFFSET 4)
      let cc := rd (slice m.reserved CHECKSUM_COMPLEMENT_OFFSET 4)
      cc == u32not c && c == m.checksum.toNat

/-- `from_bytes` -/
def Meta.decode (b : Bytes) : Option Meta :=
  if b.length < METADATA_ENCODED_SIZE then none
  else
    let m : Meta := {
      signature := slice b 0 FEOX_SIGNATURE_SIZE
      version := rd (slice b VERSION_OFFSET 4)
      totalRecords := rd (slice b TOTAL_RECORDS_OFFSET 8)
      totalSize := rd (slice b TOTAL_SIZE_OFFSET 8)
      deviceSize := rd (slice b DEVICE_SIZE_OFFSET 8)
      blockSize := rd (slice b BLOCK_SIZE_OFFSET 4)
      fragmentation := rd (slice b FRAGMENTATION_OFFSET 4)
      creationTime := rd (slice b CREATION_TIME_OFFSET 8)
      lastUpdate := rd (slice b LAST_UPDATE_TIME_OFFSET 8)
      reserved := slice b RESERVED_OFFSET RESERVED_SIZE }
    if m.validate then some m else none

/-- `read_metadata`: which of the two copies (block 0 / block 7) is used -/
def selectMeta (primary backup : Bytes) : Bytes :=
  match Meta.decode primary, Meta.decode backup with
  | some p, some b => if b.generation > p.generation then backup else primary
  | some _, none => primary
  | none, some _ => backup
  | none, none => primary

/-- where `write_store_metadata` puts generation `g` -/
def metaBlockFor (g : Nat) : Nat :=
  if g % 2 == 0 then FEOX_METADATA_BLOCK else FEOX_METADATA_BACKUP_BLOCK

end Feox.Fmt
