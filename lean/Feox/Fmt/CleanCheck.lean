import Feox.Fmt.Open
import Feox.Fmt.RepCheck
/-!
# Fmt.CleanCheck — deciding the hypotheses of `recover_clean_image` on a concrete file

`openCleanB img size lives` decides, for a device file and an index: valid size, a metadata copy that
decodes (with its signature), a journal that decodes to a clear one, the image represents the labelling
the index induces, that labelling is a tiling with one record per index entry, the records' keys are
pairwise different, every marker is complete.  `openCleanB_sound`: then `recoverImage` — the whole
open — returns `.ok`, writes nothing, leaves the image alone and shows newest-wins over the tiling.
Evaluated by the correspondence runs on every file the real store flushed and closed (`repfile`).
-/
namespace Feox.Fmt
open Feox.Gen Feox.Proto

def marksCleanB (img : Image) (lo total : Nat) (d : Disk) : Bool :=
  (List.range (total - lo)).all fun i =>
    match d (lo + i) with
    | .mark r => rd (slice (blockAt img (lo + i)) 18 1) == RETIREMENT_COMPLETE && (decide (r ≤ 1) || tailsComplete img (lo + i) r)
    | _ => true

theorem marksCleanB_sound {img : Image} {lo total : Nat} {d : Disk} (h : marksCleanB img lo total d = true) :
    MarksClean img lo total d := by
  intro p r h1 h2 hm
  unfold marksCleanB at h
  rw [List.all_eq_true] at h
  have := h (p - lo) (List.mem_range.mpr (by omega))
  have e : lo + (p - lo) = p := by omega
  rw [e, hm] at this
  simp only [Bool.and_eq_true, beq_iff_eq, Bool.or_eq_true, decide_eq_true_eq] at this
  refine ⟨this.1, fun hr => ?_⟩
  rcases this.2 with h3 | h3
  · omega
  · exact h3

def openCleanB (img : Image) (size : Nat) (lives : List Live) : Bool :=
  let total := size / BSZ
  let lo := FEOX_DATA_START_BLOCK
  let chosen := selectMeta (blockAt img FEOX_METADATA_BLOCK) (blockAt img FEOX_METADATA_BACKUP_BLOCK)
  validDeviceSize size && decide (img.size * BSZ = size) && !imageAllZero img &&
  decide (slice chosen 0 FEOX_SIGNATURE_SIZE = FEOX_SIGNATURE) &&
  match Meta.decode chosen with
  | none => false
  | some md =>
    match decodeJournal ((List.range ALLOCATION_JOURNAL_BLOCKS).flatMap fun i => blockAt img (ALLOCATION_JOURNAL_START_BLOCK + i)) total with
    | .ok js =>
      js.extents.isEmpty &&
      let d := labelOf img md.version lives
      repB img md.version lo total (infoOf lives) d && marksCleanB img lo total d &&
      match tileOf d total (total - lo + 1) lo with
      | some L => L.length == lives.length && decide ((L.map (fun r => (infoOf lives r.2.1).key)).Nodup)
      | none => false
    | .error _ => false

theorem getD_mem_or_default {α : Type} (l : List α) (i : Nat) (d : α) : l.getD i d ∈ l ∨ l.getD i d = d := by
  by_cases h : i < l.length
  · left
    rw [List.getD_eq_getElem?_getD, List.getElem?_eq_getElem h]
    exact List.getElem_mem h
  · right
    rw [List.getD_eq_getElem?_getD, List.getElem?_eq_none (by omega)]
    rfl

/-- **What a `true` of the run-time decision means for the whole open** (with TTL on: provided no index
entry has expired at the time of the open). -/
theorem openCleanB_sound {img : Image} {size : Nat} {lives : List Live} {o : Opts}
    (hro : o.readOnly = false)
    (hexp : o.ttlOn = true → ∀ l ∈ lives, (decide (l.expiry > 0) && decide (o.now > l.expiry)) = false)
    (h : openCleanB img size lives = true) :
    ∃ (r : Recovered) (L : List Rec), (recoverImage img size o).result = .ok r ∧ (recoverImage img size o).io = [] ∧ r.image = img ∧
      L.length = lives.length ∧ r.live = L.foldl (fun lv r => absorbLive lv (liveOf (infoOf lives) r)) [] := by
  unfold openCleanB at h
  simp only [Bool.and_eq_true, decide_eq_true_eq, Bool.not_eq_true'] at h
  obtain ⟨⟨⟨⟨hsize, himg⟩, hnz⟩, hsig⟩, hrest⟩ := h
  cases hmd : Meta.decode (selectMeta (blockAt img FEOX_METADATA_BLOCK) (blockAt img FEOX_METADATA_BACKUP_BLOCK)) with
  | none => rw [hmd] at hrest; cases hrest
  | some md =>
    rw [hmd] at hrest
    simp only at hrest
    cases hjs : decodeJournal ((List.range ALLOCATION_JOURNAL_BLOCKS).flatMap fun i => blockAt img (ALLOCATION_JOURNAL_START_BLOCK + i)) (size / BSZ) with
    | error e => rw [hjs] at hrest; cases hrest
    | ok js =>
      rw [hjs] at hrest
      simp only [Bool.and_eq_true, List.isEmpty_iff] at hrest
      obtain ⟨hclear, ⟨hrep, hmarks⟩, htile⟩ := hrest
      cases hL : tileOf (labelOf img md.version lives) (size / BSZ) (size / BSZ - FEOX_DATA_START_BLOCK + 1) FEOX_DATA_START_BLOCK with
      | none => rw [hL] at htile; cases htile
      | some L =>
        rw [hL] at htile
        simp only [Bool.and_eq_true, beq_iff_eq, decide_eq_true_eq] at htile
        obtain ⟨hlen, hnd⟩ := htile
        obtain ⟨r, h1, h2, h3, _, h5⟩ := recover_clean_image img size o (infoOf lives) (labelOf img md.version lives) L md js
          hro hsize himg hnz hsig hmd hjs hclear (repB_sound hrep) (tileOf_sound _ _ _ hL) (marksCleanB_sound hmarks) hnd
          (fun httl => no_expired_of_records (infoOf lives) o.now L (fun r _ => by
            rcases getD_mem_or_default lives r.2.1 default with hm | hd
            · exact hexp httl _ hm
            · simp only [infoOf, hd]; rfl))
        exact ⟨r, L, h1, h2, h3, hlen, h5⟩

end Feox.Fmt
