import Feox.Fmt.Coalesce
import Feox.Fmt.JournalOpen
/-!
# Fmt.JournalArea — from the bytes of the journal slots to the journal state the open starts from

The six journal blocks the open reads are the two slots (`journal_area_eq`); with `Fmt.JournalOpen` the
stamped record of the newest generation in either slot is what `decodeJournal` returns
(`open_reads_intent_slot0/1`).  `crashed_open_end_to_end_slot0/1` feed that into
`recover_crashed_device_journalled`: every hypothesis is now about bytes of the crashed image, about the
image before the crashed transaction, or about the extents the store journalled.
-/
namespace Feox.Fmt
open Feox.Gen Feox.Proto

/-- the bytes of journal slot `k` (three blocks) -/
def slotBytes (img : Image) (k : Nat) : Bytes :=
  blockAt img (journalSector k) ++ blockAt img (journalSector k + 1) ++ blockAt img (journalSector k + 2)

theorem journal_area_eq (img : Image) :
    ((List.range ALLOCATION_JOURNAL_BLOCKS).flatMap fun i => blockAt img (ALLOCATION_JOURNAL_START_BLOCK + i)) =
      slotBytes img 0 ++ slotBytes img 1 := by
  simp [slotBytes, journalSector, ALLOCATION_JOURNAL_BLOCKS, ALLOCATION_JOURNAL_START_BLOCK, ALLOCATION_JOURNAL_SLOT_BLOCKS,
    List.range, List.range.loop, List.flatMap, List.append_assoc]

/-- **The open reads the durable intent.**  Slot 1 of the image holds the stamped record of generation
`gen` with extents `exts` (whatever follows it in the slot), slot 0 a valid older record: the journal state
the open starts from is exactly (`gen`, slot 1, `exts`). -/
theorem open_reads_intent_slot1 (img : Image) (total gen state : Nat) (exts : List (Nat × Nat)) (tail : Bytes) (A : JournalState)
    (h0 : (slotBytes img 0).length = JOURNAL_SLOT_SIZE)
    (h1 : slotBytes img 1 = stampJournal (journalBody gen state exts) ++ tail)
    (h1l : (slotBytes img 1).length = JOURNAL_SLOT_SIZE)
    (hz0 : allZero (slotBytes img 0) = false) (hA : decodeSlot (slotBytes img 0) total 0 = .ok A)
    (hok : JournalOK gen state total exts) (hge : gen ≥ A.generation) :
    decodeJournal ((List.range ALLOCATION_JOURNAL_BLOCKS).flatMap fun i => blockAt img (ALLOCATION_JOURNAL_START_BLOCK + i)) total =
      .ok { generation := gen, slot := 1, extents := exts } := by
  rw [journal_area_eq, h1]
  exact decodeJournal_reads_newer_slot1 _ tail gen state total exts A h0 (by rw [← h1]; exact h1l) hz0 hA hok hge

theorem open_reads_intent_slot0 (img : Image) (total gen state : Nat) (exts : List (Nat × Nat)) (tail : Bytes) (B : JournalState)
    (h0 : slotBytes img 0 = stampJournal (journalBody gen state exts) ++ tail)
    (h0l : (slotBytes img 0).length = JOURNAL_SLOT_SIZE)
    (h1 : (slotBytes img 1).length = JOURNAL_SLOT_SIZE)
    (hz1 : allZero (slotBytes img 1) = false) (hB : decodeSlot (slotBytes img 1) total 1 = .ok B)
    (hok : JournalOK gen state total exts) (hgt : gen > B.generation) :
    decodeJournal ((List.range ALLOCATION_JOURNAL_BLOCKS).flatMap fun i => blockAt img (ALLOCATION_JOURNAL_START_BLOCK + i)) total =
      .ok { generation := gen, slot := 0, extents := exts } := by
  rw [journal_area_eq, h0]
  exact decodeJournal_reads_newer_slot0 _ tail gen state total exts B (by rw [← h0]; exact h0l) h1 hz1 hB hok hgt

/-- **A crash after the intent became durable, end to end (intent in slot 1).**  The crashed image holds
the stamped intent record (generation `gen`, extents `exts`) in journal slot 1 and a valid older record in
slot 0; `img0` represented the tiled disk `d0` when that intent became durable; outside the journalled
extents the data area is as it was.  Opening the crashed image succeeds, writes only the replay, and
shows the newest-wins table over exactly the records of `d0` outside the journalled blocks. -/
theorem crashed_open_end_to_end_slot1 (img0 img : Image) (size : Nat) (o : Opts) (info : Gen → RecMeta) (d0 : Disk) (L : List Rec)
    (md : Meta) (gen : Nat) (exts co : List (Nat × Nat)) (tail : Bytes) (A : JournalState)
    (h0 : (slotBytes img 0).length = JOURNAL_SLOT_SIZE)
    (h1 : slotBytes img 1 = stampJournal (journalBody gen JOURNAL_ACTIVE exts) ++ tail)
    (h1l : (slotBytes img 1).length = JOURNAL_SLOT_SIZE)
    (hz0 : allZero (slotBytes img 0) = false) (hA : decodeSlot (slotBytes img 0) (size / BSZ) 0 = .ok A)
    (hge : gen ≥ A.generation)
    (hro : o.readOnly = false)
    (hsize : validDeviceSize size = true) (himg : img.size * BSZ = size) (hnz : imageAllZero img = false)
    (hsig : slice (selectMeta (blockAt img FEOX_METADATA_BLOCK) (blockAt img FEOX_METADATA_BACKUP_BLOCK)) 0 FEOX_SIGNATURE_SIZE = FEOX_SIGNATURE)
    (hmd : Meta.decode (selectMeta (blockAt img FEOX_METADATA_BLOCK) (blockAt img FEOX_METADATA_BACKUP_BLOCK)) = some md)
    (hok : JournalOK gen JOURNAL_ACTIVE (size / BSZ) exts)
    (hne : exts.isEmpty = false) (hco : coalesceExtents exts = some co)
    (hrep : Rep img0 md.version FEOX_DATA_START_BLOCK (size / BSZ) info d0) (ht : TiledBy d0 (size / BSZ) L FEOX_DATA_START_BLOCK)
    (htot0 : size / BSZ ≤ img0.size)
    (hes : ∀ r ∈ exts, FEOX_DATA_START_BLOCK ≤ r.1 ∧ r.1 + r.2 ≤ size / BSZ ∧ Aligned L r.1 (r.1 + r.2))
    (hagree : ∀ q, FEOX_DATA_START_BLOCK ≤ q → ¬ inExt exts q → blockAt img q = blockAt img0 q)
    (hclean0 : ∀ p r, FEOX_DATA_START_BLOCK ≤ p → p < size / BSZ → ¬ inExt exts p → d0 p = .mark r →
      rd (slice (blockAt img0 p) 18 1) = RETIREMENT_COMPLETE ∧ (r > 1 → tailsComplete img0 p r = true))
    (hspan : ∀ p r, FEOX_DATA_START_BLOCK ≤ p → p < size / BSZ → ¬ inExt exts p → d0 p = .mark r →
      ∀ q, p ≤ q → q < p + r → ¬ inExt exts q)
    (hnd : ((filterRuns L (co.map toRun)).map (fun r => (info r.2.1).key)).Nodup)
    (hexp : o.ttlOn = true → ∀ l ∈ (filterRuns L (co.map toRun)).foldl (fun lv r => absorbLive lv (liveOf info r)) [],
      (decide (l.expiry > 0) && decide (o.now > l.expiry)) = false) :
    ∃ r io1, (recoverImage img size o).result = .ok r ∧ (recoverImage img size o).io = io1 ∧ r.image = applyIo img io1 ∧
      r.version = md.version ∧
      r.live = (filterRuns L (co.map toRun)).foldl (fun lv r => absorbLive lv (liveOf info r)) [] := by
  have hjs := open_reads_intent_slot1 img (size / BSZ) gen JOURNAL_ACTIVE exts tail A h0 h1 h1l hz0 hA hok hge
  obtain ⟨r, io1, h1, h2, h3, _, h4, h5⟩ := recover_crashed_device_journalled img0 img size o info d0 L md _ co hro hsize himg hnz hsig hmd
    hjs hne hco hrep ht htot0 hes hagree hclean0 hspan hnd hexp
  exact ⟨r, io1, h1, h2, h3, h4, h5⟩

/-- the same with the intent in slot 0 and the older record in slot 1 -/
theorem crashed_open_end_to_end_slot0 (img0 img : Image) (size : Nat) (o : Opts) (info : Gen → RecMeta) (d0 : Disk) (L : List Rec)
    (md : Meta) (gen : Nat) (exts co : List (Nat × Nat)) (tail : Bytes) (B : JournalState)
    (h0 : slotBytes img 0 = stampJournal (journalBody gen JOURNAL_ACTIVE exts) ++ tail)
    (h0l : (slotBytes img 0).length = JOURNAL_SLOT_SIZE)
    (h1 : (slotBytes img 1).length = JOURNAL_SLOT_SIZE)
    (hz1 : allZero (slotBytes img 1) = false) (hB : decodeSlot (slotBytes img 1) (size / BSZ) 1 = .ok B)
    (hgt : gen > B.generation)
    (hro : o.readOnly = false)
    (hsize : validDeviceSize size = true) (himg : img.size * BSZ = size) (hnz : imageAllZero img = false)
    (hsig : slice (selectMeta (blockAt img FEOX_METADATA_BLOCK) (blockAt img FEOX_METADATA_BACKUP_BLOCK)) 0 FEOX_SIGNATURE_SIZE = FEOX_SIGNATURE)
    (hmd : Meta.decode (selectMeta (blockAt img FEOX_METADATA_BLOCK) (blockAt img FEOX_METADATA_BACKUP_BLOCK)) = some md)
    (hok : JournalOK gen JOURNAL_ACTIVE (size / BSZ) exts)
    (hne : exts.isEmpty = false) (hco : coalesceExtents exts = some co)
    (hrep : Rep img0 md.version FEOX_DATA_START_BLOCK (size / BSZ) info d0) (ht : TiledBy d0 (size / BSZ) L FEOX_DATA_START_BLOCK)
    (htot0 : size / BSZ ≤ img0.size)
    (hes : ∀ r ∈ exts, FEOX_DATA_START_BLOCK ≤ r.1 ∧ r.1 + r.2 ≤ size / BSZ ∧ Aligned L r.1 (r.1 + r.2))
    (hagree : ∀ q, FEOX_DATA_START_BLOCK ≤ q → ¬ inExt exts q → blockAt img q = blockAt img0 q)
    (hclean0 : ∀ p r, FEOX_DATA_START_BLOCK ≤ p → p < size / BSZ → ¬ inExt exts p → d0 p = .mark r →
      rd (slice (blockAt img0 p) 18 1) = RETIREMENT_COMPLETE ∧ (r > 1 → tailsComplete img0 p r = true))
    (hspan : ∀ p r, FEOX_DATA_START_BLOCK ≤ p → p < size / BSZ → ¬ inExt exts p → d0 p = .mark r →
      ∀ q, p ≤ q → q < p + r → ¬ inExt exts q)
    (hnd : ((filterRuns L (co.map toRun)).map (fun r => (info r.2.1).key)).Nodup)
    (hexp : o.ttlOn = true → ∀ l ∈ (filterRuns L (co.map toRun)).foldl (fun lv r => absorbLive lv (liveOf info r)) [],
      (decide (l.expiry > 0) && decide (o.now > l.expiry)) = false) :
    ∃ r io1, (recoverImage img size o).result = .ok r ∧ (recoverImage img size o).io = io1 ∧ r.image = applyIo img io1 ∧
      r.version = md.version ∧
      r.live = (filterRuns L (co.map toRun)).foldl (fun lv r => absorbLive lv (liveOf info r)) [] := by
  have hjs := open_reads_intent_slot0 img (size / BSZ) gen JOURNAL_ACTIVE exts tail B h0 h0l h1 hz1 hB hok hgt
  obtain ⟨r, io1, h1, h2, h3, _, h4, h5⟩ := recover_crashed_device_journalled img0 img size o info d0 L md _ co hro hsize himg hnz hsig hmd
    hjs hne hco hrep ht htot0 hes hagree hclean0 hspan hnd hexp
  exact ⟨r, io1, h1, h2, h3, h4, h5⟩

end Feox.Fmt
