import Feox.Fmt.Lemmas
namespace Feox.Fmt
open Feox.Gen

/-- field sizes of a metadata value that the 136-byte image can carry -/
structure Meta.Fits (m : Meta) : Prop where
  sig : m.signature.length = FEOX_SIGNATURE_SIZE
  version : m.version < 2 ^ 32
  totalRecords : m.totalRecords < 2 ^ 64
  totalSize : m.totalSize < 2 ^ 64
  deviceSize : m.deviceSize < 2 ^ 64
  blockSize : m.blockSize < 2 ^ 32
  fragmentation : m.fragmentation < 2 ^ 32
  creationTime : m.creationTime < 2 ^ 64
  lastUpdate : m.lastUpdate < 2 ^ 64
  reserved : m.reserved.length = RESERVED_SIZE

/-- the field extraction of `Metadata::from_bytes`, without the validation -/
def Meta.rawDecode (b : Bytes) : Meta :=
  { signature := slice b 0 FEOX_SIGNATURE_SIZE
    version := rd (slice b VERSION_OFFSET 4)
    totalRecords := rd (slice b TOTAL_RECORDS_OFFSET 8)
    totalSize := rd (slice b TOTAL_SIZE_OFFSET 8)
    deviceSize := rd (slice b DEVICE_SIZE_OFFSET 8)
    blockSize := rd (slice b BLOCK_SIZE_OFFSET 4)
    fragmentation := rd (slice b FRAGMENTATION_OFFSET 4)
    creationTime := rd (slice b CREATION_TIME_OFFSET 8)
    lastUpdate := rd (slice b LAST_UPDATE_TIME_OFFSET 8)
    reserved := slice b RESERVED_OFFSET RESERVED_SIZE }

theorem meta_encode_length (m : Meta) (h : m.Fits) : m.encode.length = METADATA_ENCODED_SIZE := by
  simp only [Meta.encode, List.length_append, le_length, zeros_length, h.sig, h.reserved]
  simp only [FEOX_SIGNATURE_SIZE, RESERVED_SIZE, METADATA_ENCODED_SIZE, RESERVED_OFFSET]

/-- the image as a list of its parts -/
def parts (m : Meta) : List Bytes :=
  [m.signature, le 4 m.version, zeros 4, le 8 m.totalRecords, le 8 m.totalSize, le 8 m.deviceSize, le 4 m.blockSize,
   le 4 m.fragmentation, le 8 m.creationTime, le 8 m.lastUpdate, m.reserved,
   zeros (METADATA_ENCODED_SIZE - (RESERVED_OFFSET + RESERVED_SIZE))]

theorem encode_eq_parts (m : Meta) : m.encode = (parts m).flatten := by
  simp [Meta.encode, parts, List.append_assoc]

/-- slicing the concatenation of parts at the offset of the `i`-th part gives that part -/
theorem slice_flatten : ∀ (ps : List Bytes) (i : Nat) (f : Bytes), ps[i]? = some f →
    slice ps.flatten ((ps.take i).map List.length).sum f.length = f := by
  intro ps
  induction ps with
  | nil => intro i f h; simp at h
  | cons p ps ih =>
    intro i f h
    cases i with
    | zero =>
      simp at h; subst h
      simp [slice]
    | succ i =>
      simp at h
      have := ih i f h
      simp only [List.take_succ_cons, List.map_cons, List.sum_cons, List.flatten_cons]
      unfold slice at this ⊢
      rw [List.drop_append]
      simp only [List.drop_eq_nil_of_le (Nat.le_add_right _ _), List.nil_append, Nat.add_sub_cancel_left]
      exact this

theorem meta_fields_roundtrip (m : Meta) (h : m.Fits) : Meta.rawDecode m.encode = m := by
  obtain ⟨h1, h2, h3, h4, h5, h6, h7, h8, h9, h10⟩ := h
  rw [encode_eq_parts]
  have sl : ∀ (i off n : Nat) (f : Bytes), (parts m)[i]? = some f → off = (((parts m).take i).map List.length).sum →
      n = f.length → slice (parts m).flatten off n = f := by
    intro i off n f hf ho hn; subst ho; subst hn; exact slice_flatten _ i f hf
  have f0 := sl 0 0 FEOX_SIGNATURE_SIZE m.signature rfl rfl h1.symm
  have f1 := sl 1 VERSION_OFFSET 4 (le 4 m.version) rfl (by simp [parts, h1]; rfl) (by simp)
  have f3 := sl 3 TOTAL_RECORDS_OFFSET 8 (le 8 m.totalRecords) rfl (by simp [parts, h1]; rfl) (by simp)
  have f4 := sl 4 TOTAL_SIZE_OFFSET 8 (le 8 m.totalSize) rfl (by simp [parts, h1]; rfl) (by simp)
  have f5 := sl 5 DEVICE_SIZE_OFFSET 8 (le 8 m.deviceSize) rfl (by simp [parts, h1]; rfl) (by simp)
  have f6 := sl 6 BLOCK_SIZE_OFFSET 4 (le 4 m.blockSize) rfl (by simp [parts, h1]; rfl) (by simp)
  have f7 := sl 7 FRAGMENTATION_OFFSET 4 (le 4 m.fragmentation) rfl (by simp [parts, h1]; rfl) (by simp)
  have f8 := sl 8 CREATION_TIME_OFFSET 8 (le 8 m.creationTime) rfl (by simp [parts, h1]; rfl) (by simp)
  have f9 := sl 9 LAST_UPDATE_TIME_OFFSET 8 (le 8 m.lastUpdate) rfl (by simp [parts, h1]; rfl) (by simp)
  have f10 := sl 10 RESERVED_OFFSET RESERVED_SIZE m.reserved rfl (by simp [parts, h1]; rfl) h10.symm
  cases m
  simp only [Meta.rawDecode] at *
  simp only [f0, f1, f3, f4, f5, f6, f7, f8, f9, f10]
  simp only [le4 _ h2, le8 _ h3, le8 _ h4, le8 _ h5, le4 _ h6, le4 _ h7, le8 _ h8, le8 _ h9]

end Feox.Fmt
