import Feox.Fmt.Commit
/-!
# Fmt.ReadBack — the value bytes of a written record are what a device read of its extent returns
-/
namespace Feox.Fmt
open Feox.Gen Feox.C10

/-- the bytes of the `n` blocks from `s` on (what `load_value_from_disk` reads for an extent) -/
def extentBytes (img : Image) (s n : Nat) : Bytes := (List.range n).flatMap fun i => blockAt img (s + i)

theorem extentBytes_of_holds {img : Image} {s n : Nat} {E : Bytes} (hh : HoldsExtent img s E n) (hE : E.length = n * BSZ) :
    extentBytes img s n = E := by
  unfold extentBytes
  have : (List.range n).flatMap (fun i => blockAt img (s + i)) = (List.range n).flatMap (fun i => (E.drop (i * BSZ)).take BSZ) := by
    rw [List.flatMap_def, List.flatMap_def]
    congr 1
    apply List.map_congr_left
    intro i hi
    exact hh i (List.mem_range.mp hi)
  rw [this]
  exact chunks_flatten BSZ (by decide) n E hE

/-- **Write → device read**: after the record writer's bytes for `(m, value)` are in the blocks of its
extent, the slice the read path takes from those blocks (`valueOffset`, `valueLen`) is exactly `value`,
and the identity check the read path applies to the head (`sectorHoldsRecord`) accepts it. -/
theorem written_value_is_read_back (img : Image) (v s : Nat) (m : RecMeta) (value : Bytes) (hw : WfRec v m value)
    (hh : HoldsExtent img s (encodeExtent v s m value) (extentBlocks v m.key.length m.valueLen)) :
    slice (extentBytes img s (extentBlocks v m.key.length m.valueLen)) (valueOffset v m.key.length) m.valueLen = value ∧
    sectorHoldsRecord (extentBytes img s (extentBlocks v m.key.length m.valueLen)) m.key m.valueLen m.ts = true := by
  obtain ⟨_, _, _, hElen, _, _, _⟩ := encodeExtent_shape v s m value hw
  rw [extentBytes_of_holds hh hElen]
  by_cases hv : v ≥ SEQ_TOKEN_MIN_VERSION
  · have := record_roundtrip_stamped v s m value hw hv
    exact ⟨this.2.2, this.2.1⟩
  · have := record_roundtrip_unstamped v s m value hw (by omega)
    exact ⟨this.2.2, this.2.1⟩

end Feox.Fmt
