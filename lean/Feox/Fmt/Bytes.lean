import Feox.Gen.Constants
/-! Byte-level basics: little-endian integers, slices, CRC-32C (Castagnoli), tokens. -/
namespace Feox.Fmt
open Feox.Gen

abbrev Bytes := List UInt8

/-- `v.to_le_bytes()` truncated to `k` bytes -/
def le : Nat → Nat → Bytes
  | 0, _ => []
  | k + 1, v => UInt8.ofNat (v % 256) :: le k (v / 256)

/-- little-endian value of a byte string -/
def rd : Bytes → Nat
  | [] => 0
  | b :: bs => b.toNat + 256 * rd bs

def zeros (n : Nat) : Bytes := List.replicate n 0

/-- `data[off .. off+len]`; shorter when the source is (callers check bounds first, as the
Rust does before slicing) -/
def slice (b : Bytes) (off len : Nat) : Bytes := (b.drop off).take len

/-- checked slice: `none` is where the Rust slice index would panic -/
def slice? (b : Bytes) (off len : Nat) : Option Bytes :=
  if off + len ≤ b.length then some (slice b off len) else none

def allZero (b : Bytes) : Bool := b.all (· == 0)

/-- overwrite `b[off .. off+p.length]` with `p` (requires it to fit) -/
def patch (b : Bytes) (off : Nat) (p : Bytes) : Bytes :=
  b.take off ++ p ++ b.drop (off + p.length)

/-! ### CRC-32C, reflected, polynomial `CRC32C_POLY`, as `crc32c_sw` -/

def crcPoly : UInt32 := UInt32.ofNat CRC32C_POLY

def crcBit (crc : UInt32) : UInt32 :=
  if crc &&& 1 != 0 then (crc >>> 1) ^^^ crcPoly else crc >>> 1

def crcTableEntry (i : Nat) : UInt32 :=
  crcBit (crcBit (crcBit (crcBit (crcBit (crcBit (crcBit (crcBit (UInt32.ofNat i))))))))

def crcTable : Array UInt32 := (Array.range 256).map crcTableEntry

def crcStep (crc : UInt32) (b : UInt8) : UInt32 :=
  crcTable.getD ((crc ^^^ b.toUInt32) &&& 0xFF).toNat 0 ^^^ (crc >>> 8)

/-- `crc32c(seed, data)` -/
def crc32c (seed : UInt32) (data : Bytes) : UInt32 := ~~~ (data.foldl crcStep (~~~ seed))

/-- chaining: `crc32c(crc32c(s, a), b) = crc32c(s, a ++ b)` -/
theorem crc32c_append (s : UInt32) (a b : Bytes) : crc32c (crc32c s a) b = crc32c s (a ++ b) := by
  simp [crc32c, List.foldl_append]

/-- `nonzero_token` / `record_token` -/
def nonzeroToken (crc : UInt32) : UInt16 :=
  let t := ((crc >>> 16) ^^^ (crc &&& 0xFFFF)).toUInt16
  if t == 0 then 1 else t

theorem nonzeroToken_ne_zero (crc : UInt32) : nonzeroToken crc ≠ 0 := by
  unfold nonzeroToken
  simp only
  split
  · decide
  · rename_i h; simpa using h

/-- `seq_token(sector, header)` -/
def seqToken (sector : Nat) (header : Bytes) : UInt16 :=
  nonzeroToken (crc32c (crc32c 0 (le 8 sector)) header)

/-- `record_seq_token(sector, data)`: the seq_number bytes (2..4) count as zero -/
def recordSeqToken (sector : Nat) (data : Bytes) : UInt16 :=
  let crc := crc32c 0 (le 8 sector)
  if data.length ≥ SECTOR_HEADER_SIZE then
    nonzeroToken (crc32c (crc32c (crc32c crc (data.take 2)) [0, 0]) (data.drop SECTOR_HEADER_SIZE))
  else nonzeroToken (crc32c crc data)

def tokenBytes (t : UInt16) : Bytes := le 2 t.toNat

/-! ### lemmas about `le` / `rd` -/

@[simp] theorem le_length (k v : Nat) : (le k v).length = k := by
  induction k generalizing v with
  | zero => rfl
  | succ k ih => simp [le, ih]

theorem rd_le (k v : Nat) : rd (le k v) = v % 256 ^ k := by
  induction k generalizing v with
  | zero => simp [le, rd, Nat.mod_one]
  | succ k ih =>
    simp only [le, rd, ih]
    have h1 : (UInt8.ofNat (v % 256)).toNat = v % 256 := by
      simp [UInt8.toNat_ofNat']
    rw [h1, Nat.pow_succ, Nat.mul_comm (256 ^ k) 256, Nat.mod_mul]

theorem rd_le_of_lt {k v : Nat} (h : v < 256 ^ k) : rd (le k v) = v := by
  rw [rd_le, Nat.mod_eq_of_lt h]

@[simp] theorem zeros_length (n : Nat) : (zeros n).length = n := by simp [zeros]

theorem slice_append_left {a b : Bytes} {n : Nat} (h : n = a.length) : slice (a ++ b) 0 n = a := by
  subst h; simp [slice]

end Feox.Fmt
