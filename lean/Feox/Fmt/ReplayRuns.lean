import Feox.Fmt.Replay
/-!
# Fmt.ReplayRuns — the replay of a journal with several runs, on any crash image
-/
namespace Feox.Fmt
open Feox.Gen Feox.Proto

/-- the marker writes of a replay, run by run -/
def replayWrites (img : Image) : List (Nat × Nat) → Image
  | [] => img
  | (s, e) :: rs => replayWrites (writeBlocks img s (markerBlocks s (e - s) (e - s))) rs

def maskRuns (d : Disk) : List (Nat × Nat) → Disk
  | [] => d
  | (s, e) :: rs => maskRuns (maskRun d s e) rs

def filterRuns (L : List Rec) : List (Nat × Nat) → List Rec
  | [] => L
  | (s, e) :: rs => filterRuns (L.filter (outside s e)) rs

def inRuns (runs : List (Nat × Nat)) (p : Nat) : Prop := ∃ r ∈ runs, r.1 ≤ p ∧ p < r.2

theorem aligned_filter {L : List Rec} {s e s' e' : Nat} (h : Aligned L s' e') : Aligned (L.filter (outside s e)) s' e' :=
  fun r hr => h r (List.mem_filter.mp hr).1

/-- **Replay of all journalled runs.**  `img0` represents the tiled disk `d0`; every run is made of whole tiles of
`d0`, lies in the data area and the runs are pairwise disjoint; `img` is any image that agrees with `img0` outside
the runs.  After the replay's marker writes the image represents `d0` with every run masked, tiled by the records
outside all runs, and the recovery scan accepts exactly those. -/
theorem replay_runs_on_bytes {v lo total : Nat} {info : Gen → RecMeta} (h64 : total < 2 ^ 64) :
    ∀ (runs : List (Nat × Nat)) (img0 img : Image) (d0 : Disk) (L : List Rec),
      Rep img0 v lo total info d0 → TiledBy d0 total L lo → total ≤ img0.size → total ≤ img.size →
      (∀ r ∈ runs, r.1 < r.2 ∧ lo ≤ r.1 ∧ r.2 ≤ total ∧ Aligned L r.1 r.2) →
      runs.Pairwise (fun a b => a.2 ≤ b.1 ∨ b.2 ≤ a.1) →
      (∀ p, ¬ inRuns runs p → blockAt img p = blockAt img0 p) →
      Rep (replayWrites img runs) v lo total info (maskRuns d0 runs) ∧
      TiledBy (maskRuns d0 runs) total (filterRuns L runs) lo ∧
      ∀ (o : Opts) (journal : List (Nat × Nat)) (st : ScanSt), o.readOnly = false →
        GoodOutcome info (filterRuns L runs) st (scan (replayWrites img runs) v total o journal lo st) := by
  intro runs
  induction runs with
  | nil =>
    intro img0 img d0 L hrep ht _ _ _ _ hagree
    have hsame : ∀ q, blockAt img q = blockAt img0 q := fun q => hagree q (by rintro ⟨r, hr, _⟩; cases hr)
    have hrep' := Rep.congr hsame hrep
    exact ⟨hrep', ht, fun o journal st hro => scan_rep_tiled hro hrep' (total - lo) lo L st (Nat.le_refl _) (Nat.le_refl _) ht⟩
  | cons r rs ih =>
    intro img0 img d0 L hrep ht htot0 htot hruns hdisj hagree
    obtain ⟨s, e⟩ := r
    obtain ⟨hse, hlo, he, hal⟩ := hruns (s, e) List.mem_cons_self
    simp only at hse hlo he hal
    rw [List.pairwise_cons] at hdisj
    obtain ⟨hrep1, ht1, _⟩ := retire_region hrep ht htot0 h64 s e hse hlo he hal
    simp only [replayWrites, maskRuns, filterRuns]
    apply ih (writeBlocks img0 s (markerBlocks s (e - s) (e - s))) (writeBlocks img s (markerBlocks s (e - s) (e - s)))
      (maskRun d0 s e) (L.filter (outside s e)) hrep1 ht1 (by rw [writeBlocks_size]; exact htot0) (by rw [writeBlocks_size]; exact htot)
    · intro r' hr'
      obtain ⟨a, b, c, d⟩ := hruns r' (List.mem_cons_of_mem _ hr')
      exact ⟨a, b, c, aligned_filter d⟩
    · exact hdisj.2
    · intro p hp
      rw [blockAt_markerWrite img s (e - s) p (by omega), blockAt_markerWrite img0 s (e - s) p (by omega)]
      by_cases hin : s ≤ p ∧ p < s + (e - s)
      · simp only [hin, and_self, ↓reduceIte]
      · simp only [hin, ↓reduceIte]
        apply hagree
        rintro ⟨r', hr', h1, h2⟩
        rcases List.mem_cons.mp hr' with rfl | hr''
        · simp only at h1 h2; omega
        · exact hp ⟨r', hr'', h1, h2⟩

end Feox.Fmt
