import Feox.Fmt.Codec
import Feox.Fsm.Model
/-!
# `recoverImage` — the whole of opening an existing device file, as a function of its bytes

Follows `open_device` (size / all-zero checks), `load_indexes` (metadata selection and
validation), `scan_and_rebuild_indexes` branch for branch (journal replay, marker handling,
head validation, token check, newest-timestamp-wins, gap release), expired-winner removal
and the post-scan retirement writes.  Every slice index of the Rust is a checked slice here;
`Err.panic` marks where the Rust would panic, so "never panics" is a statement that can fail.
-/
namespace Feox.Fmt
open Feox.Gen

abbrev Image := Array Bytes      -- 4096-byte blocks

inductive RErr
  | InvalidDevice | InvalidMetadata | CorruptedRecord | AmbiguousLegacyTombstone
  | InvalidArgument | DuplicateKey | OutOfSpace | CorruptedData
  | panic (why : String)
  deriving Repr, DecidableEq, Inhabited

structure Opts where
  readOnly : Bool := false
  allowAmbiguous : Bool := false
  ttlOn : Bool := false
  now : Nat := 0
  recSize : Nat := 168
  deriving Repr, Inhabited

structure Live where
  key : Bytes
  ts : Nat
  expiry : Nat
  valueLen : Nat
  sector : Nat
  blocks : Nat
  deriving Repr, DecidableEq, Inhabited

/-- a device write issued by recovery, or an fsync -/
inductive IoEv
  | write (sector : Nat) (blocks : List Bytes)
  | fsync
  deriving Repr, DecidableEq, Inhabited

structure Recovered where
  version : Nat
  fresh : Bool                    -- all-zero file: initialised as a new device
  live : List Live                -- ascending key order
  fsm : Fsm.State
  count : Nat
  memory : Nat
  diskUsage : Nat
  ambiguous : Nat
  clock : List (Bytes × Nat)      -- timestamps observed by the version clock, scan order
  io : List IoEv                  -- recovery's own writes, in order
  image : Image                   -- the image after those writes
  jgen : Nat
  jslot : Nat
  deriving Repr, Inhabited

def fsmErr : Fsm.Err → RErr
  | .InvalidArgument => .InvalidArgument
  | .OutOfSpace => .OutOfSpace
  | .DuplicateKey => .DuplicateKey
  | .CorruptedData => .CorruptedData
  | .InvalidDevice => .InvalidDevice

def blockAt (img : Image) (s : Nat) : Bytes := img.getD s []

def writeBlocks (img : Image) (sector : Nat) : List Bytes → Image
  | [] => img
  | b :: bs => writeBlocks (img.setIfInBounds sector b) (sector + 1) bs

def applyIo (img : Image) : List IoEv → Image
  | [] => img
  | .write s bs :: rest => applyIo (writeBlocks img s bs) rest
  | .fsync :: rest => applyIo img rest

/-- `validate_device_size` -/
def validDeviceSize (size : Nat) : Bool :=
  !(size ≤ FEOX_DATA_START_BLOCK * BSZ || size > MAX_DEVICE_SIZE || size % BSZ != 0)

/-- bytes-lexicographic `a < b` (Rust `Vec<u8>` order) -/
def bytesLt : Bytes → Bytes → Bool
  | [], [] => false
  | [], _ :: _ => true
  | _ :: _, [] => false
  | a :: as, b :: bs => a < b || (a == b && bytesLt as bs)

def insertLive (l : Live) : List Live → List Live
  | [] => [l]
  | x :: xs =>
    if l.key == x.key then l :: xs
    else if bytesLt l.key x.key then l :: x :: xs
    else x :: insertLive l xs

def findLive (k : Bytes) (ls : List Live) : Option Live := ls.find? (·.key == k)

/-- retirement writes for one extent: chunks of `RETIREMENT_WRITE_BLOCKS` -/
def retireWrites (sector sectors : Nat) : List IoEv :=
  if h : sectors = 0 then []
  else
    let blocks := min sectors RETIREMENT_WRITE_BLOCKS
    .write sector (markerBlocks sector sectors blocks) :: retireWrites (sector + blocks) (sectors - blocks)
termination_by sectors
decreasing_by simp only [RETIREMENT_WRITE_BLOCKS]; omega

/-- `retire_extents_unjournaled`: marker writes for every extent, then one fsync -/
def retireUnjournaled (extents : List (Nat × Nat)) : List IoEv :=
  extents.flatMap (fun e => retireWrites e.1 e.2) ++ [.fsync]

def journalSector (slot : Nat) : Nat :=
  ALLOCATION_JOURNAL_START_BLOCK + slot * ALLOCATION_JOURNAL_SLOT_BLOCKS

def toBlocks (b : Bytes) : List Bytes :=
  if h : b.length = 0 then []
  else
    b.take BSZ :: toBlocks (b.drop BSZ)
termination_by b.length
decreasing_by simp [BSZ, FEOX_BLOCK_SIZE]; omega

/-- journal position bookkeeping of `DiskIO` -/
structure JPos where
  gen : Nat
  slot : Nat
  deriving Repr, Inhabited

def JPos.next (p : JPos) : JPos := { gen := p.gen + 1, slot := (p.slot + 1) % ALLOCATION_JOURNAL_SLOTS }

/-- `clear_allocation_journal` -/
def clearJournalIo (p : JPos) : Except RErr (List IoEv × JPos) :=
  let n := p.next
  match encodeClear n.gen with
  | .ok j => .ok ([.write (journalSector n.slot) (toBlocks j), .fsync], n)
  | .error _ => .error .InvalidArgument

/-- `write_allocation_journal` -/
def activeJournalIo (p : JPos) (extents : List (Nat × Nat)) : Except RErr (List IoEv × JPos) :=
  let n := p.next
  match encodeActive n.gen extents with
  | .ok j => .ok ([.write (journalSector n.slot) (toBlocks j), .fsync], n)
  | .error _ => .error .InvalidArgument

def chunks (n : Nat) (l : List α) : List (List α) :=
  if h : l.length = 0 ∨ n = 0 then []
  else l.take n :: chunks n (l.drop n)
termination_by l.length
decreasing_by simp; omega

/-- `retire_extents` (journalled) -/
def retireExtentsIo (p : JPos) (extents : List (Nat × Nat)) : Except RErr (List IoEv × JPos) :=
  if extents.isEmpty then .ok ([], p)
  else match coalesceExtents extents with
    | none => .error .InvalidArgument
    | some co =>
      (chunks ALLOCATION_JOURNAL_MAX_ENTRIES co).foldlM (init := ([], p)) fun (acc : List IoEv × JPos) chunk => do
        let (a, p1) ← activeJournalIo acc.2 chunk
        let (c, p2) ← clearJournalIo p1
        pure (acc.1 ++ a ++ retireUnjournaled chunk ++ c, p2)

/-- `replay_allocation_journal` -/
def replayIo (p : JPos) (extents : List (Nat × Nat)) : Except RErr (List IoEv × JPos) :=
  if extents.isEmpty then .ok ([], p)
  else match coalesceExtents extents with
    | none => .error .InvalidArgument
    | some co => do
      let (c, p1) ← clearJournalIo p
      pure (retireUnjournaled co ++ c, p1)

structure ScanSt where
  fsm : Fsm.State
  live : List Live := []
  retired : List (Nat × Nat) := []
  lastEnd : Nat := FEOX_DATA_START_BLOCK
  jidx : Nat := 0
  ambiguous : Nat := 0
  count : Nat := 0
  memory : Nat := 0
  disk : Nat := 0
  clock : List (Bytes × Nat) := []
  deriving Inhabited

def releaseFsm (f : Fsm.State) (a n : Nat) : Except RErr Fsm.State :=
  match Fsm.release f a n with
  | (.ok _, f') => .ok f'
  | (.error e, _) => .error (fsmErr e)

/-- read-only mode: skip extents listed in the (sorted) journal.  Returns the new sector and
journal index, and whether the scan position moved (then the loop restarts). -/
def skipJournal (journal : List (Nat × Nat)) (sector jidx : Nat) : Nat → Nat × Nat × Bool
  | 0 => (sector, jidx, false)
  | fuel + 1 =>
    match journal[jidx]? with
    | none => (sector, jidx, false)
    | some (start, n) =>
      if sector < start then (sector, jidx, false)
      else if sector < start + n then (start + n, jidx + 1, true)
      else skipJournal journal sector (jidx + 1) fuel

/-- all tails `sector+1 .. sector+extent` are complete markers counting down -/
def tailsComplete (img : Image) (sector extent : Nat) : Bool :=
  (List.range (extent - 1)).all fun i =>
    isCompleteMarker (blockAt img (sector + 1 + i)) (sector + 1 + i) (extent - (1 + i))

/-- crc over a whole record extent, seq_number bytes counted as zero (`record_crc_head` then
the tails) -/
def extentToken (img : Image) (sector blocks : Nat) : UInt16 :=
  let head := blockAt img sector
  let crc0 := crc32c (crc32c (crc32c (crc32c 0 (le 8 sector)) (head.take 2)) [0, 0]) (head.drop SECTOR_HEADER_SIZE)
  let crc := (List.range (blocks - 1)).foldl (fun c i => crc32c c (blockAt img (sector + 1 + i))) crc0
  nonzeroToken crc

/-- the scan loop of `scan_and_rebuild_indexes` -/
def scan (img : Image) (v total : Nat) (o : Opts) (journal : List (Nat × Nat)) (sector : Nat)
    (st : ScanSt) : Except RErr ScanSt :=
  if hlt : sector < total then
    -- read-only: step over journalled extents
    let (sector', jidx', moved) :=
      if o.readOnly then skipJournal journal sector st.jidx (journal.length + 1) else (sector, st.jidx, false)
    if hmoved : moved = true ∧ sector < sector' then
      scan img v total o journal sector' { st with jidx := jidx' }
    else
    let st := { st with jidx := jidx' }
    let data := blockAt img sector
    if data.length != BSZ then .error (.panic "short block") else
    if slice data 0 8 == DELETION_MARKER then
      if v < SEQ_TOKEN_MIN_VERSION && allZero (data.drop 8) then
        if !o.allowAmbiguous then .error .AmbiguousLegacyTombstone
        else scan img v total o journal (sector + 1) { st with ambiguous := st.ambiguous + 1 }
      else
        let expected := (markerToken sector data).toNat
        let found := rd (slice data 16 2)
        if expected != found then .error .CorruptedRecord
        else
          let extent := rd (slice data 8 8)
          if sector + extent ≥ 2 ^ 64 then .error .CorruptedRecord
          else if hext : extent = 0 ∨ sector + extent > total then .error .CorruptedRecord
          else
            let needsRepair := rd (slice data 18 1) != RETIREMENT_COMPLETE
              || (extent > 1 && !tailsComplete img sector extent)
            let st := if needsRepair && !o.readOnly then { st with retired := st.retired ++ [(sector, extent)] } else st
            have : total - (sector + extent) < total - sector := by omega
            scan img v total o journal (sector + extent) st
    else if rd (slice data 0 2) != SECTOR_MARKER then scan img v total o journal (sector + 1) st
    else if !headerOk v data then
      if v ≥ SEQ_TOKEN_MIN_VERSION then .error .CorruptedRecord else scan img v total o journal (sector + 1) st
    else
      let seq := rd (slice data 2 2)
      if (v < SEQ_TOKEN_MIN_VERSION && seq != 0) || (v ≥ SEQ_TOKEN_MIN_VERSION && seq == 0) then .error .CorruptedRecord
      else match parseRecord v data with
        | none => if v ≥ SEQ_TOKEN_MIN_VERSION then .error .CorruptedRecord else scan img v total o journal (sector + 1) st
        | some m =>
          if m.key.length > MAX_KEY_SIZE || m.valueLen == 0 || m.valueLen > MAX_VALUE_SIZE then
            if v ≥ SEQ_TOKEN_MIN_VERSION then .error .CorruptedRecord else scan img v total o journal (sector + 1) st
          else
            let needed := extentBlocks v m.key.length m.valueLen
            if hn : needed = 0 ∨ sector + needed > total then
              if v ≥ SEQ_TOKEN_MIN_VERSION then .error .CorruptedRecord else scan img v total o journal (sector + 1) st
            else
              let extentEnd := sector + needed
              if o.readOnly && (match journal[st.jidx]? with | some (s, _) => decide (s < extentEnd) | none => false) then
                .error .CorruptedRecord
              else if v ≥ SEQ_TOKEN_MIN_VERSION && seq != (extentToken img sector needed).toNat then .error .CorruptedRecord
              else
                let st := { st with clock := st.clock ++ [(m.key, m.ts)] }
                let existing := findLive m.key st.live
                match existing with
                | some ex =>
                  if ex.ts > m.ts then
                    let st := if !o.readOnly then { st with retired := st.retired ++ [(sector, needed)] } else st
                    scan img v total o journal (sector + needed) st
                  else
                    match releaseFsm st.fsm ex.sector ex.blocks with
                    | .error e => .error e
                    | .ok f1 =>
                      let st := { st with
                        fsm := f1
                        memory := st.memory - (o.recSize + ex.key.length + ex.valueLen)
                        disk := st.disk - ex.blocks * BSZ
                        retired := if !o.readOnly then st.retired ++ [(ex.sector, ex.blocks)] else st.retired }
                      match (if sector > st.lastEnd then releaseFsm st.fsm st.lastEnd (sector - st.lastEnd) else .ok st.fsm) with
                      | .error e => .error e
                      | .ok f2 =>
                        let l : Live := ⟨m.key, m.ts, m.expiry, m.valueLen, sector, needed⟩
                        scan img v total o journal (sector + needed) { st with
                          fsm := f2, lastEnd := sector + needed, live := insertLive l st.live
                          memory := st.memory + (o.recSize + m.key.length + m.valueLen)
                          disk := st.disk + needed * BSZ }
                | none =>
                  match (if sector > st.lastEnd then releaseFsm st.fsm st.lastEnd (sector - st.lastEnd) else .ok st.fsm) with
                  | .error e => .error e
                  | .ok f2 =>
                    let l : Live := ⟨m.key, m.ts, m.expiry, m.valueLen, sector, needed⟩
                    scan img v total o journal (sector + needed) { st with
                      fsm := f2, lastEnd := sector + needed, live := insertLive l st.live
                      count := st.count + 1
                      memory := st.memory + (o.recSize + m.key.length + m.valueLen)
                      disk := st.disk + needed * BSZ }
  else .ok st
termination_by total - sector
decreasing_by all_goals (first | assumption | omega)

/-- `remove_expired_recovery_winners`: in key order -/
def removeExpired (o : Opts) (st : ScanSt) : Except RErr ScanSt :=
  st.live.foldlM (init := st) fun st l =>
    if l.expiry > 0 && o.now > l.expiry then
      match releaseFsm st.fsm l.sector l.blocks with
      | .error e => .error e
      | .ok f => .ok { st with
          fsm := f
          live := st.live.filter (·.key != l.key)
          count := st.count - 1
          memory := st.memory - (o.recSize + l.key.length + l.valueLen)
          disk := st.disk - l.blocks * BSZ
          retired := if !o.readOnly then st.retired ++ [(l.sector, l.blocks)] else st.retired }
    else .ok st

def imageOfBytes (b : ByteArray) : Image :=
  let n := b.size / 4096
  (Array.range n).map fun i => (b.extract (i * 4096) (i * 4096 + 4096)).toList

def imageAllZero (img : Image) : Bool := img.all allZero

/-- result of an open: the outcome, plus the device writes issued before it (also on failure:
a failed open may already have replayed the journal) -/
structure Outcome where
  result : Except RErr Recovered
  io : List IoEv
  deriving Inhabited

def Outcome.fail (e : RErr) (io : List IoEv := []) : Outcome := ⟨.error e, io⟩

/-- Opening a device file of `size` bytes whose whole blocks are `img` (read-write unless
`o.readOnly`). -/
def recoverImage (img : Image) (size : Nat) (o : Opts) : Outcome :=
  if !validDeviceSize size then .fail .InvalidDevice
  else if img.size * BSZ != size then .fail (.panic "image/size mismatch")
  else if imageAllZero img && !o.readOnly then
    -- fresh device: free space initialised, both metadata copies written (no fsync)
    match Fsm.initDevice Fsm.new size with
    | .error e => .fail (fsmErr e)
    | .ok f =>
      let r : Recovered := {
        version := METADATA_VERSION, fresh := true, live := [], fsm := f, count := 0, memory := 0,
        diskUsage := 0, ambiguous := 0, clock := [], io := [], image := img, jgen := 0,
        jslot := ALLOCATION_JOURNAL_SLOTS - 1 }
      ⟨.ok r, []⟩
  else
    let total := size / BSZ
    let chosen := selectMeta (blockAt img FEOX_METADATA_BLOCK) (blockAt img FEOX_METADATA_BACKUP_BLOCK)
    if slice chosen 0 FEOX_SIGNATURE_SIZE != FEOX_SIGNATURE then .fail .InvalidMetadata
    else match Meta.decode chosen with
    | none => .fail .InvalidMetadata
    | some md =>
      let v := md.version
      let jbytes := (List.range ALLOCATION_JOURNAL_BLOCKS).flatMap fun i => blockAt img (ALLOCATION_JOURNAL_START_BLOCK + i)
      match decodeJournal jbytes total with
      | .error (.panic w) => .fail (.panic w)
      | .error .Corrupted => .fail .CorruptedRecord
      | .ok js =>
        let p0 : JPos := ⟨js.generation, js.slot⟩
        let replay : Except RErr (List IoEv × JPos × List (Nat × Nat)) :=
          if o.readOnly then .ok ([], p0, sortByStart js.extents)
          else match replayIo p0 js.extents with
            | .ok (io, p) => .ok (io, p, js.extents)
            | .error e => .error e
        match replay with
        | .error e => .fail e
        | .ok (io1, p1, journal) =>
          let img1 := applyIo img io1
          let f0 := Fsm.setDeviceSize Fsm.new size
          match scan img1 v total o journal FEOX_DATA_START_BLOCK { fsm := f0 } with
          | .error e => .fail e io1
          | .ok st =>
            -- with TTL on, the stale generations (and marker repairs) are retired in a journalled
            -- call of their own *before* the expired winners are removed and retired
            match (if o.ttlOn && !o.readOnly then retireExtentsIo p1 st.retired else .ok ([], p1)) with
            | .error e => .fail e io1
            | .ok (ioA, pA) =>
            let st := if o.ttlOn && !o.readOnly then { st with retired := [] } else st
            match (if o.ttlOn then removeExpired o st else .ok st) with
            | .error e => .fail e (io1 ++ ioA)
            | .ok st =>
              match (if o.readOnly then .ok ([], pA) else retireExtentsIo pA st.retired) with
              | .error e => .fail e (io1 ++ ioA)
              | .ok (ioB, p2) =>
                let io2 := ioA ++ ioB
                match (if st.lastEnd < total then releaseFsm st.fsm st.lastEnd (total - st.lastEnd) else .ok st.fsm) with
                | .error e => .fail e (io1 ++ io2)
                | .ok f =>
                  let r : Recovered := {
                    version := v, fresh := false, live := st.live, fsm := f, count := st.count,
                    memory := st.memory, diskUsage := st.disk, ambiguous := st.ambiguous, clock := st.clock,
                    io := io1 ++ io2, image := applyIo img1 io2, jgen := p2.gen, jslot := p2.slot }
                  ⟨.ok r, io1 ++ io2⟩

end Feox.Fmt
