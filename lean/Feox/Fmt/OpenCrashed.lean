import Feox.Fmt.Open
import Feox.Fmt.ReplayOpen
import Feox.Fmt.Ttl
/-!
# Fmt.OpenCrashed — `recoverImage` of a device that crashed inside a transaction

The counterpart of `Fmt.Open.recover_clean_image` for a non-empty journal: the whole open composed from
`replay_open_on_bytes` (the replay as issued), `scan_rep_tiled_ok` (the scan succeeds),
`scan_clean_retired` (nothing queued for repair) and `gap_release` (the tail release).  What stays a
hypothesis rather than a consequence: that the markers visible after the replay are complete
(`MarksClean` of the replayed image — true of the replay's own markers; older marker spans must not be
cut by a run) and that the journal area decodes to `js` (see `Fmt.JournalOpen`).
-/
namespace Feox.Fmt
open Feox.Gen Feox.Proto Feox.Fsm

/-- **Opening a crashed device, as a whole.**  `recoverImage` — size checks, metadata selection, journal
decode, replay, scan, post-scan retirement, tail release — on an image whose journal area decodes to a
non-empty intent `js.extents`: `img0` represents the tiled disk `d0` the intent was written over, the
coalesced runs are whole tiles inside the data area, `img` agrees with `img0` on the data area outside the
runs (anything inside them).  If the markers the masked disk shows are complete on the replayed image and
the surviving records have pairwise different keys and (with TTL on) none of the surviving winners has expired, the open returns `.ok`, the only device writes it
issues are the replay's (`io1`), the image it leaves is the replayed one and its table is the newest-wins
fold over exactly the records of `d0` outside the journalled runs. -/
theorem recover_crashed_image (img0 img : Image) (size : Nat) (o : Opts) (info : Gen → RecMeta) (d0 : Disk) (L : List Rec)
    (md : Meta) (js : JournalState) (co : List (Nat × Nat)) (io1 : List IoEv) (p1 : JPos)
    (hro : o.readOnly = false)
    (hsize : validDeviceSize size = true) (himg : img.size * BSZ = size) (hnz : imageAllZero img = false)
    (hsig : slice (selectMeta (blockAt img FEOX_METADATA_BLOCK) (blockAt img FEOX_METADATA_BACKUP_BLOCK)) 0 FEOX_SIGNATURE_SIZE = FEOX_SIGNATURE)
    (hmd : Meta.decode (selectMeta (blockAt img FEOX_METADATA_BLOCK) (blockAt img FEOX_METADATA_BACKUP_BLOCK)) = some md)
    (hjs : decodeJournal ((List.range ALLOCATION_JOURNAL_BLOCKS).flatMap fun i => blockAt img (ALLOCATION_JOURNAL_START_BLOCK + i)) (size / BSZ) = .ok js)
    (hne : js.extents.isEmpty = false) (hco : coalesceExtents js.extents = some co)
    (hio : replayIo ⟨js.generation, js.slot⟩ js.extents = .ok (io1, p1))
    (hrep : Rep img0 md.version FEOX_DATA_START_BLOCK (size / BSZ) info d0) (ht : TiledBy d0 (size / BSZ) L FEOX_DATA_START_BLOCK)
    (htot0 : size / BSZ ≤ img0.size)
    (hruns : ∀ r ∈ co, 0 < r.2 ∧ FEOX_DATA_START_BLOCK ≤ r.1 ∧ r.1 + r.2 ≤ size / BSZ ∧ Aligned L r.1 (r.1 + r.2))
    (hdisj : co.Pairwise (fun a b => a.1 + a.2 ≤ b.1 ∨ b.1 + b.2 ≤ a.1))
    (hagree : ∀ q, FEOX_DATA_START_BLOCK ≤ q → ¬ inRuns (co.map toRun) q → blockAt img q = blockAt img0 q)
    (hmarks : MarksClean (applyIo img io1) FEOX_DATA_START_BLOCK (size / BSZ) (maskRuns d0 (co.map toRun)))
    (hnd : ((filterRuns L (co.map toRun)).map (fun r => (info r.2.1).key)).Nodup)
    (hexp : o.ttlOn = true → ∀ l ∈ (filterRuns L (co.map toRun)).foldl (fun lv r => absorbLive lv (liveOf info r)) [],
      (decide (l.expiry > 0) && decide (o.now > l.expiry)) = false) :
    ∃ r, (recoverImage img size o).result = .ok r ∧ (recoverImage img size o).io = io1 ∧ r.image = applyIo img io1 ∧
      r.version = md.version ∧
      r.live = (filterRuns L (co.map toRun)).foldl (fun lv r => absorbLive lv (liveOf info r)) [] := by
  have hBSZ : BSZ = 4096 := rfl
  have hvs := hsize
  unfold validDeviceSize at hvs
  simp only [Bool.not_eq_true', Bool.or_eq_false_iff, decide_eq_false_iff_not, bne_eq_false_iff_eq] at hvs
  obtain ⟨⟨h1, h2⟩, h3⟩ := hvs
  have hMAX : MAX_DEVICE_SIZE < 2 ^ 64 := by decide
  have hds : FEOX_DATA_START_BLOCK ≤ size / BSZ := by
    have : FEOX_DATA_START_BLOCK * BSZ < size := by omega
    rw [hBSZ] at this ⊢
    omega
  have hd0 : 0 < size := by have : 0 < FEOX_DATA_START_BLOCK * BSZ := by decide
                            omega
  have h64 : size / BSZ < 2 ^ 64 := by
    have : size / BSZ ≤ size := Nat.div_le_self _ _
    omega
  have htot : size / BSZ ≤ img.size := by
    rw [← himg, hBSZ]; simp
  -- the replay
  obtain ⟨hrepF, htF, hgoF⟩ := replay_open_on_bytes h64 js.extents co ⟨js.generation, js.slot⟩ p1 io1 img0 img d0 L hne hco hio
    hrep ht htot0 htot hruns hdisj hagree
  -- the scan
  obtain ⟨st, hscan, q, hinv⟩ := scan_rep_tiled_ok (o := o) (journal := js.extents) hro hrepF hd0 rfl h64
    (size / BSZ - FEOX_DATA_START_BLOCK) FEOX_DATA_START_BLOCK _ { fsm := Fsm.setDeviceSize Fsm.new size }
    (Nat.le_refl _) (Nat.le_refl _) htF (scanInv_init size (size / BSZ) hds)
  have hgo := hgoF o js.extents { fsm := Fsm.setDeviceSize Fsm.new size } hro
  rw [hscan] at hgo
  simp only [GoodOutcome] at hgo
  have hret : st.retired = [] := by
    have := scan_clean_retired (o := o) (journal := js.extents) hro hrepF hmarks (size / BSZ - FEOX_DATA_START_BLOCK)
      FEOX_DATA_START_BLOCK _ { fsm := Fsm.setDeviceSize Fsm.new size } st (Nat.le_refl _) (Nat.le_refl _) htF hnd
      (by intro r _; simp [findLive]) hscan
    simpa using this
  -- the tail release
  obtain ⟨f2, hrel, _, _, _⟩ := gap_release (f := st.fsm) (dev := size) (total := size / BSZ) (lastEnd := st.lastEnd) (p := size / BSZ)
    hinv.inv hinv.dev hd0 rfl h64 (fun b hb => (hinv.free b hb).1) hinv.le.1 (Nat.le_refl _)
  refine ⟨{ version := md.version, fresh := false, live := st.live, fsm := f2, count := st.count, memory := st.memory,
            diskUsage := st.disk, ambiguous := st.ambiguous, clock := st.clock, io := io1, image := applyIo img io1,
            jgen := p1.gen, jslot := p1.slot }, ?_, ?_, rfl, rfl, hgo.2⟩
  all_goals
    unfold recoverImage
    have c1 : (!validDeviceSize size) = false := by rw [hsize]; rfl
    have c2 : (img.size * BSZ != size) = false := by rw [himg]; simp
    have hst : { st with retired := [] } = st := by
      cases st; simp only at hret; subst hret; rfl
    cases httl : o.ttlOn with
    | false =>
      simp only [c1, Bool.false_eq_true, ↓reduceIte, c2, hnz, Bool.false_and, hsig, bne_self_eq_false, hmd, hjs, hro,
        hio, applyIo, hscan, hret, retireExtentsIo, Bool.not_false, List.isEmpty_nil,
        List.append_nil, hrel]
    | true =>
      have hrm : removeExpired o st = .ok st := removeExpired_none o st (by rw [hgo.2]; exact hexp httl)
      simp only [c1, Bool.false_eq_true, ↓reduceIte, c2, hnz, Bool.false_and, hsig, bne_self_eq_false, hmd, hjs, hro,
        hio, applyIo, hscan, hret, retireExtentsIo, Bool.not_false, List.isEmpty_nil, Bool.and_self,
        List.append_nil, hrel, hst, hrm]

end Feox.Fmt
