import Feox.Fmt.Abstract
import Feox.Props.C06
/-!
# Fmt.ScanOk — on an image that represents a tiled disk the recovery scan does not fail at all

`scan_rep_tiled` leaves one way for the loop to fail: a refusal of the free-space manager.  Here that
is excluded: starting from the empty manager of the device, every release the loop issues — the gap
before an accepted record, the extent of a generation that a newer one replaces — is a valid release
(`C06.release_ok_iff`), because the free set always lies below `lastEnd`, outside every extent the
table shows.
-/
namespace Feox.Fmt
open Feox.Gen Feox.Proto Feox.Fsm

/-- the entry the table shows for its key -/
def Vis (live : List Live) (l : Live) : Prop := findLive l.key live = some l

structure ScanInv (dev total : Nat) (st : ScanSt) (p : Nat) : Prop where
  inv   : Fsm.Inv st.fsm
  dev   : st.fsm.deviceSize = dev
  free  : ∀ b, covers st.fsm.runs b → b < st.lastEnd ∧ ∀ l, Vis st.live l → ¬ (l.sector ≤ b ∧ b < l.sector + l.blocks)
  ext   : ∀ l, Vis st.live l → DS ≤ l.sector ∧ 0 < l.blocks ∧ l.sector + l.blocks ≤ st.lastEnd
  disj  : ∀ x y, Vis st.live x → Vis st.live y → x.key ≠ y.key →
            x.sector + x.blocks ≤ y.sector ∨ y.sector + y.blocks ≤ x.sector
  le    : DS ≤ st.lastEnd ∧ st.lastEnd ≤ p
  tot   : st.lastEnd ≤ total

theorem releaseFsm_ok {f : Fsm.State} {a n : Nat} (hi : Fsm.Inv f) (hv : C06.ReleaseValid f a n) :
    ∃ f', releaseFsm f a n = .ok f' ∧ Fsm.Inv f' ∧ f'.deviceSize = f.deviceSize ∧
      (∀ b, covers f'.runs b ↔ covers f.runs b ∨ (a ≤ b ∧ b < a + n)) := by
  obtain ⟨s', hs', hi', hdev, hcov⟩ := C06.release_ok_aux hi hv
  refine ⟨s', ?_, hi', hdev, hcov⟩
  unfold releaseFsm
  rw [hs']

theorem vis_insert_same (l : Live) (ls : List Live) : Vis (insertLive l ls) l := findLive_insertLive_same l ls

theorem vis_insert_cases {l x : Live} {ls : List Live} (h : Vis (insertLive l ls) x) :
    x = l ∨ (x.key ≠ l.key ∧ Vis ls x) := by
  unfold Vis at h
  by_cases hk : x.key = l.key
  · left
    rw [hk, findLive_insertLive_same] at h
    exact (Option.some.inj h).symm
  · right
    rw [findLive_insertLive_other l ls x.key hk] at h
    exact ⟨hk, h⟩


theorem gap_release {f : Fsm.State} {dev total lastEnd p : Nat} (hi : Fsm.Inv f) (hdev : f.deviceSize = dev)
    (hd0 : 0 < dev) (htot : dev / Fsm.BS = total) (h64 : total < 2 ^ 64)
    (hfree : ∀ b, covers f.runs b → b < lastEnd) (hle : DS ≤ lastEnd) (hp : p ≤ total) :
    ∃ f2, (if lastEnd < p then releaseFsm f lastEnd (p - lastEnd) else .ok f) = .ok f2 ∧ Fsm.Inv f2 ∧ f2.deviceSize = dev ∧
      (∀ b, covers f2.runs b → covers f.runs b ∨ (lastEnd ≤ b ∧ b < p)) := by
  by_cases hlt : lastEnd < p
  · simp only [hlt, ↓reduceIte]
    have hv : C06.ReleaseValid f lastEnd (p - lastEnd) := by
      refine ⟨by omega, hle, fun _ => by rw [hdev, htot]; omega, by omega, ?_⟩
      intro b h1 _ hc
      have := hfree b hc
      omega
    obtain ⟨f2, h1, h2, h3, h4⟩ := releaseFsm_ok hi hv
    refine ⟨f2, h1, h2, by rw [h3, hdev], fun b hb => ?_⟩
    rcases (h4 b).mp hb with h | h
    · exact Or.inl h
    · right; omega
  · simp only [hlt, ↓reduceIte]
    exact ⟨f, rfl, hi, hdev, fun b hb => Or.inl hb⟩

/-- the record branch of the loop never fails, and keeps the invariant -/
theorem recStep_ok {img : Image} {v total dev : Nat} {o : Opts} {journal : List (Nat × Nat)} {p n : Nat} {m : RecMeta} {st : ScanSt}
    (hro : o.readOnly = false) (hinv : ScanInv dev total st p) (hd0 : 0 < dev) (htot : dev / Fsm.BS = total) (h64 : total < 2 ^ 64)
    (hlo : DS ≤ p) (hn : 0 < n) (hb : p + n ≤ total) :
    ∃ st2, recStep img v total o journal p n m st = scan img v total o journal (p + n) st2 ∧ ScanInv dev total st2 (p + n) := by
  simp only [recStep, hro, Bool.not_false, ↓reduceIte]
  cases hex : findLive m.key st.live with
  | some ex =>
    simp only []
    by_cases hnewer : ex.ts > m.ts
    · simp only [hnewer, ↓reduceIte]
      exact ⟨_, rfl, ⟨hinv.inv, hinv.dev, hinv.free, hinv.ext, hinv.disj, ⟨hinv.le.1, by have := hinv.le.2; dsimp only; omega⟩, hinv.tot⟩⟩
    · simp only [hnewer, ↓reduceIte]
      have hkey := findLive_key hex
      have hvis : Vis st.live ex := by unfold Vis; rw [hkey]; exact hex
      obtain ⟨e1, e2, e3⟩ := hinv.ext ex hvis
      have hv1 : C06.ReleaseValid st.fsm ex.sector ex.blocks := by
        refine ⟨e2, e1, fun _ => by rw [hinv.dev, htot]; have := hinv.le.2; omega, by have := hinv.le.2; omega, ?_⟩
        intro b h1 h2 hc
        exact (hinv.free b hc).2 ex hvis ⟨h1, h2⟩
      obtain ⟨f1, hr1, hi1, hdev1, hcov1⟩ := releaseFsm_ok hinv.inv hv1
      rw [hr1]
      simp only []
      have hfree1 : ∀ b, covers f1.runs b → b < st.lastEnd := by
        intro b hb
        rcases (hcov1 b).mp hb with h | h
        · exact (hinv.free b h).1
        · omega
      obtain ⟨f2, hr2, hi2, hdev2, hcov2⟩ := gap_release (p := p) hi1 (by rw [hdev1, hinv.dev]) hd0 htot h64 hfree1 hinv.le.1 (by omega)
      rw [hr2]
      simp only []
      refine ⟨_, rfl, ⟨hi2, hdev2, ?_, ?_, ?_, ⟨by dsimp only; omega, Nat.le_refl _⟩, hb⟩⟩
      · dsimp only
        intro b hb
        have hb' : covers st.fsm.runs b ∨ (ex.sector ≤ b ∧ b < ex.sector + ex.blocks) ∨ (st.lastEnd ≤ b ∧ b < p) := by
          rcases hcov2 b hb with h | h
          · rcases (hcov1 b).mp h with h' | h'
            · exact Or.inl h'
            · exact Or.inr (Or.inl h')
          · exact Or.inr (Or.inr h)
        have hlt : b < p := by
          rcases hb' with h | h | h
          · have := (hinv.free b h).1; have := hinv.le.2; omega
          · have := hinv.le.2; omega
          · exact h.2
        refine ⟨by omega, ?_⟩
        intro x hx hin
        rcases vis_insert_cases hx with rfl | ⟨hk, hvx⟩
        · dsimp only at hin; omega
        · rcases hb' with h | h | h
          · exact (hinv.free b h).2 x hvx hin
          · have := hinv.disj x ex hvx hvis (by rw [hkey]; exact hk)
            omega
          · have := (hinv.ext x hvx).2.2; omega
      · dsimp only
        intro x hx
        rcases vis_insert_cases hx with rfl | ⟨_, hvx⟩
        · exact ⟨hlo, hn, Nat.le_refl _⟩
        · obtain ⟨a, b', c⟩ := hinv.ext x hvx
          have := hinv.le.2
          exact ⟨a, b', by omega⟩
      · dsimp only
        intro x y hx hy hxy
        rcases vis_insert_cases hx with rfl | ⟨_, hvx⟩
        · rcases vis_insert_cases hy with rfl | ⟨_, hvy⟩
          · exact absurd rfl hxy
          · right; have := (hinv.ext y hvy).2.2; have := hinv.le.2; dsimp only; omega
        · rcases vis_insert_cases hy with rfl | ⟨_, hvy⟩
          · left; have := (hinv.ext x hvx).2.2; have := hinv.le.2; dsimp only; omega
          · exact hinv.disj x y hvx hvy hxy
  | none =>
    simp only []
    have hfree0 : ∀ b, covers st.fsm.runs b → b < st.lastEnd := fun b hb => (hinv.free b hb).1
    obtain ⟨f2, hr2, hi2, hdev2, hcov2⟩ := gap_release (p := p) hinv.inv hinv.dev hd0 htot h64 hfree0 hinv.le.1 (by omega)
    rw [hr2]
    simp only []
    refine ⟨_, rfl, ⟨hi2, hdev2, ?_, ?_, ?_, ⟨by dsimp only; omega, Nat.le_refl _⟩, hb⟩⟩
    · dsimp only
      intro b hb
      have hlt : b < p := by
        rcases hcov2 b hb with h | h
        · have := (hinv.free b h).1; have := hinv.le.2; omega
        · exact h.2
      refine ⟨by omega, ?_⟩
      intro x hx hin
      rcases vis_insert_cases hx with rfl | ⟨hk, hvx⟩
      · dsimp only at hin; omega
      · rcases hcov2 b hb with h | h
        · exact (hinv.free b h).2 x hvx hin
        · have := (hinv.ext x hvx).2.2; omega
    · dsimp only
      intro x hx
      rcases vis_insert_cases hx with rfl | ⟨_, hvx⟩
      · exact ⟨hlo, hn, Nat.le_refl _⟩
      · obtain ⟨a, b', c⟩ := hinv.ext x hvx
        have := hinv.le.2
        exact ⟨a, b', by omega⟩
    · dsimp only
      intro x y hx hy hxy
      rcases vis_insert_cases hx with rfl | ⟨_, hvx⟩
      · rcases vis_insert_cases hy with rfl | ⟨_, hvy⟩
        · exact absurd rfl hxy
        · right; have := (hinv.ext y hvy).2.2; have := hinv.le.2; dsimp only; omega
      · rcases vis_insert_cases hy with rfl | ⟨_, hvy⟩
        · left; have := (hinv.ext x hvx).2.2; have := hinv.le.2; dsimp only; omega
        · exact hinv.disj x y hvx hvy hxy


theorem ScanInv.mono {dev total : Nat} {st st2 : ScanSt} {p q : Nat} (h : ScanInv dev total st p) (hpq : p ≤ q)
    (hf : st2.fsm = st.fsm) (hl : st2.live = st.live) (he : st2.lastEnd = st.lastEnd) : ScanInv dev total st2 q := by
  refine ⟨by rw [hf]; exact h.inv, by rw [hf]; exact h.dev, ?_, ?_, ?_, ?_, ?_⟩
  · rw [hf, hl, he]; exact h.free
  · rw [hl, he]; exact h.ext
  · rw [hl]; exact h.disj
  · rw [he]; exact ⟨h.le.1, by have := h.le.2; omega⟩
  · rw [he]; exact h.tot

theorem markSt_fields (img : Image) (o : Opts) (p r : Nat) (st : ScanSt) :
    (markSt img o p r st).fsm = st.fsm ∧ (markSt img o p r st).live = st.live ∧ (markSt img o p r st).lastEnd = st.lastEnd := by
  unfold markSt; simp only []; split <;> exact ⟨rfl, rfl, rfl⟩

/-- **On an image that represents a tiled disk the recovery scan succeeds.** -/
theorem scan_rep_tiled_ok {img : Image} {v total dev : Nat} {o : Opts} {journal : List (Nat × Nat)}
    {info : Gen → RecMeta} {d : Disk} (hro : o.readOnly = false) (hrep : Rep img v DS total info d)
    (hd0 : 0 < dev) (htot : dev / Fsm.BS = total) (h64 : total < 2 ^ 64) :
    ∀ (fuel p : Nat) (L : List Rec) (st : ScanSt), total - p ≤ fuel → DS ≤ p → TiledBy d total L p →
      ScanInv dev total st p → ∃ st', scan img v total o journal p st = .ok st' ∧ ∃ q, ScanInv dev total st' q := by
  intro fuel
  induction fuel with
  | zero =>
    intro p L st hf hlo ht hinv0
    cases ht with
    | done hp =>
      have : ¬ p < total := by omega
      exact ⟨st, by rw [scan]; simp [this], p, hinv0⟩
    | free hp _ _ _ => omega
    | recd hint hb _ => have := hint.1; omega
  | succ fuel ih =>
    intro p L st hf hlo ht hinv
    cases ht with
    | done hp =>
      have : ¬ p < total := by omega
      exact ⟨st, by rw [scan]; simp [this], p, hinv⟩
    | free hp hfl hmk ht' =>
      have hr := hrep p hlo hp
      rcases hfl with hz | ⟨r, hm⟩
      · rw [hz] at hr
        rw [scan_step_free hro hp hr]
        exact ih (p + 1) L st (by omega) (by omega) ht' (hinv.mono (by omega) rfl rfl rfl)
      · rw [hm] at hr
        obtain ⟨hmark, h64'⟩ := hr
        obtain ⟨h0, hb, hspan⟩ := hmk r hm
        rw [scan_step_mark hro hp hmark h64' h0 hb]
        have hsk := (TiledBy.free hp (Or.inr ⟨r, hm⟩) hmk ht').skip r hb (by
          intro q h1 h2
          by_cases hq : q = p
          · subst hq; exact Or.inr ⟨r, hm⟩
          · exact hspan q (by omega) h2)
        obtain ⟨a, b, c⟩ := markSt_fields img o p r st
        exact ih (p + r) L (markSt img o p r st) (by omega) (by omega) hsk (hinv.mono (by omega) a b c)
    | recd hint hb ht' =>
      rename_i L' g n
      have hp : p < total := by have := hint.1; omega
      have hr := hrep p hlo hp
      have hd0' := hint.2 0 hint.1
      simp only [Nat.add_zero] at hd0'
      rw [hd0'] at hr
      rw [scan_step_rec hro hp hr hint.1 hb]
      obtain ⟨st2, hstep, hinv2⟩ := recStep_ok (img := img) (v := v) (o := o) (journal := journal) (m := info g) hro hinv hd0 htot h64 hlo hint.1 hb
      rw [hstep]
      exact ih (p + n) L' st2 (by have := hint.1; omega) (by omega) ht' hinv2

/-- the state recovery starts the scan in -/
theorem scanInv_init (dev total : Nat) (hds : DS ≤ total) : ScanInv dev total { fsm := Fsm.setDeviceSize Fsm.new dev } DS := by
  refine ⟨?_, rfl, ?_, ?_, ?_, ⟨Nat.le_refl _, Nat.le_refl _⟩, hds⟩
  · exact C06.inv_setSize_new dev
  · intro b hb
    obtain ⟨r, hr, _⟩ := hb
    simp [Fsm.setDeviceSize, Fsm.new] at hr
  · intro l hl; simp [Vis, findLive] at hl
  · intro x y hx; simp [Vis, findLive] at hx

end Feox.Fmt
