import Feox.Fmt.Recover
/-!
# Migrate — model of `migrate()` (offline copy of a v1/v2 file into a fresh v3 file)

The data half: the source is opened *read-only* (`recoverImage` with `readOnly`, TTL off, so
expired newest generations are kept and keep shadowing older ones), its live records are
copied.  The file-system half: the `DestinationGuard` automaton (temporary file beside the
destination, publication by hard link, rollback), with a failure possible at every step and a
foreign file possibly appearing at the destination path while the migration runs.
-/
namespace Feox.Fmt
open Feox.Gen

inductive MErr
  | CurrentFormat | KeyTooLarge | DestinationTooLarge | AmbiguousLegacyRecovery | Store (e : RErr)
  deriving Repr, DecidableEq

structure Migrated where
  sourceVersion : Nat
  records : List Live            -- what the destination must contain (key order)
  destinationSize : Nat
  ambiguous : Nat
  image : Image                  -- the source image (values are read from it)
  deriving Inhabited

def sourceOpts (allowAmb : Bool) (recSize : Nat) : Opts :=
  { readOnly := true, allowAmbiguous := allowAmb, ttlOn := false, now := 0, recSize := recSize }

/-- the data half of `migrate` -/
def migrateModel (img : Image) (size : Nat) (allowAmb : Bool) (recSize : Nat) : Except MErr Migrated × List IoEv :=
  let out := recoverImage img size (sourceOpts allowAmb recSize)
  match out.result with
  | .error .AmbiguousLegacyTombstone => (.error .AmbiguousLegacyRecovery, out.io)
  | .error e => (.error (.Store e), out.io)
  | .ok r =>
    if r.version ≥ 3 then (.error .CurrentFormat, out.io)
    else if r.live.any (fun l => l.key.length > MAX_RECOVERABLE_KEY_SIZE) then (.error .KeyTooLarge, out.io)
    else
      let sectors := FEOX_DATA_START_BLOCK + (r.live.map fun l => extentBlocks 3 l.key.length l.valueLen).sum
      let required := sectors * BSZ
      let dsize := max size required
      if dsize > MAX_DEVICE_SIZE then (.error .DestinationTooLarge, out.io)
      else (.ok { sourceVersion := r.version, records := r.live, destinationSize := dsize,
                  ambiguous := r.ambiguous, image := r.image }, out.io)

/-! ### the destination guard -/

inductive Content | foreign | ours
  deriving Repr, DecidableEq

structure Fs where
  dest : Option Content
  temp : Option Content
  deriving Repr, DecidableEq

/-- where a step of the guard fails (`none` = no failure); `race` = a foreign file is created at
the destination path after the initial existence check -/
structure Env where
  failAt : Option Nat
  race : Bool
  copyOk : Bool        -- the copy/verification between `create` and `publish` succeeds
  deriving Repr, DecidableEq

def fails (e : Env) (step : Nat) : Bool := e.failAt == some step

/-- `DestinationGuard::create` … work … `publish` … `Drop`: final file system and whether
`migrate` reports success -/
def runGuard (fs : Fs) (e : Env) : Fs × Bool :=
  -- step 0: existence check
  if fs.dest.isSome then (fs, false)                       -- DestinationExists
  else if fails e 0 then (fs, false)
  -- step 1: create_new(temporary)
  else if fails e 1 then (fs, false)
  else
    let fs := { fs with temp := some .ours }
    let fs := if e.race then { fs with dest := some .foreign } else fs
    let dropGuard (fs : Fs) : Fs := { fs with temp := none }          -- `Drop`: remove the temporary
    -- step 2: copy + verify
    if !e.copyOk || fails e 2 then (dropGuard fs, false)
    -- step 3: stamp check of the temporary
    else if fails e 3 then (dropGuard fs, false)
    -- step 4: hard_link(temporary, destination): fails if the destination exists
    else if fs.dest.isSome || fails e 4 then (dropGuard fs, false)
    else
      let fs := { fs with dest := some .ours }
      let rollback (fs : Fs) : Fs := { fs with dest := none }
      -- step 5: stamp check of the published file, step 6: sync of the parent, step 7: remove temporary
      if fails e 5 || fails e 6 || fails e 7 then (dropGuard (rollback fs), false)
      else (dropGuard fs, true)

end Feox.Fmt
