import Feox.Fmt.Reopen
/-!
# Fmt.ClearAfter — after the replay the journal is clear

The exact device writes of `replayIo` (`replayIo_exact`), what they leave in the sixteen blocks below the
data area (`replayIo_low_blocks`: the one-block clear record at the head of the next slot, everything else
untouched), and hence what `decodeJournal` reads from the replayed image: generation + 1, the next slot, no
extents (`journal_clear_after_replay_slot0/1`) — the journal hypothesis of `reopen_after_crashed_open`.
-/
namespace Feox.Fmt
open Feox.Gen Feox.Proto

theorem toBlocks_one (j : Bytes) (h : j.length = BSZ) : toBlocks j = [j] := by
  have hb : BSZ = 4096 := rfl
  unfold toBlocks
  have h0 : ¬ j.length = 0 := by omega
  simp only [h0, ↓reduceDIte]
  rw [List.take_of_length_le (by omega)]
  unfold toBlocks
  simp [h]

theorem journalOK_clear (gen total : Nat) (h0 : 0 < gen) (h1 : gen < 2 ^ 64) : JournalOK gen JOURNAL_CLEAR total [] :=
  ⟨⟨h0, h1⟩, Or.inl ⟨rfl, rfl⟩, (by simp), (by intro e he; cases he), rfl, rfl⟩

/-- exact shape of the replay's writes -/
theorem replayIo_exact {p p1 : JPos} {extents co : List (Nat × Nat)} {io1 : List IoEv}
    (hne : extents.isEmpty = false) (hco : coalesceExtents extents = some co) (hio : replayIo p extents = .ok (io1, p1)) :
    io1 = retireUnjournaled co ++ [.write (journalSector p.next.slot) [stampJournal (journalBody p.next.gen JOURNAL_CLEAR [])], .fsync] := by
  unfold replayIo at hio
  have hg : (p.next.gen == 0) = false := by simp [JPos.next]
  simp only [hne, hco, Bool.false_eq_true, ↓reduceIte, clearJournalIo, encodeClear, hg, bind, Except.bind, pure, Except.pure] at hio
  injection hio with hio
  injection hio with h1 h2
  rw [toBlocks_one _ (clear_image_length _)] at h1
  exact h1.symm

/-- the journal and metadata blocks after the replay: the clear record in the first block of the next slot,
everything else as before -/
theorem replayIo_low_blocks {p p1 : JPos} {extents co : List (Nat × Nat)} {io1 : List IoEv} (img : Image)
    (hne : extents.isEmpty = false) (hco : coalesceExtents extents = some co) (hio : replayIo p extents = .ok (io1, p1))
    (hsz : FEOX_DATA_START_BLOCK ≤ img.size)
    (hruns : ∀ r ∈ co, r.1 ≤ r.1 + r.2 ∧ FEOX_DATA_START_BLOCK ≤ r.1 ∧ r.1 + r.2 ≤ img.size)
    (hdisj : co.Pairwise (fun a b => a.1 + a.2 ≤ b.1 ∨ b.1 + b.2 ≤ a.1)) :
    ∀ q, q < FEOX_DATA_START_BLOCK → blockAt (applyIo img io1) q =
      if q = journalSector p.next.slot then stampJournal (journalBody p.next.gen JOURNAL_CLEAR []) else blockAt img q := by
  have hshape := replayIo_exact hne hco hio
  have hs : p.next.slot < 2 := by
    simp only [JPos.next, ALLOCATION_JOURNAL_SLOTS]
    exact Nat.mod_lt _ (by decide)
  have hj : journalSector p.next.slot = 1 ∨ journalSector p.next.slot = 4 := by
    simp only [journalSector, ALLOCATION_JOURNAL_START_BLOCK, ALLOCATION_JOURNAL_SLOT_BLOCKS]
    omega
  have hD : FEOX_DATA_START_BLOCK = 16 := rfl
  intro q hq
  have hmid : ∀ q, q < FEOX_DATA_START_BLOCK →
      blockAt (applyIo img (co.flatMap fun e => retireWrites e.1 e.2)) q = blockAt img q := by
    intro q hq
    rw [blockAt_retireAll co img img (fun _ => rfl) rfl (fun r hr => (hruns r hr).2.2) q]
    refine (blockAt_replayWrites (co.map toRun) img ?_ ?_ q).1 ?_
    · intro r hr
      obtain ⟨e, he, rfl⟩ := List.mem_map.mp hr
      exact ⟨(hruns e he).1, (hruns e he).2.2⟩
    · rw [List.pairwise_map]
      exact hdisj.imp (fun h => by simpa [toRun] using h)
    · rintro ⟨r, hr, h1, _⟩
      obtain ⟨e, he, rfl⟩ := List.mem_map.mp hr
      have := (hruns e he).2.1
      simp only [toRun] at h1
      omega
  rw [hshape, retireUnjournaled, applyIo_append, applyIo_append]
  simp only [applyIo]
  by_cases hqj : q = journalSector p.next.slot
  · simp only [hqj, ↓reduceIte]
    have := blockAt_writeBlocks_in (applyIo img (co.flatMap fun e => retireWrites e.1 e.2)) (journalSector p.next.slot)
      [stampJournal (journalBody p.next.gen JOURNAL_CLEAR [])] 0 (by simp) (by rw [applyIo_size]; simp; omega)
    simpa using this
  · simp only [hqj, ↓reduceIte]
    rw [blockAt_writeBlocks_out _ _ _ q (by simp; omega)]
    exact hmid q hq


/-- **After the replay the journal is clear** (case: the intent was in slot 0, the clear record goes to
slot 1).  The journal area of the replayed image decodes to generation `js.generation + 1`, slot 1, no
extents — the hypothesis `hjsF`/`hclear` of `reopen_after_crashed_open`. -/
theorem journal_clear_after_replay_slot1 {gen : Nat} {extents co : List (Nat × Nat)} {io1 : List IoEv} {p1 : JPos} (img : Image)
    (total : Nat) (A : JournalState)
    (hne : extents.isEmpty = false) (hco : coalesceExtents extents = some co) (hio : replayIo ⟨gen, 0⟩ extents = .ok (io1, p1))
    (hsz : FEOX_DATA_START_BLOCK ≤ img.size)
    (hruns : ∀ r ∈ co, r.1 ≤ r.1 + r.2 ∧ FEOX_DATA_START_BLOCK ≤ r.1 ∧ r.1 + r.2 ≤ img.size)
    (hdisj : co.Pairwise (fun a b => a.1 + a.2 ≤ b.1 ∨ b.1 + b.2 ≤ a.1))
    (hlen : ∀ q, q < FEOX_DATA_START_BLOCK → (blockAt img q).length = BSZ)
    (hz0 : allZero (slotBytes img 0) = false) (hA : decodeSlot (slotBytes img 0) total 0 = .ok A)
    (hge : gen + 1 ≥ A.generation) (hg64 : gen + 1 < 2 ^ 64) :
    decodeJournal ((List.range ALLOCATION_JOURNAL_BLOCKS).flatMap fun i => blockAt (applyIo img io1) (ALLOCATION_JOURNAL_START_BLOCK + i)) total =
      .ok { generation := gen + 1, slot := 1, extents := [] } := by
  have hlow := replayIo_low_blocks img hne hco hio hsz hruns hdisj
  have hn : (JPos.next ⟨gen, 0⟩) = ⟨gen + 1, 1⟩ := rfl
  rw [hn] at hlow
  have hjs1 : journalSector 1 = 4 := rfl
  have hjs0 : journalSector 0 = 1 := rfl
  have hB : BSZ = 4096 := rfl
  have s0 : slotBytes (applyIo img io1) 0 = slotBytes img 0 := by
    unfold slotBytes
    rw [hjs0, hlow 1 (by decide), hlow 2 (by decide), hlow 3 (by decide)]
    simp [hjs1]
  have s1 : slotBytes (applyIo img io1) 1 = stampJournal (journalBody (gen + 1) JOURNAL_CLEAR []) ++ (blockAt img 5 ++ blockAt img 6) := by
    unfold slotBytes
    rw [hjs1, hlow 4 (by decide), hlow 5 (by decide), hlow 6 (by decide)]
    simp [hjs1, List.append_assoc]
  have l0 : (slotBytes img 0).length = JOURNAL_SLOT_SIZE := by
    unfold slotBytes
    simp only [List.length_append, hjs0, hlen 1 (by decide), hlen 2 (by decide), hlen 3 (by decide)]
    rfl
  have l1 : (slotBytes (applyIo img io1) 1).length = JOURNAL_SLOT_SIZE := by
    rw [s1]
    simp only [List.length_append, clear_image_length, hlen 5 (by decide), hlen 6 (by decide)]
    rfl
  exact open_reads_intent_slot1 (applyIo img io1) total (gen + 1) JOURNAL_CLEAR [] _ A (by rw [s0]; exact l0) s1 l1
    (by rw [s0]; exact hz0) (by rw [s0]; exact hA) (journalOK_clear _ _ (by omega) hg64) hge


/-- the other parity: the intent was in slot 1, the clear record goes to slot 0 -/
theorem journal_clear_after_replay_slot0 {gen : Nat} {extents co : List (Nat × Nat)} {io1 : List IoEv} {p1 : JPos} (img : Image)
    (total : Nat) (B : JournalState)
    (hne : extents.isEmpty = false) (hco : coalesceExtents extents = some co) (hio : replayIo ⟨gen, 1⟩ extents = .ok (io1, p1))
    (hsz : FEOX_DATA_START_BLOCK ≤ img.size)
    (hruns : ∀ r ∈ co, r.1 ≤ r.1 + r.2 ∧ FEOX_DATA_START_BLOCK ≤ r.1 ∧ r.1 + r.2 ≤ img.size)
    (hdisj : co.Pairwise (fun a b => a.1 + a.2 ≤ b.1 ∨ b.1 + b.2 ≤ a.1))
    (hlen : ∀ q, q < FEOX_DATA_START_BLOCK → (blockAt img q).length = BSZ)
    (hz1 : allZero (slotBytes img 1) = false) (hB : decodeSlot (slotBytes img 1) total 1 = .ok B)
    (hgt : gen + 1 > B.generation) (hg64 : gen + 1 < 2 ^ 64) :
    decodeJournal ((List.range ALLOCATION_JOURNAL_BLOCKS).flatMap fun i => blockAt (applyIo img io1) (ALLOCATION_JOURNAL_START_BLOCK + i)) total =
      .ok { generation := gen + 1, slot := 0, extents := [] } := by
  have hlow := replayIo_low_blocks img hne hco hio hsz hruns hdisj
  have hn : (JPos.next ⟨gen, 1⟩) = ⟨gen + 1, 0⟩ := by simp [JPos.next, ALLOCATION_JOURNAL_SLOTS]
  rw [hn] at hlow
  have hjs1 : journalSector 1 = 4 := rfl
  have hjs0 : journalSector 0 = 1 := rfl
  have hB' : BSZ = 4096 := rfl
  have s1 : slotBytes (applyIo img io1) 1 = slotBytes img 1 := by
    unfold slotBytes
    rw [hjs1, hlow 4 (by decide), hlow 5 (by decide), hlow 6 (by decide)]
    simp [hjs0]
  have s0 : slotBytes (applyIo img io1) 0 = stampJournal (journalBody (gen + 1) JOURNAL_CLEAR []) ++ (blockAt img 2 ++ blockAt img 3) := by
    unfold slotBytes
    rw [hjs0, hlow 1 (by decide), hlow 2 (by decide), hlow 3 (by decide)]
    simp [hjs0, List.append_assoc]
  have l1 : (slotBytes img 1).length = JOURNAL_SLOT_SIZE := by
    unfold slotBytes
    simp only [List.length_append, hjs1, hlen 4 (by decide), hlen 5 (by decide), hlen 6 (by decide)]
    rfl
  have l0 : (slotBytes (applyIo img io1) 0).length = JOURNAL_SLOT_SIZE := by
    rw [s0]
    simp only [List.length_append, clear_image_length, hlen 2 (by decide), hlen 3 (by decide)]
    rfl
  exact open_reads_intent_slot0 (applyIo img io1) total (gen + 1) JOURNAL_CLEAR [] _ B s0 l0 (by rw [s1]; exact l1)
    (by rw [s1]; exact hz1) (by rw [s1]; exact hB) (journalOK_clear _ _ (by omega) hg64) hgt

end Feox.Fmt
