import Feox.Fmt.Recover
/-!
# Fmt.Winner — which generation of a key the recovery scan keeps

`ScanSt.clock` lists (key, timestamp) of every record the scan accepted.  The live table always
holds, for each of those keys, an entry whose timestamp is at least that of every accepted
generation of the key: an older generation never displaces a newer one, whatever the order of
the extents on the device.
-/
namespace Feox.Fmt

/-- every accepted generation is dominated by the entry the table shows for its key -/
def Dominates (st : ScanSt) : Prop :=
  ∀ p ∈ st.clock, ∃ l, findLive p.1 st.live = some l ∧ p.2 ≤ l.ts

theorem findLive_insertLive_same (l : Live) (ls : List Live) : findLive l.key (insertLive l ls) = some l := by
  induction ls with
  | nil => simp [insertLive, findLive]
  | cons x xs ih =>
    unfold insertLive
    split
    · simp [findLive]
    · split
      · simp [findLive]
      · rename_i hne _
        have hx : (x.key == l.key) = false := by
          cases hh : (x.key == l.key) with
          | false => rfl
          | true => exfalso; apply hne; simp at hh ⊢; exact hh.symm
        simp only [findLive, List.find?_cons, hx]
        exact ih

theorem findLive_insertLive_other (l : Live) (ls : List Live) (k : Bytes) (hk : k ≠ l.key) :
    findLive k (insertLive l ls) = findLive k ls := by
  have hlk : (l.key == k) = false := by simp; exact fun h => hk h.symm
  induction ls with
  | nil => simp [insertLive, findLive, hlk]
  | cons x xs ih =>
    unfold insertLive
    split
    · rename_i heq
      have : x.key = l.key := by simp at heq; exact heq.symm
      have hxk : (x.key == k) = false := by rw [this]; exact hlk
      simp [findLive, List.find?_cons, hlk, hxk]
    · split
      · simp [findLive, List.find?_cons, hlk]
      · simp only [findLive, List.find?_cons] at ih ⊢
        split
        · rfl
        · exact ih

theorem findLive_key {k : Bytes} {ls : List Live} {l : Live} (h : findLive k ls = some l) : l.key = k := by
  have := List.find?_some h
  simpa using this

end Feox.Fmt

namespace Feox.Fmt

/-- adding an accepted record `(k, t)` and putting `l` (same key, same timestamp) into the table,
when the table's current entry for `k` (if any) is not newer than `t` -/
theorem dominates_insert {clock : List (Bytes × Nat)} {live : List Live} (l : Live)
    (hd : ∀ p ∈ clock, ∃ x, findLive p.1 live = some x ∧ p.2 ≤ x.ts)
    (hex : ∀ ex, findLive l.key live = some ex → ex.ts ≤ l.ts) :
    ∀ p ∈ clock ++ [(l.key, l.ts)], ∃ x, findLive p.1 (insertLive l live) = some x ∧ p.2 ≤ x.ts := by
  intro p hp
  rcases List.mem_append.mp hp with hp | hp
  · obtain ⟨x, hx, hle⟩ := hd p hp
    by_cases hk : p.1 = l.key
    · refine ⟨l, by rw [hk]; exact findLive_insertLive_same l live, ?_⟩
      rw [hk] at hx
      exact Nat.le_trans hle (hex x hx)
    · exact ⟨x, by rw [findLive_insertLive_other l live p.1 hk]; exact hx, hle⟩
  · simp at hp; subst hp
    exact ⟨l, findLive_insertLive_same l live, Nat.le_refl _⟩

theorem dominates_insert' (st : ScanSt) (l : Live) (hd : Dominates st)
    (hex : ∀ ex, findLive l.key st.live = some ex → ex.ts ≤ l.ts) :
    ∀ p ∈ st.clock ++ [(l.key, l.ts)], ∃ x, findLive p.1 (insertLive l st.live) = some x ∧ p.2 ≤ x.ts :=
  dominates_insert l hd hex

theorem Dominates.congr {a b : ScanSt} (hl : b.live = a.live) (hc : b.clock = a.clock) (h : Dominates a) : Dominates b := by
  intro p hp; rw [hc] at hp; rw [hl]; exact h p hp

/-- **The scan keeps the newest accepted generation of every key** -/
theorem scan_dominates (img : Image) (v total : Nat) (o : Opts) (journal : List (Nat × Nat)) (sector : Nat)
    (st st' : ScanSt) (h : scan img v total o journal sector st = .ok st') (hd : Dominates st) : Dominates st' := by
  fun_induction scan img v total o journal sector st generalizing st'
  all_goals (try (simp at h; done))
  all_goals (try (cases h; exact hd))
  all_goals (try (rename_i ih; exact ih _ h (fun p hp => hd p hp)))
  case case8 =>
    rename_i ih
    exact ih _ h (Dominates.congr (by simp +zetaDelta only []; split <;> rfl) (by simp +zetaDelta only []; split <;> rfl) hd)
  case case24 =>
    rename_i stA existing ex hex hnew f1 hrel1 stB f2 hrel2 l ih
    apply ih _ h
    have hfind : findLive l.key stB.live = some ex := by
      simp +zetaDelta only [] at hex ⊢
      exact hex
    have key := dominates_insert' _ l hd (by
      intro ex' hx
      simp +zetaDelta only [] at hfind hx
      rw [hfind] at hx
      cases hx
      simp +zetaDelta only [] at hnew ⊢
      omega)
    intro p hp
    simp +zetaDelta only [] at hp ⊢
    exact key p hp
  case case26 =>
    rename_i stA existing hex f2 hrel2 l ih
    apply ih _ h
    have hfind : findLive l.key stA.live = none := by
      simp +zetaDelta only [] at hex ⊢
      exact hex
    have key := dominates_insert' _ l hd (by
      intro ex' hx
      simp +zetaDelta only [] at hfind hx
      rw [hfind] at hx
      cases hx)
    intro p hp
    simp +zetaDelta only [] at hp ⊢
    exact key p hp
  case case21 =>
    rename_i stA existing ex hex hnew stB ih
    apply ih _ h
    intro p hp
    have hlive : stB.live = stA.live := by simp +zetaDelta only []; split <;> rfl
    have hclock : stB.clock = stA.clock := by simp +zetaDelta only []; split <;> rfl
    rw [hclock] at hp
    rw [hlive]
    simp +zetaDelta only [] at hp hex hnew ⊢
    rcases List.mem_append.mp hp with hp | hp
    · exact hd p hp
    · simp at hp
      subst hp
      exact ⟨ex, hex, by simp; omega⟩

end Feox.Fmt

namespace Feox.Fmt

/-- one step of `remove_expired_recovery_winners` -/
def dropIfExpired (o : Opts) (st : ScanSt) (l : Live) : Except RErr ScanSt :=
  if l.expiry > 0 && o.now > l.expiry then
    match releaseFsm st.fsm l.sector l.blocks with
    | .error e => .error e
    | .ok f => .ok { st with
        fsm := f
        live := st.live.filter (·.key != l.key)
        count := st.count - 1
        memory := st.memory - (o.recSize + l.key.length + l.valueLen)
        disk := st.disk - l.blocks * BSZ
        retired := if !o.readOnly then st.retired ++ [(l.sector, l.blocks)] else st.retired }
  else .ok st

theorem removeExpired_eq (o : Opts) (st : ScanSt) : removeExpired o st = st.live.foldlM (dropIfExpired o) st := rfl

/-- folding the removal over any list only ever filters the live table, and the key of every
expired entry it meets is gone from the table afterwards -/
theorem dropFold (o : Opts) : ∀ (ls : List Live) (st st2 : ScanSt), ls.foldlM (dropIfExpired o) st = .ok st2 →
    (∀ x ∈ st2.live, x ∈ st.live) ∧
    (∀ l ∈ ls, (l.expiry > 0 && o.now > l.expiry) = true → ∀ x ∈ st2.live, x.key ≠ l.key) := by
  intro ls
  induction ls with
  | nil =>
    intro st st2 h
    simp [List.foldlM, pure, Except.pure] at h
    subst h
    exact ⟨fun _ hx => hx, fun _ hl => by cases hl⟩
  | cons l ls ih =>
    intro st st2 h
    simp only [List.foldlM, bind, Except.bind] at h
    cases hstep : dropIfExpired o st l with
    | error e => rw [hstep] at h; cases h
    | ok st1 =>
      rw [hstep] at h
      obtain ⟨ih1, ih2⟩ := ih st1 st2 h
      have hsub : ∀ x ∈ st1.live, x ∈ st.live := by
        unfold dropIfExpired at hstep
        split at hstep
        · split at hstep
          · cases hstep
          · cases hstep
            intro x hx
            exact (List.mem_filter.mp hx).1
        · cases hstep; exact fun _ hx => hx
      refine ⟨fun x hx => hsub x (ih1 x hx), ?_⟩
      intro l' hl' hexp x hx
      rcases List.mem_cons.mp hl' with rfl | hl''
      · -- the head: its key was filtered out right here, and later steps only filter
        have hx1 := ih1 x hx
        unfold dropIfExpired at hstep
        rw [if_pos hexp] at hstep
        split at hstep
        · cases hstep
        · cases hstep
          have := (List.mem_filter.mp hx1).2
          simpa using this
      · exact ih2 l' hl'' hexp x hx

/-- **No resurrection at recovery.**  After the scan and the removal of expired winners:
(1) whatever the table shows was in the table the scan produced (nothing is added back);
(2) the scan's table showed, for every key, an entry at least as new as every accepted generation
of that key (`scan_dominates`); (3) the key of every winner that is expired at recovery time is
absent afterwards.  So an older generation of a key never surfaces in place of an expired newer
one, wherever the two sit on the device. -/
theorem no_resurrection (img : Image) (v total : Nat) (o : Opts) (journal : List (Nat × Nat)) (sector : Nat)
    (st0 st st2 : ScanSt) (h0 : Dominates st0) (hs : scan img v total o journal sector st0 = .ok st)
    (hr : removeExpired o st = .ok st2) :
    Dominates st ∧ (∀ x ∈ st2.live, x ∈ st.live) ∧
    (∀ l ∈ st.live, (l.expiry > 0 && o.now > l.expiry) = true → ∀ x ∈ st2.live, x.key ≠ l.key) := by
  have hd := scan_dominates img v total o journal sector st0 st hs h0
  rw [removeExpired_eq] at hr
  have := dropFold o st.live st st2 hr
  exact ⟨hd, this.1, this.2⟩

end Feox.Fmt
