import Feox.Fmt.ScanOk
/-!
# Fmt.Clean — a clean device opens without a repair: the scan queues nothing for retirement

On an image that represents a tiled data area whose markers are all complete (state byte and tails)
and whose records carry pairwise different keys — what a store leaves after an acknowledged flush and
a clean close, `repfile` — the recovery scan ends with nothing to retire: no stale generation, no
marker to repair.  `recoverImage` then issues no device write at all (`Props/C04W`).
-/
namespace Feox.Fmt
open Feox.Gen Feox.Proto

/-- every marker the labelling shows is complete on the image: state byte and, for a span, its tails -/
def MarksClean (img : Image) (lo total : Nat) (d : Disk) : Prop :=
  ∀ p r, lo ≤ p → p < total → d p = .mark r →
    rd (slice (blockAt img p) 18 1) = RETIREMENT_COMPLETE ∧ (r > 1 → tailsComplete img p r = true)

theorem markSt_clean {img : Image} {o : Opts} {p r : Nat} {st : ScanSt}
    (h1 : rd (slice (blockAt img p) 18 1) = RETIREMENT_COMPLETE) (h2 : r > 1 → tailsComplete img p r = true) :
    markSt img o p r st = st := by
  unfold markSt
  simp only []
  have : (rd (slice (blockAt img p) 18 1) != RETIREMENT_COMPLETE || (decide (r > 1) && !tailsComplete img p r)) = false := by
    rw [h1]
    by_cases hr : r > 1
    · simp [hr, h2 hr]
    · simp [hr]
  rw [this]; simp

/-- **The scan of a clean device queues nothing**: if it succeeds, `retired` is what it was. -/
theorem scan_clean_retired {img : Image} {v lo total : Nat} {o : Opts} {journal : List (Nat × Nat)}
    {info : Gen → RecMeta} {d : Disk} (hro : o.readOnly = false) (hrep : Rep img v lo total info d)
    (hmarks : MarksClean img lo total d) :
    ∀ (fuel p : Nat) (L : List Rec) (st st' : ScanSt), total - p ≤ fuel → lo ≤ p → TiledBy d total L p →
      (L.map (fun r => (info r.2.1).key)).Nodup → (∀ r ∈ L, findLive (info r.2.1).key st.live = none) →
      scan img v total o journal p st = .ok st' → st'.retired = st.retired := by
  intro fuel
  induction fuel with
  | zero =>
    intro p L st st' hf hlo ht _ _ hs
    cases ht with
    | done hp =>
      have : ¬ p < total := by omega
      rw [scan] at hs; simp [this] at hs; rw [hs]
    | free hp _ _ _ => omega
    | recd hint hb _ => have := hint.1; omega
  | succ fuel ih =>
    intro p L st st' hf hlo ht hnd hfresh hs
    cases ht with
    | done hp =>
      have : ¬ p < total := by omega
      rw [scan] at hs; simp [this] at hs; rw [hs]
    | free hp hfl hmk ht' =>
      have hr := hrep p hlo hp
      rcases hfl with hz | ⟨r, hm⟩
      · rw [hz] at hr
        rw [scan_step_free hro hp hr] at hs
        exact ih (p + 1) L st st' (by omega) (by omega) ht' hnd hfresh hs
      · rw [hm] at hr
        obtain ⟨hmark, h64⟩ := hr
        obtain ⟨h0, hb, hspan⟩ := hmk r hm
        rw [scan_step_mark hro hp hmark h64 h0 hb] at hs
        obtain ⟨c1, c2⟩ := hmarks p r hlo hp hm
        rw [markSt_clean c1 c2] at hs
        have hsk := (TiledBy.free hp (Or.inr ⟨r, hm⟩) hmk ht').skip r hb (by
          intro q h1 h2
          by_cases hq : q = p
          · subst hq; exact Or.inr ⟨r, hm⟩
          · exact hspan q (by omega) h2)
        exact ih (p + r) L st st' (by omega) (by omega) hsk hnd hfresh hs
    | recd hint hb ht' =>
      rename_i L' g n
      have hp : p < total := by have := hint.1; omega
      have hr := hrep p hlo hp
      have hd0 := hint.2 0 hint.1
      simp only [Nat.add_zero] at hd0
      rw [hd0] at hr
      rw [scan_step_rec hro hp hr hint.1 hb] at hs
      have hnone : findLive (info g).key st.live = none := hfresh (p, g, n) List.mem_cons_self
      simp only [recStep, hro, Bool.not_false, ↓reduceIte, hnone] at hs
      rw [List.map_cons, List.nodup_cons] at hnd
      split at hs
      · cases hs
      · rename_i f2 hf2
        have := ih (p + n) L' _ st' (by have := hint.1; omega) (by omega) ht' hnd.2 (by
          intro r hr'
          have hne : (info r.2.1).key ≠ (info g).key := by
            intro e
            exact hnd.1 (List.mem_map.mpr ⟨r, hr', e⟩)
          simp only []
          rw [findLive_insertLive_other _ _ _ hne]
          exact hfresh r (List.mem_cons_of_mem _ hr')) hs
        simpa using this

end Feox.Fmt
