import Feox.Fmt.WriteRead
import Feox.Proto.Disk
/-!
# Fmt.Commit — a record write, applied to the image, is the `fill` step of the block-level theory
-/
namespace Feox.Fmt
open Feox.Gen Feox.Proto Feox.C10

theorem writeBlocks_size (img : Image) (s : Nat) (bs : List Bytes) : (writeBlocks img s bs).size = img.size := by
  induction bs generalizing img s with
  | nil => rfl
  | cons b bs ih => simp [writeBlocks, ih]

theorem blockAt_set_ne (img : Image) (s p : Nat) (b : Bytes) (h : p ≠ s) : blockAt (img.setIfInBounds s b) p = blockAt img p := by
  unfold blockAt
  rw [Array.getD_eq_getD_getElem?, Array.getD_eq_getD_getElem?, Array.getElem?_setIfInBounds_ne (Ne.symm h)]

theorem blockAt_set_eq (img : Image) (s : Nat) (b : Bytes) (h : s < img.size) : blockAt (img.setIfInBounds s b) s = b := by
  unfold blockAt
  rw [Array.getD_eq_getD_getElem?, Array.getElem?_setIfInBounds_self_of_lt h]; rfl

theorem blockAt_writeBlocks_out (img : Image) (s : Nat) (bs : List Bytes) (p : Nat) (h : p < s ∨ s + bs.length ≤ p) :
    blockAt (writeBlocks img s bs) p = blockAt img p := by
  induction bs generalizing img s with
  | nil => rfl
  | cons b bs ih =>
    simp only [writeBlocks]
    rw [ih]
    · apply blockAt_set_ne; simp at h; omega
    · simp at h; omega

theorem blockAt_writeBlocks_in (img : Image) (s : Nat) (bs : List Bytes) (i : Nat) (hi : i < bs.length) (hb : s + bs.length ≤ img.size) :
    blockAt (writeBlocks img s bs) (s + i) = bs.getD i [] := by
  induction bs generalizing img s i with
  | nil => simp at hi
  | cons b bs ih =>
    simp only [writeBlocks]
    cases i with
    | zero =>
      rw [blockAt_writeBlocks_out _ _ _ _ (Or.inl (by omega))]
      simp only [Nat.add_zero, List.getD_cons_zero]
      apply blockAt_set_eq; simp at hb; omega
    | succ i =>
      have := ih (img.setIfInBounds s b) (s + 1) i (by simp at hi; omega) (by simp at hb ⊢; omega)
      have e : s + 1 + i = s + (i + 1) := by omega
      rw [e] at this
      rw [this]; simp


theorem toBlocks_chunks : ∀ (n : Nat) (E : Bytes), E.length = n * BSZ →
    toBlocks E = (List.range n).map (fun i => (E.drop (i * BSZ)).take BSZ) := by
  intro n
  induction n with
  | zero =>
    intro E h
    have : E = [] := by simpa using h
    subst this
    rw [toBlocks]; simp
  | succ n ih =>
    intro E h
    have hB : 0 < BSZ := by decide
    have hne : ¬ E.length = 0 := by rw [h]; simp [Nat.succ_mul]; omega
    rw [toBlocks]
    simp only [hne, ↓reduceDIte]
    have hlen : (E.drop BSZ).length = n * BSZ := by simp [h, Nat.succ_mul]
    rw [ih (E.drop BSZ) hlen, List.range_succ_eq_map]
    simp only [List.map_cons, Nat.zero_mul, List.drop_zero, List.map_map]
    refine congrArg (fun t => List.take BSZ E :: t) ?_
    apply List.map_congr_left
    intro i _
    simp only [Function.comp]
    rw [List.drop_drop]
    congr 2
    rw [Nat.succ_mul]; omega

/-- writing the blocks of an encoded extent puts the extent on the image -/
theorem holds_after_write (img : Image) (s n : Nat) (E : Bytes) (hE : E.length = n * BSZ) (hb : s + n ≤ img.size) :
    HoldsExtent (writeBlocks img s (toBlocks E)) s E n := by
  intro i hi
  rw [toBlocks_chunks n E hE]
  rw [blockAt_writeBlocks_in _ _ _ i (by simpa using hi) (by simpa using hb)]
  simp [List.getD, hi]

/-- a head label inside a tiled region is the start of one of the tiling's records -/
theorem _root_.Feox.Proto.TiledBy.head_mem {d : Disk} {hi : Nat} {L : List Rec} {lo : Nat} (h : TiledBy d hi L lo) :
    ∀ p g n, lo ≤ p → p < hi → d p = .data g 0 n → (p, g, n) ∈ L := by
  induction h with
  | done hp => intro p g n h1 h2 _; omega
  | @free L' p' hp hfl _ _ ih =>
    intro p g n h1 h2 hd
    by_cases he : p = p'
    · subst he
      rcases hfl with hz | ⟨r, hm⟩
      · rw [hd] at hz; cases hz
      · rw [hd] at hm; cases hm
    · exact ih p g n (by omega) h2 hd
  | @recd L' p' g' n' hint hb _ ih =>
    intro p g n h1 h2 hd
    by_cases hin : p < p' + n'
    · have := hint.2 (p - p') (by omega)
      have e : p' + (p - p') = p := by omega
      rw [e, hd] at this
      injection this with a b c
      have hpp : p = p' := by omega
      subst hpp; subst a; subst c
      exact List.mem_cons_self
    · exact List.mem_cons_of_mem _ (ih p g n (by omega) h2 hd)

theorem extentToken_congr (img img' : Image) (p n : Nat) (h : ∀ i, i < n → blockAt img' (p + i) = blockAt img (p + i)) (hn : 0 < n) :
    extentToken img' p n = extentToken img p n := by
  unfold extentToken
  have h0 := h 0 hn
  simp only [Nat.add_zero] at h0
  simp only [h0]
  congr 1
  rw [← List.foldl_map (f := fun i => blockAt img' (p + 1 + i)) (g := crc32c),
    ← List.foldl_map (f := fun i => blockAt img (p + 1 + i)) (g := crc32c)]
  congr 1
  apply List.map_congr_left
  intro i hi
  have hi' := List.mem_range.mp hi
  have := h (1 + i) (by omega)
  have e : p + (1 + i) = p + 1 + i := by omega
  rw [e] at this
  exact this

theorem isHead_congr (img img' : Image) (v p : Nat) (m : RecMeta) (n : Nat) (hn : 0 < n)
    (h : ∀ i, i < n → blockAt img' (p + i) = blockAt img (p + i)) (hh : IsHead img v p m n) : IsHead img' v p m n := by
  unfold IsHead at hh ⊢
  have h0 := h 0 hn
  simp only [Nat.add_zero] at h0
  simp only [h0, extentToken_congr img img' p n h hn]
  exact hh


/-- the labelling after a record of generation `g` went into the `n` blocks from `s` on -/
def fillLabel (d : Disk) (s n : Nat) (g : Gen) : Disk :=
  fun b => if s ≤ b ∧ b < s + n then .data g (b - s) n else d b

/-- **Committing a record write, on the bytes.**  The image represents a tiled disk; the `n` blocks
from `s` on are free-looking and no marker below spans into them (what allocating the front of a free
run gives, `C06.alloc_prefix_of_run` / `Proto.Alloc`); the record writer's bytes for generation `g` are
written there.  Then the new image represents the filled disk, that disk is tiled by the old records
plus the new one, and the recovery scan of the new image accepts exactly those. -/
theorem commit_record {img : Image} {v lo total : Nat} {info : Gen → RecMeta} {d : Disk} {L : List Rec}
    (hrep : Rep img v lo total info d) (ht : TiledBy d total L lo) (htot : total ≤ img.size)
    (s : Nat) (g : Gen) (value : Bytes) (hw : WfRec v (info g) value)
    (hk : (info g).key.length ≤ MAX_KEY_SIZE) (hv0 : 0 < (info g).valueLen) (hvmax : (info g).valueLen ≤ MAX_VALUE_SIZE)
    (hlo : lo ≤ s) (hb : s + extentBlocks v (info g).key.length (info g).valueLen ≤ total)
    (hfree : ∀ q, s ≤ q → q < s + extentBlocks v (info g).key.length (info g).valueLen → FLs d q)
    (hnospan : ∀ p r, p < s → d p = .mark r → p + r ≤ s) :
    let n := extentBlocks v (info g).key.length (info g).valueLen
    let img' := writeBlocks img s (toBlocks (encodeExtent v s (info g) value))
    let d' := fillLabel d s n g
    Rep img' v lo total info d' ∧
    ∃ L', TiledBy d' total L' lo ∧ (∀ r, r ∈ L' ↔ r ∈ L ∨ r = (s, g, n)) ∧
      ∀ (o : Opts) (journal : List (Nat × Nat)) (st : ScanSt), o.readOnly = false →
        GoodOutcome info L' st (scan img' v total o journal lo st) := by
  intro n img' d'
  obtain ⟨S, _, _, hElen, hnpos, _, _⟩ := encodeExtent_shape v s (info g) value hw
  have hElen' : (encodeExtent v s (info g) value).length = n * BSZ := hElen
  have hblen : (toBlocks (encodeExtent v s (info g) value)).length = n := by
    rw [toBlocks_chunks n _ hElen']; simp
  have hout : ∀ p, ¬ (s ≤ p ∧ p < s + n) → blockAt img' p = blockAt img p := by
    intro p hp
    apply blockAt_writeBlocks_out
    rw [hblen]; omega
  have hdout : ∀ p, ¬ (s ≤ p ∧ p < s + n) → d' p = d p := by
    intro p hp; simp only [d', fillLabel, hp, ↓reduceIte]
  have hdis := (ht.aligned_of_fls s (s + n) (by omega) hfree).1
  have hdis' : ∀ r ∈ L, r.1 + r.2.2 ≤ s ∨ s + n ≤ r.1 := by
    intro r hr
    have hrec := (ht.recs.1 r hr)
    rcases hdis r hr with ⟨h1, h2⟩ | h3
    · -- wholly inside a free-looking region: impossible, its head is a record block
      exfalso
      have hd0 := hrec.1.2 0 hrec.1.1
      simp only [Nat.add_zero] at hd0
      rcases hfree r.1 h1 (by have := hrec.1.1; omega) with hz | ⟨r', hm⟩
      · rw [hd0] at hz; cases hz
      · rw [hd0] at hm; cases hm
    · exact h3
  have hholds : HoldsExtent img' s (encodeExtent v s (info g) value) n :=
    holds_after_write img s n _ hElen' (by omega)
  have hrep' : Rep img' v lo total info d' := by
    -- the new image represents the new labelling
    intro p h1 h2
    by_cases hin : s ≤ p ∧ p < s + n
    · have hlab : d' p = .data g (p - s) n := by simp only [d', fillLabel, hin, and_self, ↓reduceIte]
      rw [hlab]
      by_cases hps : p = s
      · subst hps
        simp only [Nat.sub_self]
        exact encoded_extent_is_head img' v p (info g) value hw hk hv0 hvmax hholds
      · obtain ⟨k, hk'⟩ : ∃ k, p - s = k + 1 := ⟨p - s - 1, by omega⟩
        rw [hk']
        trivial
    · rw [hdout p hin, hout p hin]
      have hr := hrep p h1 h2
      cases hlab : d p with
      | zero => rw [hlab] at hr; exact hr
      | mark r => rw [hlab] at hr; exact hr
      | junk => trivial
      | data g' i n' =>
        cases i with
        | succ k => trivial
        | zero =>
          rw [hlab] at hr
          have hmem := ht.head_mem p g' n' h1 h2 hlab
          have hrec := ht.recs.1 _ hmem
          have hd := hdis' _ hmem
          simp only at hrec hd
          apply isHead_congr img img' v p (info g') n' hrec.1.1 _ hr
          intro i hi
          apply hout
          omega
  refine ⟨hrep', ?_⟩
  · obtain ⟨L', ht', hmem⟩ := TiledBy.fill (d := d) (d' := d') (hi := total) (L := L) s n g hnpos hb
      (fun b hbn => hdout b hbn)
      ⟨hnpos, fun i hi => by
        have : s ≤ s + i ∧ s + i < s + n := ⟨by omega, by omega⟩
        simp only [d', fillLabel, this, and_self, ↓reduceIte]
        congr 1; omega⟩
      hnospan hlo ht hdis' hfree
    refine ⟨L', ht', hmem, ?_⟩
    intro o journal st hro
    exact scan_rep_tiled hro hrep' (total - lo) lo L' st (Nat.le_refl _) (Nat.le_refl _) ht'


theorem markerBlocks_length (s r n : Nat) : (markerBlocks s r n).length = n := by
  induction n generalizing s r with
  | zero => rfl
  | succ n ih => simp [markerBlocks, ih]

theorem markerBlocks_getD (s r n i : Nat) (hi : i < n) :
    (markerBlocks s r n).getD i [] = markerBlock (s + i) (r - i) RETIREMENT_COMPLETE := by
  induction n generalizing s r i with
  | zero => omega
  | succ n ih =>
    cases i with
    | zero => simp [markerBlocks]
    | succ i =>
      simp only [markerBlocks, List.getD_cons_succ]
      rw [ih (s + 1) (r - 1) i (by omega)]
      congr 1 <;> omega

/-- **Retiring a region, on the bytes.**  The image represents a tiled disk; `[s, e)` is made of whole
tiles; the retirement writer's marker blocks (counting down to `e`) are written over it.  Then the new
image represents the masked disk (`Proto.maskRun`, which is also what a durable intent journal makes
recovery see *before* the markers land), that disk is tiled by the records outside the region, and the
recovery scan of the new image accepts exactly those. -/
theorem retire_region {img : Image} {v lo total : Nat} {info : Gen → RecMeta} {d : Disk} {L : List Rec}
    (hrep : Rep img v lo total info d) (ht : TiledBy d total L lo) (htot : total ≤ img.size) (h64 : total < 2 ^ 64)
    (s e : Nat) (hse : s < e) (hlo : lo ≤ s) (he : e ≤ total) (hal : Aligned L s e) :
    let img' := writeBlocks img s (markerBlocks s (e - s) (e - s))
    Rep img' v lo total info (maskRun d s e) ∧
    TiledBy (maskRun d s e) total (L.filter (outside s e)) lo ∧
    ∀ (o : Opts) (journal : List (Nat × Nat)) (st : ScanSt), o.readOnly = false →
      GoodOutcome info (L.filter (outside s e)) st (scan img' v total o journal lo st) := by
  intro img'
  have hout : ∀ p, ¬ (s ≤ p ∧ p < e) → blockAt img' p = blockAt img p := by
    intro p hp
    apply blockAt_writeBlocks_out
    rw [markerBlocks_length]; omega
  have hin : ∀ p, s ≤ p → p < e → blockAt img' p = markerBlock p (e - p) RETIREMENT_COMPLETE := by
    intro p h1 h2
    have := blockAt_writeBlocks_in img s (markerBlocks s (e - s) (e - s)) (p - s) (by rw [markerBlocks_length]; omega)
      (by rw [markerBlocks_length]; omega)
    have e1 : s + (p - s) = p := by omega
    rw [e1] at this
    rw [this, markerBlocks_getD s (e - s) (e - s) (p - s) (by omega), e1]
    congr 1; omega
  have hrep' : Rep img' v lo total info (maskRun d s e) := by
    intro p h1 h2
    by_cases hreg : s ≤ p ∧ p < e
    · have hlab : maskRun d s e p = .mark (e - p) := by simp only [maskRun, hreg, and_self, ↓reduceIte]
      rw [hlab, hin p hreg.1 hreg.2]
      exact ⟨marker_is_mark v p (e - p) (by omega) (by omega), by omega⟩
    · have hlab : maskRun d s e p = d p := by simp only [maskRun, hreg, ↓reduceIte]
      rw [hlab, hout p hreg]
      have hr := hrep p h1 h2
      cases hl : d p with
      | zero => rw [hl] at hr; exact hr
      | mark r => rw [hl] at hr; exact hr
      | junk => trivial
      | data g' i n' =>
        cases i with
        | succ k => trivial
        | zero =>
          rw [hl] at hr
          have hmem := ht.head_mem p g' n' h1 h2 hl
          have hrec := ht.recs.1 _ hmem
          have hal' := hal _ hmem
          simp only at hrec hal'
          apply isHead_congr img img' v p (info g') n' hrec.1.1 _ hr
          intro i hi
          apply hout
          have := hrec.1.1
          omega
  have ht' := ht.mask s e he hal
  exact ⟨hrep', ht', fun o journal st hro =>
    scan_rep_tiled hro hrep' (total - lo) lo _ st (Nat.le_refl _) (Nat.le_refl _) ht'⟩


theorem extentToken_congr_all (img img' : Image) (p n : Nat) (h : ∀ q, blockAt img' q = blockAt img q) :
    extentToken img' p n = extentToken img p n := by
  unfold extentToken
  simp only [h]

/-- `Rep` looks at an image through `blockAt` only -/
theorem Rep.congr {img img' : Image} {v lo total : Nat} {info : Gen → RecMeta} {d : Disk}
    (h : ∀ q, blockAt img' q = blockAt img q) (hrep : Rep img v lo total info d) : Rep img' v lo total info d := by
  intro p h1 h2
  have hr := hrep p h1 h2
  cases hl : d p with
  | zero => rw [hl] at hr; simp only [h]; exact hr
  | mark r => rw [hl] at hr; simp only [h]; exact hr
  | junk => trivial
  | data g i n =>
    cases i with
    | succ k => trivial
    | zero =>
      rw [hl] at hr
      unfold IsHead at hr ⊢
      simp only [h, extentToken_congr_all img img' p n h]
      exact hr

/-- **Journal replay, on the bytes.**  `img0` represents the tiled disk `d0` as it was when an intent
journal over `[s, e)` (whole tiles of `d0`) became durable; `img` is any image that agrees with `img0`
outside that region — whatever the crash left inside it: lost, reordered, torn, half-written bytes.
Writing the retirement markers over the region (what `replay_allocation_journal` does before the scan)
gives an image that represents `maskRun d0 s e`; that disk is tiled by the records of `d0` outside the
region, and the recovery scan accepts exactly those.  Nothing about the bytes inside the region is
assumed. -/
theorem replay_on_bytes {img0 img : Image} {v lo total : Nat} {info : Gen → RecMeta} {d0 : Disk} {L : List Rec}
    (hrep : Rep img0 v lo total info d0) (ht : TiledBy d0 total L lo) (htot0 : total ≤ img0.size) (htot : total ≤ img.size)
    (h64 : total < 2 ^ 64) (s e : Nat) (hse : s < e) (hlo : lo ≤ s) (he : e ≤ total) (hal : Aligned L s e)
    (hagree : ∀ p, ¬ (s ≤ p ∧ p < e) → blockAt img p = blockAt img0 p) :
    let img' := writeBlocks img s (markerBlocks s (e - s) (e - s))
    Rep img' v lo total info (maskRun d0 s e) ∧
    TiledBy (maskRun d0 s e) total (L.filter (outside s e)) lo ∧
    ∀ (o : Opts) (journal : List (Nat × Nat)) (st : ScanSt), o.readOnly = false →
      GoodOutcome info (L.filter (outside s e)) st (scan img' v total o journal lo st) := by
  intro img'
  obtain ⟨hrep0, ht', _⟩ := retire_region hrep ht htot0 h64 s e hse hlo he hal
  have hsame : ∀ q, blockAt img' q = blockAt (writeBlocks img0 s (markerBlocks s (e - s) (e - s))) q := by
    intro q
    by_cases hreg : s ≤ q ∧ q < e
    · have a := blockAt_writeBlocks_in img s (markerBlocks s (e - s) (e - s)) (q - s) (by rw [markerBlocks_length]; omega)
        (by rw [markerBlocks_length]; omega)
      have b := blockAt_writeBlocks_in img0 s (markerBlocks s (e - s) (e - s)) (q - s) (by rw [markerBlocks_length]; omega)
        (by rw [markerBlocks_length]; omega)
      have e1 : s + (q - s) = q := by omega
      rw [e1] at a b
      rw [a, b]
    · rw [blockAt_writeBlocks_out _ _ _ _ (by rw [markerBlocks_length]; omega),
        blockAt_writeBlocks_out _ _ _ _ (by rw [markerBlocks_length]; omega)]
      exact hagree q hreg
  have hrep' := Rep.congr hsame hrep0
  exact ⟨hrep', ht', fun o journal st hro =>
    scan_rep_tiled hro hrep' (total - lo) lo _ st (Nat.le_refl _) (Nat.le_refl _) ht'⟩

end Feox.Fmt
