import Feox.Fmt.ReplayRuns
import Feox.Fmt.JournalRT
/-!
# Fmt.ReplayOpen — the journal replay exactly as the open issues it, then the scan

`replay_runs_on_bytes` speaks of the marker writes run by run (`replayWrites`).  `recoverImage`
issues something else: `replayIo` — the coalesced runs' marker writes in chunks of
`RETIREMENT_WRITE_BLOCKS`, an fsync, a clear record into the next journal slot, an fsync.  This file
closes that gap: the issued list leaves, block for block on the data area, what `replayWrites` leaves
(`blockAt_retireAll`), the journal write stays below the data area (`replayIo_shape`, from the length
of the encoded clear record), `Rep` and the v3 token only look at blocks from `lo` on
(`Rep.congr_ge`), hence `replay_open_on_bytes`.
-/
namespace Feox.Fmt
open Feox.Gen Feox.Proto

theorem extentToken_congr_ge (img img' : Image) (p n : Nat) (h : ∀ q, p ≤ q → blockAt img' q = blockAt img q) :
    extentToken img' p n = extentToken img p n := by
  unfold extentToken
  have e : (fun (c : UInt32) (i : Nat) => crc32c c (blockAt img' (p + 1 + i))) = fun c i => crc32c c (blockAt img (p + 1 + i)) := by
    funext c i
    rw [h (p + 1 + i) (by omega)]
  simp only [h p (Nat.le_refl _), e]

/-- `Rep` looks only at the blocks from `lo` on -/
theorem Rep.congr_ge {img img' : Image} {v lo total : Nat} {info : Gen → RecMeta} {d : Disk}
    (h : ∀ q, lo ≤ q → blockAt img' q = blockAt img q) (hrep : Rep img v lo total info d) : Rep img' v lo total info d := by
  intro p h1 h2
  have hr := hrep p h1 h2
  cases hl : d p with
  | zero => rw [hl] at hr; simp only [h p h1]; exact hr
  | mark r => rw [hl] at hr; simp only [h p h1]; exact hr
  | junk => trivial
  | data g i n =>
    cases i with
    | succ k => trivial
    | zero =>
      rw [hl] at hr
      unfold IsHead at hr ⊢
      simp only [h p h1, extentToken_congr_ge img img' p n (fun q hq => h q (by omega))]
      exact hr

/-- `replay_runs_on_bytes`, asking for agreement on the data area only (what the crash left in the
journal blocks, the metadata copies, … does not matter) -/
theorem replay_runs_on_bytes_ge {v lo total : Nat} {info : Gen → RecMeta} (h64 : total < 2 ^ 64) :
    ∀ (runs : List (Nat × Nat)) (img0 img : Image) (d0 : Disk) (L : List Rec),
      Rep img0 v lo total info d0 → TiledBy d0 total L lo → total ≤ img0.size → total ≤ img.size →
      (∀ r ∈ runs, r.1 < r.2 ∧ lo ≤ r.1 ∧ r.2 ≤ total ∧ Aligned L r.1 r.2) →
      runs.Pairwise (fun a b => a.2 ≤ b.1 ∨ b.2 ≤ a.1) →
      (∀ p, lo ≤ p → ¬ inRuns runs p → blockAt img p = blockAt img0 p) →
      Rep (replayWrites img runs) v lo total info (maskRuns d0 runs) ∧
      TiledBy (maskRuns d0 runs) total (filterRuns L runs) lo := by
  intro runs
  induction runs with
  | nil =>
    intro img0 img d0 L hrep ht _ _ _ _ hagree
    have hsame : ∀ q, lo ≤ q → blockAt img q = blockAt img0 q := fun q hq => hagree q hq (by rintro ⟨r, hr, _⟩; cases hr)
    exact ⟨Rep.congr_ge hsame hrep, ht⟩
  | cons r rs ih =>
    intro img0 img d0 L hrep ht htot0 htot hruns hdisj hagree
    obtain ⟨s, e⟩ := r
    obtain ⟨hse, hlo, he, hal⟩ := hruns (s, e) List.mem_cons_self
    simp only at hse hlo he hal
    rw [List.pairwise_cons] at hdisj
    obtain ⟨hrep1, ht1, _⟩ := retire_region hrep ht htot0 h64 s e hse hlo he hal
    simp only [replayWrites, maskRuns, filterRuns]
    apply ih (writeBlocks img0 s (markerBlocks s (e - s) (e - s))) (writeBlocks img s (markerBlocks s (e - s) (e - s)))
      (maskRun d0 s e) (L.filter (outside s e)) hrep1 ht1 (by rw [writeBlocks_size]; exact htot0) (by rw [writeBlocks_size]; exact htot)
    · intro r' hr'
      obtain ⟨a, b, c, d⟩ := hruns r' (List.mem_cons_of_mem _ hr')
      exact ⟨a, b, c, aligned_filter d⟩
    · exact hdisj.2
    · intro p hp0 hp
      rw [blockAt_markerWrite img s (e - s) p (by omega), blockAt_markerWrite img0 s (e - s) p (by omega)]
      by_cases hin : s ≤ p ∧ p < s + (e - s)
      · simp only [hin, and_self, ↓reduceIte]
      · simp only [hin, ↓reduceIte]
        apply hagree p hp0
        rintro ⟨r', hr', h1, h2⟩
        rcases List.mem_cons.mp hr' with rfl | hr''
        · simp only at h1 h2; omega
        · exact hp ⟨r', hr'', h1, h2⟩

/-- a journalled extent `(start, count)` as a run `[start, start + count)` -/
def toRun (e : Nat × Nat) : Nat × Nat := (e.1, e.1 + e.2)

theorem applyIo_size (img : Image) (io : List IoEv) : (applyIo img io).size = img.size := by
  induction io generalizing img with
  | nil => rfl
  | cons x xs ih => cases x <;> simp [applyIo, ih, writeBlocks_size]

/-- the chunked marker writes the replay really issues leave, block for block, what `replayWrites` leaves -/
theorem blockAt_retireAll : ∀ (co : List (Nat × Nat)) (img img' : Image),
    (∀ q, blockAt img q = blockAt img' q) → img.size = img'.size → (∀ r ∈ co, r.1 + r.2 ≤ img.size) →
    ∀ q, blockAt (applyIo img (co.flatMap fun e => retireWrites e.1 e.2)) q = blockAt (replayWrites img' (co.map toRun)) q := by
  intro co
  induction co with
  | nil => intro img img' h _ _ q; simpa [applyIo, replayWrites] using h q
  | cons r rs ih =>
    intro img img' h hs hb q
    obtain ⟨s, n⟩ := r
    have hbn : s + n ≤ img.size := hb (s, n) List.mem_cons_self
    simp only [List.flatMap_cons, applyIo_append, List.map_cons, toRun, replayWrites, Nat.add_sub_cancel_left]
    apply ih
    · intro q
      rw [blockAt_retireWrites s n img q hbn, blockAt_markerWrite img' s n q (by omega), h q]
    · rw [applyIo_size, writeBlocks_size]; exact hs
    · intro r hr
      rw [applyIo_size]
      exact hb r (List.mem_cons_of_mem _ hr)

theorem toBlocks_length_le (n : Nat) : ∀ (b : Bytes), b.length ≤ n * BSZ → (toBlocks b).length ≤ n := by
  induction n with
  | zero =>
    intro b hb
    unfold toBlocks
    have : b.length = 0 := by omega
    simp [this]
  | succ n ih =>
    intro b hb
    unfold toBlocks
    split
    · simp
    · simp only [List.length_cons]
      have := ih (b.drop BSZ) (by simp only [List.length_drop]; rw [Nat.succ_mul] at hb; omega)
      omega

theorem clear_image_length (gen : Nat) : (stampJournal (journalBody gen JOURNAL_CLEAR [])).length = BSZ := by
  rw [stamped_eq, ← jfine_flatten]
  simp only [List.length_append, jfine_length]
  simp [jpad, journalImageSize, divCeil, JOURNAL_HEADER_SIZE, JOURNAL_ENTRY_SIZE, BSZ, FEOX_BLOCK_SIZE]


/-- what `replay_allocation_journal` issues: the marker writes of every coalesced run, an fsync, then one
journal-slot write (a clear record, one block, inside the journal area) and its fsync -/
theorem replayIo_shape {p p1 : JPos} {extents co : List (Nat × Nat)} {io1 : List IoEv}
    (hne : extents.isEmpty = false) (hco : coalesceExtents extents = some co) (hio : replayIo p extents = .ok (io1, p1)) :
    ∃ js bs, io1 = retireUnjournaled co ++ [.write js bs, .fsync] ∧ js + bs.length ≤ FEOX_DATA_START_BLOCK ∧ p1 = p.next := by
  unfold replayIo at hio
  have hg : (p.next.gen == 0) = false := by simp [JPos.next]
  simp only [hne, hco, Bool.false_eq_true, ↓reduceIte, clearJournalIo, encodeClear, hg, bind, Except.bind, pure, Except.pure] at hio
  injection hio with hio
  injection hio with h1 h2
  refine ⟨_, _, h1.symm, ?_, h2.symm⟩
  have hl := toBlocks_length_le 1 (stampJournal (journalBody p.next.gen JOURNAL_CLEAR [])) (by rw [clear_image_length]; omega)
  have hs : p.next.slot < 2 := by
    simp only [JPos.next, ALLOCATION_JOURNAL_SLOTS]
    exact Nat.mod_lt _ (by decide)
  simp only [journalSector, ALLOCATION_JOURNAL_START_BLOCK, ALLOCATION_JOURNAL_SLOT_BLOCKS, FEOX_DATA_START_BLOCK]
  omega

/-- **Opening a crashed device: the journal replay as issued, then the scan.**  `img0` represents the
tiled disk `d0` as it stood when the intent journal `extents` became durable; the coalesced runs are
whole tiles of `d0` inside the data area; `img` is *any* image that agrees with `img0` on the data
area outside those runs (the crash may have left anything inside them, and anything in the journal and
metadata blocks).  Then the device writes `replay_allocation_journal` really issues (`replayIo`:
chunked marker writes, fsync, journal clear, fsync) leave an image that represents `d0` with every run
masked, tiled by the records outside the runs, and the recovery scan of that image accepts exactly
those records. -/
theorem replay_open_on_bytes {v total : Nat} {info : Gen → RecMeta} (h64 : total < 2 ^ 64)
    (extents co : List (Nat × Nat)) (p p1 : JPos) (io1 : List IoEv) (img0 img : Image) (d0 : Disk) (L : List Rec)
    (hne : extents.isEmpty = false) (hco : coalesceExtents extents = some co)
    (hio : replayIo p extents = .ok (io1, p1))
    (hrep : Rep img0 v FEOX_DATA_START_BLOCK total info d0) (ht : TiledBy d0 total L FEOX_DATA_START_BLOCK)
    (htot0 : total ≤ img0.size) (htot : total ≤ img.size)
    (hruns : ∀ r ∈ co, 0 < r.2 ∧ FEOX_DATA_START_BLOCK ≤ r.1 ∧ r.1 + r.2 ≤ total ∧ Aligned L r.1 (r.1 + r.2))
    (hdisj : co.Pairwise (fun a b => a.1 + a.2 ≤ b.1 ∨ b.1 + b.2 ≤ a.1))
    (hagree : ∀ q, FEOX_DATA_START_BLOCK ≤ q → ¬ inRuns (co.map toRun) q → blockAt img q = blockAt img0 q) :
    Rep (applyIo img io1) v FEOX_DATA_START_BLOCK total info (maskRuns d0 (co.map toRun)) ∧
    TiledBy (maskRuns d0 (co.map toRun)) total (filterRuns L (co.map toRun)) FEOX_DATA_START_BLOCK ∧
    ∀ (o : Opts) (journal : List (Nat × Nat)) (st : ScanSt), o.readOnly = false →
      GoodOutcome info (filterRuns L (co.map toRun)) st (scan (applyIo img io1) v total o journal FEOX_DATA_START_BLOCK st) := by
  obtain ⟨hrepR, htR⟩ := replay_runs_on_bytes_ge h64 (co.map toRun) img0 img d0 L hrep ht htot0 htot
    (by
      intro r hr
      obtain ⟨e, he, rfl⟩ := List.mem_map.mp hr
      obtain ⟨a, b, c, d⟩ := hruns e he
      exact ⟨by simp only [toRun]; omega, b, c, d⟩)
    (by
      rw [List.pairwise_map]
      exact hdisj.imp (fun h => by simpa [toRun] using h))
    hagree
  obtain ⟨js, bs, hshape, hbelow, _⟩ := replayIo_shape hne hco hio
  have hblocks : ∀ q, FEOX_DATA_START_BLOCK ≤ q → blockAt (applyIo img io1) q = blockAt (replayWrites img (co.map toRun)) q := by
    intro q hq
    rw [hshape, retireUnjournaled, applyIo_append, applyIo_append]
    simp only [applyIo]
    rw [blockAt_writeBlocks_out _ js bs q (by omega)]
    exact blockAt_retireAll co img img (fun _ => rfl) rfl (fun r hr => by have := (hruns r hr).2.2.1; omega) q
  have hrepF := Rep.congr_ge hblocks hrepR
  exact ⟨hrepF, htR, fun o journal st hro =>
    scan_rep_tiled hro hrepF (total - FEOX_DATA_START_BLOCK) FEOX_DATA_START_BLOCK _ st (Nat.le_refl _) (Nat.le_refl _) htR⟩

end Feox.Fmt
