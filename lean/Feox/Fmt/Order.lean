import Feox.Fmt.Recover
namespace Feox.Fmt

theorem bytesLt_irrefl : ∀ a : Bytes, bytesLt a a = false := by
  intro a
  induction a with
  | nil => rfl
  | cons x xs ih => simp [bytesLt, ih]

theorem bytesLt_asymm : ∀ a b : Bytes, bytesLt a b = true → bytesLt b a = false := by
  intro a
  induction a with
  | nil => intro b h; cases b <;> simp [bytesLt] at h ⊢
  | cons x xs ih =>
    intro b h
    cases b with
    | nil => simp [bytesLt] at h
    | cons y ys =>
      simp only [bytesLt, Bool.or_eq_true, decide_eq_true_eq, Bool.and_eq_true, beq_iff_eq] at h ⊢
      rcases h with h | ⟨h1, h2⟩
      · have : ¬ y < x := by exact UInt8.lt_asymm h
        have hne : ¬ y = x := by intro e; subst e; exact UInt8.lt_irrefl _ h
        simp [this, hne]
      · subst h1
        simp [UInt8.lt_irrefl, ih ys h2]

theorem bytesLt_trans : ∀ a b c : Bytes, bytesLt a b = true → bytesLt b c = true → bytesLt a c = true := by
  intro a
  induction a with
  | nil =>
    intro b c h1 h2
    cases b with
    | nil => simp [bytesLt] at h1
    | cons y ys => cases c <;> simp [bytesLt] at h2 ⊢
  | cons x xs ih =>
    intro b c h1 h2
    cases b with
    | nil => simp [bytesLt] at h1
    | cons y ys =>
      cases c with
      | nil => simp [bytesLt] at h2
      | cons z zs =>
        simp only [bytesLt, Bool.or_eq_true, decide_eq_true_eq, Bool.and_eq_true, beq_iff_eq] at h1 h2 ⊢
        rcases h1 with h1 | ⟨e1, h1⟩ <;> rcases h2 with h2 | ⟨e2, h2⟩
        · left; exact UInt8.lt_trans h1 h2
        · subst e2; left; exact h1
        · subst e1; left; exact h2
        · subst e1; subst e2; right; exact ⟨rfl, ih ys zs h1 h2⟩

theorem bytesLt_total : ∀ a b : Bytes, bytesLt a b = false → a ≠ b → bytesLt b a = true := by
  intro a
  induction a with
  | nil => intro b h hne; cases b with
    | nil => exact absurd rfl hne
    | cons y ys => simp [bytesLt] at h
  | cons x xs ih =>
    intro b h hne
    cases b with
    | nil => simp [bytesLt]
    | cons y ys =>
      simp only [bytesLt, Bool.or_eq_false_iff, decide_eq_false_iff_not, Bool.and_eq_false_iff, beq_eq_false_iff_ne] at h
      simp only [bytesLt, Bool.or_eq_true, decide_eq_true_eq, Bool.and_eq_true, beq_iff_eq]
      obtain ⟨h1, h2⟩ := h
      by_cases e : x = y
      · subst e
        right
        refine ⟨rfl, ih ys ?_ ?_⟩
        · rcases h2 with h2 | h2
          · exact absurd rfl h2
          · exact h2
        · intro e2; exact hne (by rw [e2])
      · left
        have hx : x.toNat ≠ y.toNat := fun h => e (UInt8.toNat_inj.mp h)
        have h1' : ¬ x.toNat < y.toNat := fun h => h1 (UInt8.lt_iff_toNat_lt.mpr h)
        exact UInt8.lt_iff_toNat_lt.mpr (by omega)

end Feox.Fmt
