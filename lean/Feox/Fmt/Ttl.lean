import Feox.Fmt.Abstract
/-! # Fmt.Ttl — expired-winner removal is the identity when nothing has expired -/
namespace Feox.Fmt
open Feox.Gen Feox.Proto

theorem removeExpired_none (o : Opts) (st : ScanSt)
    (h : ∀ l ∈ st.live, (decide (l.expiry > 0) && decide (o.now > l.expiry)) = false) : removeExpired o st = .ok st := by
  unfold removeExpired
  generalize st.live = ls at h
  induction ls with
  | nil => rfl
  | cons x xs ih =>
    rw [List.foldlM_cons]
    simp only [h x List.mem_cons_self, Bool.false_eq_true, ↓reduceIte, bind, Except.bind]
    exact ih (fun l hl => h l (List.mem_cons_of_mem _ hl))

theorem insertLive_mem_cases (l : Live) : ∀ (ls : List Live) (x : Live), x ∈ insertLive l ls → x = l ∨ x ∈ ls := by
  intro ls
  induction ls with
  | nil => intro x h; simp [insertLive] at h; exact Or.inl h
  | cons y ys ih =>
    intro x h
    unfold insertLive at h
    split at h
    · rcases List.mem_cons.mp h with h | h
      · exact Or.inl h
      · exact Or.inr (List.mem_cons_of_mem _ h)
    · split at h
      · rcases List.mem_cons.mp h with h | h
        · exact Or.inl h
        · exact Or.inr h
      · rcases List.mem_cons.mp h with h | h
        · exact Or.inr (h ▸ List.mem_cons_self)
        · rcases ih x h with h | h
          · exact Or.inl h
          · exact Or.inr (List.mem_cons_of_mem _ h)

theorem absorbLive_mem_cases (live : List Live) (l x : Live) (h : x ∈ absorbLive live l) : x = l ∨ x ∈ live := by
  unfold absorbLive at h
  split at h
  · split at h
    · exact Or.inr h
    · exact insertLive_mem_cases l live x h
  · exact insertLive_mem_cases l live x h

/-- every entry of the table recovery builds is one of the scanned records -/
theorem mem_fold_absorb (info : Gen → RecMeta) : ∀ (L : List Rec) (live : List Live) (x : Live),
    x ∈ L.foldl (fun lv r => absorbLive lv (liveOf info r)) live → x ∈ live ∨ ∃ r ∈ L, x = liveOf info r := by
  intro L
  induction L with
  | nil => intro live x h; exact Or.inl h
  | cons r rs ih =>
    intro live x h
    rw [List.foldl_cons] at h
    rcases ih _ x h with h | ⟨r', hr', h⟩
    · rcases absorbLive_mem_cases live _ x h with h | h
      · exact Or.inr ⟨r, List.mem_cons_self, h⟩
      · exact Or.inl h
    · exact Or.inr ⟨r', List.mem_cons_of_mem _ hr', h⟩

/-- if no scanned record has expired, no entry of the rebuilt table has -/
theorem no_expired_of_records (info : Gen → RecMeta) (now : Nat) (L : List Rec)
    (h : ∀ r ∈ L, (decide ((info r.2.1).expiry > 0) && decide (now > (info r.2.1).expiry)) = false) :
    ∀ l ∈ L.foldl (fun lv r => absorbLive lv (liveOf info r)) [], (decide (l.expiry > 0) && decide (now > l.expiry)) = false := by
  intro l hl
  rcases mem_fold_absorb info L [] l hl with h' | ⟨r, hr, rfl⟩
  · cases h'
  · exact h r hr

end Feox.Fmt
