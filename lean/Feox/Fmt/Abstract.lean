import Feox.Fmt.Recover
import Feox.Fmt.Winner
import Feox.Proto.Disk
/-!
# Fmt.Abstract — the byte-level recovery scan refines the block-level one

`Proto.Disk` reasons about a data area whose blocks are labelled zero / marker / block `i` of the
extent of generation `g` / junk; `Fmt.scan` is the recovery loop over the bytes of a device image,
branch for branch as `scan_and_rebuild_indexes` runs it.  `Rep` says which bytes a label stands
for — exactly the tests the loop makes on a block before it decides how far to jump — and
`scan_rep_tiled` proves that on an image that represents a *tiled* disk the byte-level loop

* never fails with `CorruptedRecord`, an ambiguous tombstone or an out-of-range index,
* accepts exactly the generations of the tiling, in device order (it never parses a tail block,
  bytes embedded in a value, or anything inside a marker's span), and
* ends with the table "newest timestamp wins, ties to the later extent" folded over the tiling.

The only failures left are refusals of the free-space manager (`releaseFsm`), which are the
subject of C05 / C06.  This is the missing link between the abstract theorems of C02–C05
(tilings, journal masking) and the byte-level reader that is compared with the real recovery on
every run.
-/
namespace Feox.Fmt
open Feox.Gen Feox.Proto

/-- a block the loop steps over by one: neither a marker tag nor a record head tag -/
def LooksFree (data : Bytes) : Prop :=
  data.length = BSZ ∧ slice data 0 8 ≠ DELETION_MARKER ∧ rd (slice data 0 2) ≠ SECTOR_MARKER

/-- a retirement marker the loop accepts at `sector`, claiming `r` blocks -/
def IsMark (v sector : Nat) (data : Bytes) (r : Nat) : Prop :=
  data.length = BSZ ∧ slice data 0 8 = DELETION_MARKER ∧
  (v < SEQ_TOKEN_MIN_VERSION && allZero (data.drop 8)) = false ∧
  (markerToken sector data).toNat = rd (slice data 16 2) ∧ rd (slice data 8 8) = r

/-- a record head the loop accepts at `sector`: it parses to `m`, spans `n` blocks, and (v3) its
token covers the `n` blocks that are on the image -/
def IsHead (img : Image) (v sector : Nat) (m : RecMeta) (n : Nat) : Prop :=
  let data := blockAt img sector
  data.length = BSZ ∧ slice data 0 8 ≠ DELETION_MARKER ∧ rd (slice data 0 2) = SECTOR_MARKER ∧
  headerOk v data = true ∧
  ((v < SEQ_TOKEN_MIN_VERSION && rd (slice data 2 2) != 0) || (v ≥ SEQ_TOKEN_MIN_VERSION && rd (slice data 2 2) == 0)) = false ∧
  parseRecord v data = some m ∧
  (m.key.length > MAX_KEY_SIZE || m.valueLen == 0 || m.valueLen > MAX_VALUE_SIZE) = false ∧
  extentBlocks v m.key.length m.valueLen = n ∧
  (v ≥ SEQ_TOKEN_MIN_VERSION && rd (slice data 2 2) != (extentToken img sector n).toNat) = false

/-- the image represents the labelled disk between `lo` and `total` -/
def Rep (img : Image) (v lo total : Nat) (info : Gen → RecMeta) (d : Disk) : Prop :=
  ∀ p, lo ≤ p → p < total →
    match d p with
    | .zero => LooksFree (blockAt img p)
    | .mark r => IsMark v p (blockAt img p) r ∧ p + r < 2 ^ 64
    | .data g 0 n => IsHead img v p (info g) n
    | .data _ (_ + 1) _ => True
    | .junk => True

/-- what the table does with one accepted generation: newest timestamp wins, a tie goes to the
generation scanned later -/
def absorbLive (live : List Live) (l : Live) : List Live :=
  match findLive l.key live with
  | some ex => if ex.ts > l.ts then live else insertLive l live
  | none => insertLive l live

def liveOf (info : Gen → RecMeta) (r : Rec) : Live :=
  let m := info r.2.1
  ⟨m.key, m.ts, m.expiry, m.valueLen, r.1, r.2.2⟩

def NotFormatErr (e : RErr) : Prop :=
  e ≠ .CorruptedRecord ∧ e ≠ .AmbiguousLegacyTombstone ∧ ∀ w, e ≠ .panic w

theorem fsmErr_notFormat (e : Fsm.Err) : NotFormatErr (fsmErr e) := by
  cases e <;> simp [NotFormatErr, fsmErr]

theorem releaseFsm_err {f : Fsm.State} {a n : Nat} {e : RErr} (h : releaseFsm f a n = .error e) : NotFormatErr e := by
  unfold releaseFsm at h
  split at h
  · cases h
  · cases h; exact fsmErr_notFormat _

/-- what the theorem says about the outcome of the loop started in `st` on a tiling `L` -/
def GoodOutcome (info : Gen → RecMeta) (L : List Rec) (st : ScanSt) : Except RErr ScanSt → Prop
  | .ok st' =>
    st'.clock = st.clock ++ L.map (fun r => ((info r.2.1).key, (info r.2.1).ts)) ∧
    st'.live = L.foldl (fun lv r => absorbLive lv (liveOf info r)) st.live
  | .error e => NotFormatErr e

/-! ### one iteration of the loop on each kind of block -/

theorem scan_step_free {img : Image} {v total : Nat} {o : Opts} {journal : List (Nat × Nat)} {p : Nat} {st : ScanSt}
    (hro : o.readOnly = false) (hlt : p < total) (hf : LooksFree (blockAt img p)) :
    scan img v total o journal p st = scan img v total o journal (p + 1) st := by
  obtain ⟨hlen, htag, hsm⟩ := hf
  rw [scan]
  simp [hro, hlt, hlen, htag, hsm]


/-- the state after an accepted marker: a pending / incomplete one is queued for repair -/
def markSt (img : Image) (o : Opts) (p r : Nat) (st : ScanSt) : ScanSt :=
  let data := blockAt img p
  let needsRepair := rd (slice data 18 1) != RETIREMENT_COMPLETE || (r > 1 && !tailsComplete img p r)
  if needsRepair && !o.readOnly then { st with retired := st.retired ++ [(p, r)] } else st

theorem markSt_clock (img : Image) (o : Opts) (p r : Nat) (st : ScanSt) : (markSt img o p r st).clock = st.clock := by
  unfold markSt; simp only []; split <;> rfl

theorem markSt_live (img : Image) (o : Opts) (p r : Nat) (st : ScanSt) : (markSt img o p r st).live = st.live := by
  unfold markSt; simp only []; split <;> rfl

theorem scan_step_mark {img : Image} {v total : Nat} {o : Opts} {journal : List (Nat × Nat)} {p r : Nat} {st : ScanSt}
    (hro : o.readOnly = false) (hlt : p < total) (hm : IsMark v p (blockAt img p) r) (h64 : p + r < 2 ^ 64)
    (h0 : 0 < r) (hb : p + r ≤ total) :
    scan img v total o journal p st = scan img v total o journal (p + r) (markSt img o p r st) := by
  obtain ⟨hlen, htag, hleg, htok, hr⟩ := hm
  rw [scan]
  have h1 : ¬ (r = 0 ∨ p + r > total) := by omega
  have h2 : ¬ (p + r ≥ 2 ^ 64) := by omega
  simp [hro, hlt, hlen, htag, hleg, htok, hr, h1, h2, markSt]


/-- the loop's handling of an accepted record head (`m`, `needed` blocks) at `sector` -/
def recStep (img : Image) (v total : Nat) (o : Opts) (journal : List (Nat × Nat)) (sector needed : Nat)
    (m : RecMeta) (st : ScanSt) : Except RErr ScanSt :=
  let st := { st with clock := st.clock ++ [(m.key, m.ts)] }
  match findLive m.key st.live with
  | some ex =>
    if ex.ts > m.ts then
      let st := if !o.readOnly then { st with retired := st.retired ++ [(sector, needed)] } else st
      scan img v total o journal (sector + needed) st
    else
      match releaseFsm st.fsm ex.sector ex.blocks with
      | .error e => .error e
      | .ok f1 =>
        let st := { st with
          fsm := f1
          memory := st.memory - (o.recSize + ex.key.length + ex.valueLen)
          disk := st.disk - ex.blocks * BSZ
          retired := if !o.readOnly then st.retired ++ [(ex.sector, ex.blocks)] else st.retired }
        match (if sector > st.lastEnd then releaseFsm st.fsm st.lastEnd (sector - st.lastEnd) else .ok st.fsm) with
        | .error e => .error e
        | .ok f2 =>
          let l : Live := ⟨m.key, m.ts, m.expiry, m.valueLen, sector, needed⟩
          scan img v total o journal (sector + needed) { st with
            fsm := f2, lastEnd := sector + needed, live := insertLive l st.live
            memory := st.memory + (o.recSize + m.key.length + m.valueLen)
            disk := st.disk + needed * BSZ }
  | none =>
    match (if sector > st.lastEnd then releaseFsm st.fsm st.lastEnd (sector - st.lastEnd) else .ok st.fsm) with
    | .error e => .error e
    | .ok f2 =>
      let l : Live := ⟨m.key, m.ts, m.expiry, m.valueLen, sector, needed⟩
      scan img v total o journal (sector + needed) { st with
        fsm := f2, lastEnd := sector + needed, live := insertLive l st.live
        count := st.count + 1
        memory := st.memory + (o.recSize + m.key.length + m.valueLen)
        disk := st.disk + needed * BSZ }

theorem scan_step_rec {img : Image} {v total : Nat} {o : Opts} {journal : List (Nat × Nat)} {p n : Nat} {st : ScanSt} {m : RecMeta}
    (hro : o.readOnly = false) (hlt : p < total) (hh : IsHead img v p m n) (h0 : 0 < n) (hb : p + n ≤ total) :
    scan img v total o journal p st = recStep img v total o journal p n m st := by
  obtain ⟨hlen, htag, hsm, hok, hseq, hparse, hlim, hext, htok⟩ := hh
  rw [scan]
  have h1 : ¬ (n = 0 ∨ p + n > total) := by omega
  subst hext
  simp [hro, hlt, hlen, htag, hsm, hok, hseq, hparse, hlim, htok, h1, recStep]
  rfl


/-! ### the refinement theorem -/

theorem GoodOutcome.congr {info : Gen → RecMeta} {L : List Rec} {st st2 : ScanSt} {out : Except RErr ScanSt}
    (hc : st2.clock = st.clock) (hl : st2.live = st.live) (h : GoodOutcome info L st2 out) : GoodOutcome info L st out := by
  cases out with
  | error e => exact h
  | ok st' => simp only [GoodOutcome] at h ⊢; rw [hc, hl] at h; exact h

theorem GoodOutcome.cons {info : Gen → RecMeta} {L : List Rec} {r : Rec} {st st2 : ScanSt} {out : Except RErr ScanSt}
    (hc : st2.clock = st.clock ++ [((info r.2.1).key, (info r.2.1).ts)])
    (hl : st2.live = absorbLive st.live (liveOf info r))
    (h : GoodOutcome info L st2 out) : GoodOutcome info (r :: L) st out := by
  cases out with
  | error e => exact h
  | ok st' =>
    simp only [GoodOutcome] at h ⊢
    rw [hc, hl] at h
    simp only [List.map_cons, List.foldl_cons]
    refine ⟨?_, h.2⟩
    rw [h.1, List.append_assoc]; rfl

/-- **The byte-level scan of an image that represents a tiled disk** accepts exactly the
generations of the tiling, in order, keeps the newest of each key, and can fail only where the
free-space manager refuses a release. -/
theorem scan_rep_tiled {img : Image} {v lo total : Nat} {o : Opts} {journal : List (Nat × Nat)}
    {info : Gen → RecMeta} {d : Disk} (hro : o.readOnly = false) (hrep : Rep img v lo total info d) :
    ∀ (fuel p : Nat) (L : List Rec) (st : ScanSt), total - p ≤ fuel → lo ≤ p → TiledBy d total L p →
      GoodOutcome info L st (scan img v total o journal p st) := by
  intro fuel
  induction fuel with
  | zero =>
    intro p L st hf hlo ht
    cases ht with
    | done hp =>
      have : ¬ p < total := by omega
      rw [scan]; simp [this, GoodOutcome]
    | free hp _ _ _ => omega
    | recd hint hb _ => have := hint.1; omega
  | succ fuel ih =>
    intro p L st hf hlo ht
    cases ht with
    | done hp =>
      have : ¬ p < total := by omega
      rw [scan]; simp [this, GoodOutcome]
    | free hp hfl hmk ht' =>
      have hr := hrep p hlo hp
      rcases hfl with hz | ⟨r, hm⟩
      · rw [hz] at hr
        rw [scan_step_free hro hp hr]
        exact ih (p + 1) L st (by omega) (by omega) ht'
      · rw [hm] at hr
        obtain ⟨hmark, h64⟩ := hr
        obtain ⟨h0, hb, hspan⟩ := hmk r hm
        rw [scan_step_mark hro hp hmark h64 h0 hb]
        have hsk := (TiledBy.free hp (Or.inr ⟨r, hm⟩) hmk ht').skip r hb (by
          intro q h1 h2
          by_cases hq : q = p
          · subst hq; exact Or.inr ⟨r, hm⟩
          · exact hspan q (by omega) h2)
        exact GoodOutcome.congr (markSt_clock img o p r st) (markSt_live img o p r st)
          (ih (p + r) L (markSt img o p r st) (by omega) (by omega) hsk)
    | recd hint hb ht' =>
      rename_i L' g n
      have hp : p < total := by have := hint.1; omega
      have hr := hrep p hlo hp
      have hd0 := hint.2 0 hint.1
      simp only [Nat.add_zero] at hd0
      rw [hd0] at hr
      rw [scan_step_rec hro hp hr hint.1 hb]
      have hnext : total - (p + n) ≤ fuel := by have := hint.1; omega
      have hlo' : lo ≤ p + n := by omega
      simp only [recStep, hro, Bool.not_false, ↓reduceIte]
      split
      · rename_i ex hex
        split
        · rename_i hnewer
          refine GoodOutcome.cons (r := (p, g, n)) ?_ ?_ (ih (p + n) L' _ hnext hlo' ht')
          · rfl
          · have : absorbLive st.live (liveOf info (p, g, n)) = st.live := by
              simp only [absorbLive, liveOf, hex, hnewer, ↓reduceIte]
            rw [this]
        · rename_i hnot
          split
          · rename_i e he; exact releaseFsm_err he
          · rename_i f1 hf1
            split
            · rename_i e he
              split at he
              · exact releaseFsm_err he
              · cases he
            · rename_i f2 hf2
              refine GoodOutcome.cons (r := (p, g, n)) ?_ ?_ (ih (p + n) L' _ hnext hlo' ht')
              · rfl
              · simp only [absorbLive, liveOf, hex, hnot, ↓reduceIte]
      · rename_i hex
        split
        · rename_i e he
          split at he
          · exact releaseFsm_err he
          · cases he
        · rename_i f2 hf2
          refine GoodOutcome.cons (r := (p, g, n)) ?_ ?_ (ih (p + n) L' _ hnext hlo' ht')
          · rfl
          · simp only [absorbLive, liveOf, hex]

end Feox.Fmt
