import Feox.Fmt.CrashedTxn
import Feox.Fmt.Expiry
import Feox.Fmt.Blank
/-!
# Fmt.Found — after a crashed open every surviving record is found under its key

`findLive_fold_of_nodup`: in the table folded from records with pairwise different keys each record is the
entry of its key.  With the whole-open theorems: after a crashed write transaction every acknowledged record
(`acknowledged_key_found_after_crashed_open`), after a crashed retirement every record that was not being
retired (`unretired_key_found_after_crashed_retirement`), with its timestamp, expiry, length and sector.
-/
namespace Feox.Fmt
open Feox.Gen Feox.Proto

theorem nodup_of_map' {α β : Type} (f : α → β) : ∀ {l : List α}, (l.map f).Nodup → l.Nodup := by
  intro l
  induction l with
  | nil => intro _; exact List.nodup_nil
  | cons x xs ih =>
    intro h
    rw [List.map_cons, List.nodup_cons] at h
    rw [List.nodup_cons]
    exact ⟨fun hx => h.1 (List.mem_map.mpr ⟨x, hx, rfl⟩), ih h.2⟩

theorem nodup_map_inj {α β : Type} (f : α → β) : ∀ {l : List α}, (l.map f).Nodup → ∀ a ∈ l, ∀ b ∈ l, f a = f b → a = b := by
  intro l
  induction l with
  | nil => intro _ a ha; cases ha
  | cons x xs ih =>
    intro h a ha b hb hab
    rw [List.map_cons, List.nodup_cons] at h
    rcases List.mem_cons.mp ha with rfl | ha'
    · rcases List.mem_cons.mp hb with rfl | hb'
      · rfl
      · exact absurd (List.mem_map.mpr ⟨b, hb', hab.symm⟩) h.1
    · rcases List.mem_cons.mp hb with rfl | hb'
      · exact absurd (List.mem_map.mpr ⟨a, ha', hab⟩) h.1
      · exact ih h.2 a ha' b hb' hab

/-- in a table folded from records with pairwise different keys every record is found under its key -/
theorem findLive_fold_of_nodup (info : Gen → RecMeta) (L : List Rec)
    (hnd : (L.map (fun r => (info r.2.1).key)).Nodup) (r : Rec) (hr : r ∈ L) :
    findLive (info r.2.1).key (L.foldl (fun lv r => absorbLive lv (liveOf info r)) []) = some (liveOf info r) := by
  have hfold : L.foldl (fun lv r => absorbLive lv (liveOf info r)) [] = (L.map (liveOf info)).foldl absorbLive [] := by
    rw [List.foldl_map]
  rw [hfold]
  have hkey : ∀ x : Rec, (liveOf info x).key = (info x.2.1).key := fun _ => rfl
  have hmapnd : (L.map (liveOf info)).Nodup := by
    have : (L.map (fun r => (info r.2.1).key)) = (L.map (liveOf info)).map (·.key) := by
      rw [List.map_map]; rfl
    rw [this] at hnd
    exact nodup_of_map' _ hnd
  have := findLive_fold_unique (L.map (liveOf info)) [] (liveOf info r) (List.mem_map.mpr ⟨r, hr, rfl⟩)
    (by
      intro x hx hk
      obtain ⟨r', hr', rfl⟩ := List.mem_map.mp hx
      have hinj := nodup_map_inj (fun r => (info r.2.1).key) hnd r' hr' r hr (by simpa [hkey] using hk)
      rw [hinj])
    hmapnd (by simp [findLive])
  simpa [hkey] using this


/-- **Every acknowledged record is found again after the crashed open** (C02 on the bytes, whole open).
`img0`: the device after the last acknowledged flush; a later write transaction (extents that were free,
allocated from the front of free runs) crashed or failed anywhere.  For every record `r` of the
acknowledged state, `recoverImage` of the device as it stands succeeds and its table has, under `r`'s
key, exactly `r`: same timestamp, expiry, value length, and the sector the acknowledged bytes are at. -/
theorem acknowledged_key_found_after_crashed_open (img0 img : Image) (size : Nat) (o : Opts) (info : Gen → RecMeta) (d0 : Disk)
    (L : List Rec) (md : Meta) (js : JournalState) (co : List (Nat × Nat))
    (hro : o.readOnly = false)
    (hsize : validDeviceSize size = true) (himg : img.size * BSZ = size)
    (hsig : slice (selectMeta (blockAt img FEOX_METADATA_BLOCK) (blockAt img FEOX_METADATA_BACKUP_BLOCK)) 0 FEOX_SIGNATURE_SIZE = FEOX_SIGNATURE)
    (hmd : Meta.decode (selectMeta (blockAt img FEOX_METADATA_BLOCK) (blockAt img FEOX_METADATA_BACKUP_BLOCK)) = some md)
    (hjs : decodeJournal ((List.range ALLOCATION_JOURNAL_BLOCKS).flatMap fun i => blockAt img (ALLOCATION_JOURNAL_START_BLOCK + i)) (size / BSZ) = .ok js)
    (hne : js.extents.isEmpty = false) (hco : coalesceExtents js.extents = some co)
    (hrep : Rep img0 md.version FEOX_DATA_START_BLOCK (size / BSZ) info d0) (ht : TiledBy d0 (size / BSZ) L FEOX_DATA_START_BLOCK)
    (htot0 : size / BSZ ≤ img0.size)
    (hclean : MarksClean img0 FEOX_DATA_START_BLOCK (size / BSZ) d0)
    (hx : ∀ e ∈ js.extents, 0 < e.2 ∧ FEOX_DATA_START_BLOCK ≤ e.1 ∧ e.1 + e.2 ≤ size / BSZ ∧
      (∀ q, e.1 ≤ q → q < e.1 + e.2 → FLs d0 q) ∧
      (e.1 = FEOX_DATA_START_BLOCK ∨ ¬ FLs d0 (e.1 - 1) ∨ inExt js.extents (e.1 - 1)))
    (hagree : ∀ q, FEOX_DATA_START_BLOCK ≤ q → ¬ inExt js.extents q → blockAt img q = blockAt img0 q)
    (hnd : (L.map (fun r => (info r.2.1).key)).Nodup)
    (hexp : o.ttlOn = true → ∀ l ∈ L.foldl (fun lv r => absorbLive lv (liveOf info r)) [],
      (decide (l.expiry > 0) && decide (o.now > l.expiry)) = false)
    (r : Rec) (hr : r ∈ L) :
    ∃ rec, (recoverImage img size o).result = .ok rec ∧ findLive (info r.2.1).key rec.live = some (liveOf info r) := by
  obtain ⟨rec, _, h1, _, _, _, h5⟩ := recover_crashed_front_write img0 img size o info d0 L md js co hro hsize himg
    (not_blank_of_signature img hsig) hsig hmd hjs hne hco hrep ht htot0 hclean hx hagree hnd hexp
  exact ⟨rec, h1, by rw [h5]; exact findLive_fold_of_nodup info L hnd r hr⟩


/-- **After a crashed retirement every record that was not being retired is found under its key**, and the
table is folded over no journalled record (`survivors_of_retirement`). -/
theorem unretired_key_found_after_crashed_retirement (img0 img : Image) (size : Nat) (o : Opts) (info : Gen → RecMeta) (d0 : Disk)
    (L : List Rec) (md : Meta) (js : JournalState) (co : List (Nat × Nat))
    (hro : o.readOnly = false)
    (hsize : validDeviceSize size = true) (himg : img.size * BSZ = size)
    (hsig : slice (selectMeta (blockAt img FEOX_METADATA_BLOCK) (blockAt img FEOX_METADATA_BACKUP_BLOCK)) 0 FEOX_SIGNATURE_SIZE = FEOX_SIGNATURE)
    (hmd : Meta.decode (selectMeta (blockAt img FEOX_METADATA_BLOCK) (blockAt img FEOX_METADATA_BACKUP_BLOCK)) = some md)
    (hjs : decodeJournal ((List.range ALLOCATION_JOURNAL_BLOCKS).flatMap fun i => blockAt img (ALLOCATION_JOURNAL_START_BLOCK + i)) (size / BSZ) = .ok js)
    (hne : js.extents.isEmpty = false) (hco : coalesceExtents js.extents = some co)
    (hrep : Rep img0 md.version FEOX_DATA_START_BLOCK (size / BSZ) info d0) (ht : TiledBy d0 (size / BSZ) L FEOX_DATA_START_BLOCK)
    (htot0 : size / BSZ ≤ img0.size)
    (hclean : MarksClean img0 FEOX_DATA_START_BLOCK (size / BSZ) d0)
    (hx : ∀ e ∈ js.extents, ∃ r ∈ L, r.1 = e.1 ∧ r.2.2 = e.2)
    (hagree : ∀ q, FEOX_DATA_START_BLOCK ≤ q → ¬ inExt js.extents q → blockAt img q = blockAt img0 q)
    (hnd : ((filterRuns L (co.map toRun)).map (fun r => (info r.2.1).key)).Nodup)
    (hexp : o.ttlOn = true → ∀ l ∈ (filterRuns L (co.map toRun)).foldl (fun lv r => absorbLive lv (liveOf info r)) [],
      (decide (l.expiry > 0) && decide (o.now > l.expiry)) = false)
    (r : Rec) (hr : r ∈ L) (hnot : ¬ ∃ e ∈ js.extents, e.1 = r.1 ∧ e.2 = r.2.2) :
    ∃ rec, (recoverImage img size o).result = .ok rec ∧ findLive (info r.2.1).key rec.live = some (liveOf info r) := by
  obtain ⟨rec, _, h1, _, _, _, h5⟩ := recover_crashed_retirement img0 img size o info d0 L md js co hro hsize himg
    (not_blank_of_signature img hsig) hsig hmd hjs hne hco hrep ht htot0 hx hagree
    (fun p r h1 h2 _ hm => hclean p r h1 h2 hm) hnd hexp
  have hmem := (survivors_of_retirement ht js.extents co hco hx r).mpr ⟨hr, hnot⟩
  exact ⟨rec, h1, by rw [h5]; exact findLive_fold_of_nodup info _ hnd r hmem⟩

end Feox.Fmt
