import Feox.Fmt.Newest
import Feox.Fmt.Commit
/-!
# Fmt.Idem — retiring generations that lost changes nothing a key shows

Recovery retires, on the device, the generations that lost the newest-timestamp comparison.  Per key,
the table of a later scan is the same: dropping from the scanned list any generations other than the
one a key ends up showing leaves what the key shows unchanged (`fold_filter_same`).  With
`retire_region` this is the restartability / idempotence of recovery's repair writes on the bytes.
-/
namespace Feox.Fmt
open Feox.Gen Feox.Proto

theorem winner_snoc (k : Bytes) (xs : List Live) (x : Live) (w0 : Option Live) :
    (xs ++ [x]).foldl (winnerStep k) w0 = winnerStep k (xs.foldl (winnerStep k) w0) x := by
  simp [List.foldl_append]

/-- dropping generations that do not end up shown does not change what the key shows -/
theorem winner_filter_same (k : Bytes) (keep : Live → Bool) : ∀ (n : Nat) (ls : List Live), ls.length = n →
    (∀ w, ls.foldl (winnerStep k) none = some w → keep w = true) →
    (ls.filter keep).foldl (winnerStep k) none = ls.foldl (winnerStep k) none := by
  intro n
  induction n with
  | zero =>
    intro ls hl _
    have : ls = [] := List.length_eq_zero_iff.mp hl
    subst this; rfl
  | succ n ih =>
    intro ls hl hkeep
    rcases List.eq_nil_or_concat ls with rfl | ⟨ys, x, rfl⟩
    · rfl
    rw [List.concat_eq_append] at hl hkeep ⊢
    have hlen : ys.length = n := by simp at hl; omega
    rw [winner_snoc] at hkeep ⊢
    rw [List.filter_append]
    have hfull := winner_fold k ys none
    have hfilt := winner_fold k (ys.filter keep) none
    by_cases hk : x.key = k
    · -- x is a generation of k
      cases hW : ys.foldl (winnerStep k) none with
      | none =>
        -- no generation of k before x: x is shown; it is kept
        rw [hW] at hkeep hfull
        have hx : keep x = true := hkeep x (by simp [winnerStep, hk])
        have hnone : (ys.filter keep).foldl (winnerStep k) none = none := by
          cases hF : (ys.filter keep).foldl (winnerStep k) none with
          | none => rfl
          | some e =>
            rw [hF] at hfilt
            simp only at hfilt hfull
            rcases hfilt.1 with h | h
            · cases h
            · exact absurd h.2 (hfull.2 e (List.mem_filter.mp h.1).1)
        simp only [List.filter_cons, hx, ↓reduceIte, List.filter_nil]
        rw [winner_snoc, hnone]
      | some e =>
        rw [hW] at hkeep hfull
        simp only at hfull
        by_cases hnew : e.ts > x.ts
        · -- e stays shown
          have he : keep e = true := hkeep e (by simp [winnerStep, hk, hnew])
          have hih := ih ys hlen (by intro w hw; rw [hW] at hw; cases hw; exact he)
          rw [hW] at hih
          by_cases hx : keep x = true
          · simp only [List.filter_cons, hx, ↓reduceIte, List.filter_nil]
            rw [winner_snoc, hih]
          · have hx' : keep x = false := by simpa using hx
            simp only [List.filter_cons, hx', Bool.false_eq_true, ↓reduceIte, List.filter_nil, List.append_nil]
            rw [hih]
            simp [winnerStep, hk, hnew]
        · -- x replaces e: x is shown and kept; whatever the filtered prefix shows is not newer than x
          have hx : keep x = true := hkeep x (by simp [winnerStep, hk, hnew])
          simp only [List.filter_cons, hx, ↓reduceIte, List.filter_nil]
          rw [winner_snoc]
          have hstep : winnerStep k (some e) x = some x := by simp [winnerStep, hk, hnew]
          rw [hstep]
          cases hF : (ys.filter keep).foldl (winnerStep k) none with
          | none => simp [winnerStep, hk]
          | some f =>
            rw [hF] at hfilt
            simp only at hfilt
            rcases hfilt.1 with h | h
            · cases h
            · have hfle := hfull.2.2 f (List.mem_filter.mp h.1).1 h.2
              have : ¬ f.ts > x.ts := by omega
              simp [winnerStep, hk, this]
    · -- x is not a generation of k: it changes nothing on either side
      have hstepF : ∀ w, winnerStep k w x = w := by intro w; simp [winnerStep, hk]
      rw [hstepF] at hkeep ⊢
      have hih := ih ys hlen hkeep
      by_cases hx : keep x = true
      · simp only [List.filter_cons, hx, ↓reduceIte, List.filter_nil]
        rw [winner_snoc, hstepF, hih]
      · have hx' : keep x = false := by simpa using hx
        simp only [List.filter_cons, hx', Bool.false_eq_true, ↓reduceIte, List.filter_nil, List.append_nil]
        exact hih

/-- **Retiring losers changes nothing a key shows** (table level) -/
theorem fold_filter_same (k : Bytes) (ls : List Live) (keep : Live → Bool)
    (hkeep : ∀ w, findLive k (ls.foldl absorbLive []) = some w → keep w = true) :
    findLive k ((ls.filter keep).foldl absorbLive []) = findLive k (ls.foldl absorbLive []) := by
  rw [findLive_fold, findLive_fold] at *
  have h0 : findLive k ([] : List Live) = none := by simp [findLive]
  rw [h0] at *
  exact winner_filter_same k keep ls.length ls rfl hkeep

end Feox.Fmt
