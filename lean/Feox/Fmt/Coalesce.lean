import Feox.Fmt.MarksReplay
/-!
# Fmt.Coalesce — `coalesce_extents`, and the crashed open in terms of what was journalled

`coalesceSorted_spec` / `coalesceExtents_spec`: when `coalesce_extents` accepts the journalled extents the
runs it returns are positive, pairwise separated, inside the same bounds, still made of whole tiles
(merging two adjacent aligned extents stays aligned) and cover exactly the journalled blocks.  `replayIo_ok`:
the replay cannot fail then.  `recover_crashed_device_journalled` restates `recover_crashed_device` with
every hypothesis about the runs replaced by one about the extents the store journalled.
-/
namespace Feox.Fmt
open Feox.Gen Feox.Proto

def inExt (l : List (Nat × Nat)) (q : Nat) : Prop := ∃ r ∈ l, r.1 ≤ q ∧ q < r.1 + r.2

theorem mem_insertSorted (e : Nat × Nat) (l : List (Nat × Nat)) (r : Nat × Nat) : r ∈ insertSorted e l ↔ r = e ∨ r ∈ l := by
  induction l with
  | nil => simp [insertSorted]
  | cons x xs ih =>
    unfold insertSorted
    split
    · simp
    · simp only [List.mem_cons, ih]
      constructor
      · rintro (h | h | h)
        · exact Or.inr (Or.inl h)
        · exact Or.inl h
        · exact Or.inr (Or.inr h)
      · rintro (h | h | h)
        · exact Or.inr (Or.inl h)
        · exact Or.inl h
        · exact Or.inr (Or.inr h)

theorem mem_sortByStart (es : List (Nat × Nat)) (r : Nat × Nat) : r ∈ sortByStart es ↔ r ∈ es := by
  unfold sortByStart
  induction es with
  | nil => simp
  | cons x xs ih => simp only [List.foldr_cons, mem_insertSorted, ih, List.mem_cons]

theorem aligned_merge {L : List Rec} {s m e : Nat} (h1 : Aligned L s m) (h2 : Aligned L m e) (hsm : s ≤ m) (hme : m ≤ e) :
    Aligned L s e := by
  intro r hr
  have a := h1 r hr
  have b := h2 r hr
  omega

/-- what `coalesce_extents` returns for a (sorted) list it accepts: positive, pairwise separated, in order;
every run is a union of input extents — so any property of extents that survives merging adjacent ones
(here: bounds and alignment to a tiling) holds of the runs; and the runs cover exactly the blocks of the
input -/
theorem coalesceSorted_spec (L : List Rec) (lo total : Nat) : ∀ (l co : List (Nat × Nat)), coalesceSorted l = some co →
    (∀ r ∈ l, lo ≤ r.1 ∧ r.1 + r.2 ≤ total ∧ Aligned L r.1 (r.1 + r.2)) →
    (∀ r ∈ co, 0 < r.2 ∧ lo ≤ r.1 ∧ r.1 + r.2 ≤ total ∧ Aligned L r.1 (r.1 + r.2)) ∧
    co.Pairwise (fun a b => a.1 + a.2 ≤ b.1) ∧
    (∀ a, l.head? = some a → ∃ c, co.head? = some c ∧ c.1 = a.1) ∧
    (∀ q, inExt co q ↔ inExt l q) := by
  intro l
  fun_induction coalesceSorted l with
  | case1 =>
    intro co h _
    cases h
    exact ⟨fun r hr => (by cases hr), List.Pairwise.nil, fun a h => (by cases h), fun q => Iff.rfl⟩
  | case2 a hz =>
    intro co h _; cases h
  | case3 a hz =>
    intro co h hl
    cases h
    have := hl a List.mem_cons_self
    have hp : 0 < a.2 := by
      rcases Nat.eq_zero_or_pos a.2 with h0 | h0
      · simp [h0] at hz
      · exact h0
    refine ⟨fun r hr => ?_, List.pairwise_singleton _ _, fun a' h => ⟨a, rfl, (by cases h; rfl)⟩, fun q => Iff.rfl⟩
    rw [List.mem_singleton] at hr
    subst hr
    exact ⟨hp, this⟩
  | case4 a b rest hz => intro co h _; cases h
  | case5 a b rest hz hov => intro co h _; cases h
  | case6 a b rest hz hov hadj hbz => intro co h _; cases h
  | case7 a b rest hz hov hadj hbz ih =>
    intro co h hl
    have hadj' : b.1 = a.1 + a.2 := by simpa using hadj
    have ha := hl a List.mem_cons_self
    have hb := hl b (List.mem_cons_of_mem _ List.mem_cons_self)
    obtain ⟨i1, i2, i3, i4⟩ := ih co h (by
      intro r hr
      rcases List.mem_cons.mp hr with rfl | hr'
      · simp only
        refine ⟨ha.1, by omega, ?_⟩
        have := aligned_merge ha.2.2 (by rw [← hadj']; exact hb.2.2) (by omega) (by omega)
        rw [show a.1 + (a.2 + b.2) = b.1 + b.2 by omega]
        exact this
      · exact hl r (List.mem_cons_of_mem _ (List.mem_cons_of_mem _ hr')))
    refine ⟨i1, i2, fun a' h' => ?_, fun q => ?_⟩
    · cases h'
      obtain ⟨c, hc, hc1⟩ := i3 _ rfl
      exact ⟨c, hc, hc1⟩
    · rw [i4 q]
      constructor
      · rintro ⟨r, hr, h1, h2⟩
        rcases List.mem_cons.mp hr with rfl | hr'
        · simp only at h1 h2
          by_cases hq : q < a.1 + a.2
          · exact ⟨a, List.mem_cons_self, h1, hq⟩
          · exact ⟨b, List.mem_cons_of_mem _ List.mem_cons_self, by omega, by omega⟩
        · exact ⟨r, List.mem_cons_of_mem _ (List.mem_cons_of_mem _ hr'), h1, h2⟩
      · rintro ⟨r, hr, h1, h2⟩
        rcases List.mem_cons.mp hr with rfl | hr'
        · exact ⟨_, List.mem_cons_self, h1, by simp only; omega⟩
        · rcases List.mem_cons.mp hr' with rfl | hr''
          · exact ⟨_, List.mem_cons_self, by simp only; omega, by simp only; omega⟩
          · exact ⟨r, List.mem_cons_of_mem _ hr'', h1, h2⟩
  | case8 a b rest hz hov hadj ih =>
    intro co h hl
    cases hrest : coalesceSorted (b :: rest) with
    | none => rw [hrest] at h; cases h
    | some co' =>
      rw [hrest] at h
      simp only [Option.map_some, Option.some.injEq] at h
      subst h
      have ha := hl a List.mem_cons_self
      have hp : 0 < a.2 := by
        rcases Nat.eq_zero_or_pos a.2 with h0 | h0
        · simp [h0] at hz
        · exact h0
      obtain ⟨i1, i2, i3, i4⟩ := ih co' hrest (fun r hr => hl r (List.mem_cons_of_mem _ hr))
      obtain ⟨c, hc, hc1⟩ := i3 b rfl
      have hgap : a.1 + a.2 ≤ b.1 := by
        have h1 : ¬ b.1 < a.1 + a.2 := by simpa using hov
        omega
      refine ⟨fun r hr => ?_, ?_, fun a' h' => ⟨a, rfl, (by cases h'; rfl)⟩, fun q => ?_⟩
      · rcases List.mem_cons.mp hr with rfl | hr'
        · exact ⟨hp, ha⟩
        · exact i1 r hr'
      · rw [List.pairwise_cons]
        refine ⟨fun r hr => ?_, i2⟩
        -- every run of co' starts at or after its head, which starts at b.1
        cases co' with
        | nil => cases hr
        | cons c' cs =>
          simp only [List.head?_cons, Option.some.injEq] at hc
          subst hc
          rcases List.mem_cons.mp hr with rfl | hr'
          · omega
          · rw [List.pairwise_cons] at i2
            have := i2.1 r hr'
            have := (i1 _ List.mem_cons_self).1
            omega
      · constructor
        · rintro ⟨r, hr, h1, h2⟩
          rcases List.mem_cons.mp hr with rfl | hr'
          · exact ⟨r, List.mem_cons_self, h1, h2⟩
          · obtain ⟨r', hr'', h3⟩ := (i4 q).mp ⟨r, hr', h1, h2⟩
            exact ⟨r', List.mem_cons_of_mem _ hr'', h3⟩
        · rintro ⟨r, hr, h1, h2⟩
          rcases List.mem_cons.mp hr with rfl | hr'
          · exact ⟨r, List.mem_cons_self, h1, h2⟩
          · obtain ⟨r', hr'', h3⟩ := (i4 q).mpr ⟨r, hr', h1, h2⟩
            exact ⟨r', List.mem_cons_of_mem _ hr'', h3⟩

theorem inExt_sort (es : List (Nat × Nat)) (q : Nat) : inExt (sortByStart es) q ↔ inExt es q := by
  unfold inExt
  constructor <;> rintro ⟨r, hr, h⟩
  · exact ⟨r, (mem_sortByStart es r).mp hr, h⟩
  · exact ⟨r, (mem_sortByStart es r).mpr hr, h⟩

theorem inRuns_toRun (co : List (Nat × Nat)) (q : Nat) : inRuns (co.map toRun) q ↔ inExt co q := by
  unfold inRuns inExt
  constructor
  · rintro ⟨r, hr, h⟩
    obtain ⟨e, he, rfl⟩ := List.mem_map.mp hr
    exact ⟨e, he, h⟩
  · rintro ⟨e, he, h⟩
    exact ⟨toRun e, List.mem_map.mpr ⟨e, he, rfl⟩, h⟩

/-- `coalesce_extents` of the journalled extents: positive, separated runs inside the same bounds, aligned
to the same tiling, covering exactly the journalled blocks -/
theorem coalesceExtents_spec (L : List Rec) (lo total : Nat) (es co : List (Nat × Nat)) (h : coalesceExtents es = some co)
    (hes : ∀ r ∈ es, lo ≤ r.1 ∧ r.1 + r.2 ≤ total ∧ Aligned L r.1 (r.1 + r.2)) :
    (∀ r ∈ co, 0 < r.2 ∧ lo ≤ r.1 ∧ r.1 + r.2 ≤ total ∧ Aligned L r.1 (r.1 + r.2)) ∧
    co.Pairwise (fun a b => a.1 + a.2 ≤ b.1 ∨ b.1 + b.2 ≤ a.1) ∧
    (∀ q, inRuns (co.map toRun) q ↔ inExt es q) := by
  unfold coalesceExtents at h
  obtain ⟨i1, i2, _, i4⟩ := coalesceSorted_spec L lo total (sortByStart es) co h
    (fun r hr => hes r ((mem_sortByStart es r).mp hr))
  exact ⟨i1, i2.imp (fun h => Or.inl h), fun q => by rw [inRuns_toRun, i4 q, inExt_sort]⟩

/-- the replay cannot fail once the journalled extents coalesce -/
theorem replayIo_ok (p : JPos) (es co : List (Nat × Nat)) (hne : es.isEmpty = false) (hco : coalesceExtents es = some co) :
    ∃ io1, replayIo p es = .ok (io1, p.next) := by
  unfold replayIo
  have hg : (p.next.gen == 0) = false := by simp [JPos.next]
  simp only [hne, hco, Bool.false_eq_true, ↓reduceIte, clearJournalIo, encodeClear, hg, bind, Except.bind, pure, Except.pure]
  exact ⟨_, rfl⟩

/-- **Opening a crashed device, in terms of what was journalled.**  The journal area decodes to a non-empty
intent `js.extents` that `coalesce_extents` accepts; every journalled extent lies in the data area and is
made of whole tiles of the disk `d0` that the image `img0` represented when the intent became durable; `img`
agrees with `img0` on the data area outside the journalled blocks — inside them the crash may have left
anything; old markers outside them were complete and do not reach into them; the surviving records have
different keys.  Then `recoverImage img` returns `.ok`, the only device writes are the replay's, and the
table is the newest-wins fold over exactly the records of `d0` outside the journalled blocks. -/
theorem recover_crashed_device_journalled (img0 img : Image) (size : Nat) (o : Opts) (info : Gen → RecMeta) (d0 : Disk) (L : List Rec)
    (md : Meta) (js : JournalState) (co : List (Nat × Nat))
    (hro : o.readOnly = false)
    (hsize : validDeviceSize size = true) (himg : img.size * BSZ = size) (hnz : imageAllZero img = false)
    (hsig : slice (selectMeta (blockAt img FEOX_METADATA_BLOCK) (blockAt img FEOX_METADATA_BACKUP_BLOCK)) 0 FEOX_SIGNATURE_SIZE = FEOX_SIGNATURE)
    (hmd : Meta.decode (selectMeta (blockAt img FEOX_METADATA_BLOCK) (blockAt img FEOX_METADATA_BACKUP_BLOCK)) = some md)
    (hjs : decodeJournal ((List.range ALLOCATION_JOURNAL_BLOCKS).flatMap fun i => blockAt img (ALLOCATION_JOURNAL_START_BLOCK + i)) (size / BSZ) = .ok js)
    (hne : js.extents.isEmpty = false) (hco : coalesceExtents js.extents = some co)
    (hrep : Rep img0 md.version FEOX_DATA_START_BLOCK (size / BSZ) info d0) (ht : TiledBy d0 (size / BSZ) L FEOX_DATA_START_BLOCK)
    (htot0 : size / BSZ ≤ img0.size)
    (hes : ∀ r ∈ js.extents, FEOX_DATA_START_BLOCK ≤ r.1 ∧ r.1 + r.2 ≤ size / BSZ ∧ Aligned L r.1 (r.1 + r.2))
    (hagree : ∀ q, FEOX_DATA_START_BLOCK ≤ q → ¬ inExt js.extents q → blockAt img q = blockAt img0 q)
    (hclean0 : ∀ p r, FEOX_DATA_START_BLOCK ≤ p → p < size / BSZ → ¬ inExt js.extents p → d0 p = .mark r →
      rd (slice (blockAt img0 p) 18 1) = RETIREMENT_COMPLETE ∧ (r > 1 → tailsComplete img0 p r = true))
    (hspan : ∀ p r, FEOX_DATA_START_BLOCK ≤ p → p < size / BSZ → ¬ inExt js.extents p → d0 p = .mark r →
      ∀ q, p ≤ q → q < p + r → ¬ inExt js.extents q)
    (hnd : ((filterRuns L (co.map toRun)).map (fun r => (info r.2.1).key)).Nodup)
    (hexp : o.ttlOn = true → ∀ l ∈ (filterRuns L (co.map toRun)).foldl (fun lv r => absorbLive lv (liveOf info r)) [],
      (decide (l.expiry > 0) && decide (o.now > l.expiry)) = false) :
    ∃ r io1, (recoverImage img size o).result = .ok r ∧ (recoverImage img size o).io = io1 ∧ r.image = applyIo img io1 ∧
      replayIo ⟨js.generation, js.slot⟩ js.extents = .ok (io1, JPos.next ⟨js.generation, js.slot⟩) ∧
      r.version = md.version ∧
      r.live = (filterRuns L (co.map toRun)).foldl (fun lv r => absorbLive lv (liveOf info r)) [] := by
  obtain ⟨hruns, hdisj, hcov⟩ := coalesceExtents_spec L FEOX_DATA_START_BLOCK (size / BSZ) js.extents co hco hes
  obtain ⟨io1, hio⟩ := replayIo_ok ⟨js.generation, js.slot⟩ js.extents co hne hco
  obtain ⟨r, h1, h2, h3, h4, h5⟩ := recover_crashed_device img0 img size o info d0 L md js co io1 _ hro hsize himg hnz hsig hmd hjs hne hco hio
    hrep ht htot0 hruns hdisj
    (fun q hq hout => hagree q hq (fun h => hout ((hcov q).mpr h)))
    (fun p r a b hout => hclean0 p r a b (fun h => hout ((hcov p).mpr h)))
    (fun p r a b hout hl q c d hin => hspan p r a b (fun h => hout ((hcov p).mpr h)) hl q c d ((hcov q).mp hin))
    hnd hexp
  exact ⟨r, io1, h1, h2, h3, hio, h4, h5⟩

end Feox.Fmt
