import Feox.Fmt.JournalRT
/-!
# Fmt.JournalOpen — what `decode` reads from the two journal slots of a crashed device

Corollaries of `journal_slot_roundtrip` and the slot selection of `decodeJournal`, for both slot
parities: the stamped image of the newest generation is read back exactly (generation, slot,
extents), and a torn / lost write of the next generation leaves the previous record in force.  With
`Proto.Slots` (the store always writes the slot that does not hold the newest record) this is the
byte-level half of "the open sees the last durable intent".
-/
namespace Feox.Fmt
open Feox.Gen

theorem stamped_not_allZero (gen state : Nat) (exts : List (Nat × Nat)) (tail : Bytes) :
    allZero (stampJournal (journalBody gen state exts) ++ tail) = false := by
  rw [stamped_eq]
  simp [jparts, JOURNAL_MAGIC, allZero]

/-- **The durable intent is what the open reads.**  Slot 0 holds a valid journal record `A`; slot 1
holds the stamped image of a record of generation `gen ≥ A.generation` (an intent with extents
`exts`, or a clear record) followed by anything.  `decode` of the journal area returns generation
`gen`, slot 1 and exactly `exts`. -/
theorem decodeJournal_reads_newer_slot1 (s0 tail : Bytes) (gen state total : Nat) (exts : List (Nat × Nat)) (A : JournalState)
    (h0 : s0.length = JOURNAL_SLOT_SIZE)
    (h1 : (stampJournal (journalBody gen state exts) ++ tail).length = JOURNAL_SLOT_SIZE)
    (hz0 : allZero s0 = false) (hA : decodeSlot s0 total 0 = .ok A) (hok : JournalOK gen state total exts)
    (hge : gen ≥ A.generation) :
    decodeJournal (s0 ++ (stampJournal (journalBody gen state exts) ++ tail)) total =
      .ok { generation := gen, slot := 1, extents := exts } :=
  (decodeJournal_two_slots s0 _ total A _ h0 h1 hz0 hA).1 (stamped_not_allZero gen state exts tail)
    (journal_slot_roundtrip gen state total 1 exts tail hok) hge

/-- … and when the newer write into slot 1 was torn into something `decode_slot` rejects, or never
reached the device (slot still blank), the previous record stays in force. -/
theorem decodeJournal_torn_slot1_keeps_slot0 (s0 s1 : Bytes) (total : Nat) (A : JournalState)
    (h0 : s0.length = JOURNAL_SLOT_SIZE) (h1 : s1.length = JOURNAL_SLOT_SIZE)
    (hz0 : allZero s0 = false) (hA : decodeSlot s0 total 0 = .ok A)
    (hbad : allZero s1 = true ∨ decodeSlot s1 total 1 = .invalid) :
    decodeJournal (s0 ++ s1) total = .ok A := by
  obtain ⟨_, h2, h3⟩ := decodeJournal_two_slots s0 s1 total A A h0 h1 hz0 hA
  cases hz : allZero s1 with
  | true => exact h3 hz
  | false =>
    rcases hbad with h | h
    · rw [hz] at h; cases h
    · exact h2 hz h


/-- the other parity: slot 1 holds a valid record `B`, slot 0 the stamped image of a strictly newer
generation -/
theorem decodeJournal_reads_newer_slot0 (s1 tail : Bytes) (gen state total : Nat) (exts : List (Nat × Nat)) (B : JournalState)
    (h0 : (stampJournal (journalBody gen state exts) ++ tail).length = JOURNAL_SLOT_SIZE)
    (h1 : s1.length = JOURNAL_SLOT_SIZE)
    (hz1 : allZero s1 = false) (hB : decodeSlot s1 total 1 = .ok B) (hok : JournalOK gen state total exts)
    (hgt : gen > B.generation) :
    decodeJournal ((stampJournal (journalBody gen state exts) ++ tail) ++ s1) total =
      .ok { generation := gen, slot := 0, extents := exts } := by
  generalize hs0 : stampJournal (journalBody gen state exts) ++ tail = s0 at h0
  have hz0 : allZero s0 = false := by rw [← hs0]; exact stamped_not_allZero gen state exts tail
  have hA : decodeSlot s0 total 0 = .ok { generation := gen, slot := 0, extents := exts } := by
    rw [← hs0]; exact journal_slot_roundtrip gen state total 0 exts tail hok
  have hlen : (s0 ++ s1).length = ALLOCATION_JOURNAL_BLOCKS * BSZ := by
    simp [h0, h1]; rfl
  have e0 : slice (s0 ++ s1) 0 JOURNAL_SLOT_SIZE = s0 := slice_zero_prefix _ _ h0.symm
  have e1 : slice (s0 ++ s1) JOURNAL_SLOT_SIZE JOURNAL_SLOT_SIZE = s1 := by
    have := slice_mid s0 s1 []
    simp only [List.append_nil] at this
    rw [h0, h1] at this
    exact this
  unfold decodeJournal
  simp only [hlen, bne_self_eq_false, Bool.false_eq_true, if_false, e0, e1, hz0, hz1, hA, hB]
  have : ¬ B.generation ≥ gen := by omega
  simp [this]

/-- slot 0's newer write torn or lost: slot 1's record stays in force -/
theorem decodeJournal_torn_slot0_keeps_slot1 (s0 s1 : Bytes) (total : Nat) (B : JournalState)
    (h0 : s0.length = JOURNAL_SLOT_SIZE) (h1 : s1.length = JOURNAL_SLOT_SIZE)
    (hz1 : allZero s1 = false) (hB : decodeSlot s1 total 1 = .ok B)
    (hbad : allZero s0 = true ∨ decodeSlot s0 total 0 = .invalid) :
    decodeJournal (s0 ++ s1) total = .ok B := by
  have hlen : (s0 ++ s1).length = ALLOCATION_JOURNAL_BLOCKS * BSZ := by
    simp [h0, h1]; rfl
  have e0 : slice (s0 ++ s1) 0 JOURNAL_SLOT_SIZE = s0 := slice_zero_prefix _ _ h0.symm
  have e1 : slice (s0 ++ s1) JOURNAL_SLOT_SIZE JOURNAL_SLOT_SIZE = s1 := by
    have := slice_mid s0 s1 []
    simp only [List.append_nil] at this
    rw [h0, h1] at this
    exact this
  unfold decodeJournal
  cases hz : allZero s0 with
  | true => simp only [hlen, bne_self_eq_false, Bool.false_eq_true, if_false, e0, e1, hz, hz1, hB, if_true]
  | false =>
    rcases hbad with h | h
    · rw [hz] at h; cases h
    · simp only [hlen, bne_self_eq_false, Bool.false_eq_true, if_false, e0, e1, hz, hz1, hB, h]

end Feox.Fmt
