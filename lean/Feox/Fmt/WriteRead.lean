import Feox.Fmt.Abstract
import Feox.Props.C10
/-!
# Fmt.WriteRead — what the record writer puts on the device is a head the recovery scan accepts

`encodeExtent` is the writer of the documented layout (`serialize_record_data` + `stamp_seq_token`,
compared byte for byte with the real one on every run).  `encoded_extent_is_head` proves that an
image holding those bytes in the blocks of an extent satisfies `IsHead` there — every test the
recovery loop makes before it accepts a record, the v3 token over all the extent's blocks included —
with the same key, value length, timestamp, expiry and block count.  Together with
`marker_is_mark` / `zero_block_looks_free` this shows that `Rep` is met by what the writers
produce: the hypotheses of `scan_rep_tiled` are about reachable images.
-/
namespace Feox.Fmt
open Feox.Gen Feox.C10

theorem chunks_flatten (B : Nat) (hB : 0 < B) : ∀ (n : Nat) (E : Bytes), E.length = n * B →
    (List.range n).flatMap (fun i => (E.drop (i * B)).take B) = E := by
  intro n
  induction n with
  | zero => intro E h; simp at h; simp [h]
  | succ n ih =>
    intro E h
    rw [List.range_succ_eq_map, List.flatMap_cons]
    simp only [Nat.zero_mul, List.drop_zero, List.flatMap_map]
    have hlen : (E.drop B).length = n * B := by
      simp [h, Nat.succ_mul]
    have := ih (E.drop B) hlen
    have e : (fun i => ((E.drop B).drop (i * B)).take B) = (fun i => (E.drop ((i + 1) * B)).take B) := by
      funext i
      rw [List.drop_drop, Nat.succ_mul, Nat.add_comm]
    rw [e] at this
    simp only [Function.comp_def, Nat.succ_eq_add_one]
    rw [this]
    exact List.take_append_drop B E


/-- the image holds the bytes `E` in the `n` blocks from `sector` on -/
def HoldsExtent (img : Image) (sector : Nat) (E : Bytes) (n : Nat) : Prop :=
  ∀ i, i < n → blockAt img (sector + i) = (E.drop (i * BSZ)).take BSZ

theorem divCeil_bounds (a b : Nat) (hb : 0 < b) : a ≤ divCeil a b * b ∧ (0 < a → 0 < divCeil a b) := by
  unfold divCeil
  have h1 := Nat.div_add_mod (a + b - 1) b
  have h2 := Nat.mod_lt (a + b - 1) hb
  constructor
  · have : (a + b - 1) / b * b = b * ((a + b - 1) / b) := Nat.mul_comm _ _
    omega
  · intro ha
    apply Nat.div_pos <;> omega

/-- the shape of an encoded extent: marker, two seq bytes, the serialized head, value and padding;
a whole number of blocks -/
theorem encodeExtent_shape (v sector : Nat) (m : RecMeta) (value : Bytes) (hw : WfRec v m value) :
    let n := extentBlocks v m.key.length m.valueLen
    let raw := le 2 SECTOR_MARKER ++ [0, 0] ++ serializeHead v m ++ value
    let pad := zeros (n * BSZ - raw.length)
    ∃ S, S.length = 2 ∧
      encodeExtent v sector m value = le 2 SECTOR_MARKER ++ (S ++ (serializeHead v m ++ (value ++ pad))) ∧
      (encodeExtent v sector m value).length = n * BSZ ∧ 0 < n ∧
      (v < SEQ_TOKEN_MIN_VERSION → S = [0, 0]) ∧
      (v ≥ SEQ_TOKEN_MIN_VERSION → headerOk v (le 2 SECTOR_MARKER ++ ([0, 0] ++ (serializeHead v m ++ (value ++ pad)))) = true →
        S = tokenBytes (recordSeqToken sector (le 2 SECTOR_MARKER ++ ([0, 0] ++ (serializeHead v m ++ (value ++ pad)))))) := by
  intro n raw pad
  have hlay := (parse_layout v m value [0, 0] [] hw rfl).2.2
  have hrawlen : raw.length = totalSize v m.key.length m.valueLen := by
    simp only [raw, totalSize]
    rw [List.length_append, hlay, hw.vlen]
  have hB : 0 < BSZ := by decide
  have hdc := divCeil_bounds (totalSize v m.key.length m.valueLen) BSZ hB
  have hnpos : 0 < n := hdc.2 (by
    have := headerSize_ge v m.key.length
    unfold totalSize; omega)
  have hfit : raw.length ≤ n * BSZ := by rw [hrawlen]; exact hdc.1
  have hpadded : (raw ++ pad).length = n * BSZ := by
    simp only [List.length_append, pad, zeros_length]; omega
  have hassoc : raw ++ pad = le 2 SECTOR_MARKER ++ ([0, 0] ++ (serializeHead v m ++ (value ++ pad))) := by
    simp [raw, List.append_assoc]
  by_cases hv : v ≥ SEQ_TOKEN_MIN_VERSION
  · have he : encodeExtent v sector m value = stamp v (raw ++ pad) sector := by
      simp only [encodeExtent, hv, ↓reduceIte, raw, pad, n]
    rw [hassoc] at he
    unfold stamp at he
    by_cases hok : headerOk v (le 2 SECTOR_MARKER ++ ([0, 0] ++ (serializeHead v m ++ (value ++ pad)))) = true
    · simp only [hok, ↓reduceIte] at he
      have hp := patch_mid (le 2 SECTOR_MARKER) [0, 0] (serializeHead v m ++ (value ++ pad))
        (tokenBytes (recordSeqToken sector (le 2 SECTOR_MARKER ++ ([0, 0] ++ (serializeHead v m ++ (value ++ pad)))))) (by simp [tokenBytes])
      have hA : (le 2 SECTOR_MARKER).length = 2 := by simp
      rw [hA] at hp
      rw [hp] at he
      refine ⟨_, by simp [tokenBytes], he, ?_, hnpos, fun h => by omega, fun _ _ => rfl⟩
      rw [he]
      have : (le 2 SECTOR_MARKER ++ (tokenBytes (recordSeqToken sector (le 2 SECTOR_MARKER ++ ([0, 0] ++ (serializeHead v m ++ (value ++ pad))))) ++
          (serializeHead v m ++ (value ++ pad)))).length = (raw ++ pad).length := by
        rw [hassoc]; simp [tokenBytes]; omega
      rw [this, hpadded]
    · simp only [hok, Bool.false_eq_true, ↓reduceIte] at he
      refine ⟨[0, 0], rfl, he, ?_, hnpos, fun _ => rfl, fun _ h => absurd h hok⟩
      rw [he, ← hassoc, hpadded]
  · have he : encodeExtent v sector m value = raw ++ pad := by
      simp only [encodeExtent, hv, ↓reduceIte, raw, pad, n]
    refine ⟨[0, 0], rfl, by rw [he, hassoc], by rw [he, hpadded], hnpos, fun _ => rfl, fun h => absurd h hv⟩


theorem take_drop_split (E : Bytes) (B k : Nat) (hk : k ≤ B) : (E.take B).drop k ++ E.drop B = E.drop k := by
  have h1 : (E.take B).drop k = (E.drop k).take (B - k) := by
    rw [List.drop_take]
  have h2 : E.drop B = (E.drop k).drop (B - k) := by
    rw [List.drop_drop]; congr 1; omega
  rw [h1, h2, List.take_append_drop]

/-- `headerOk` reads the length and the key-length field only -/
theorem headerOk_layout (v : Nat) (m : RecMeta) (value : Bytes) (S rest : Bytes) (hw : WfRec v m value) (hS : S.length = 2)
    (hlen : BSZ ≤ (le 2 SECTOR_MARKER ++ (S ++ (serializeHead v m ++ rest))).length) :
    headerOk v (le 2 SECTOR_MARKER ++ (S ++ (serializeHead v m ++ rest))) = true := by
  generalize hd : le 2 SECTOR_MARKER ++ (S ++ (serializeHead v m ++ rest)) = d at *
  have hklt := key_lt_of_fit hw.kfit
  have hk2 : slice d SECTOR_HEADER_SIZE 2 = le 2 (m.key.length % 65536) := by
    have h4 : SECTOR_HEADER_SIZE = 4 := rfl
    rw [← hd, h4]
    have : le 2 SECTOR_MARKER ++ (S ++ (serializeHead v m ++ rest))
        = (le 2 SECTOR_MARKER ++ S) ++ (le 2 (m.key.length % 65536) ++ (m.key ++ le 8 m.valueLen ++ le 8 m.ts ++
          (if hasTtl v then le 8 m.expiry else []) ++ rest)) := by
      simp [serializeHead, List.append_assoc]
    rw [this]
    exact slice_mid' (by simp [hS]) (by simp)
  have hkrd : rd (slice d SECTOR_HEADER_SIZE 2) = m.key.length := by
    rw [hk2, Nat.mod_eq_of_lt hklt]; exact le2 _ hklt
  unfold headerOk
  have hB : BSZ = 4096 := rfl
  have c1 : ¬ d.length < SECTOR_HEADER_SIZE + 2 := by
    have : SECTOR_HEADER_SIZE + 2 = 6 := rfl
    omega
  have c2 : (m.key.length == 0) = false := by
    have := hw.kpos
    cases hkl : m.key.length with
    | zero => omega
    | succ k => rfl
  have c3 : ¬ (headerSize v m.key.length > BSZ) := Nat.not_lt.mpr hw.kfit
  have c4 : ¬ (headerSize v m.key.length > d.length) := by have := hw.kfit; omega
  rw [if_neg c1]
  simp only [hkrd, c2, Bool.false_eq_true, ↓reduceIte, c3, c4, decide_false, Bool.or_self, Bool.not_false]

/-- **What the record writer puts on the device is a head the recovery scan accepts**, with the
same key, value length, timestamp, expiry and block count, and (v3) a token that matches the
extent's blocks as they are on the image. -/
theorem encoded_extent_is_head (img : Image) (v sector : Nat) (m : RecMeta) (value : Bytes) (hw : WfRec v m value)
    (hk : m.key.length ≤ MAX_KEY_SIZE) (hv0 : 0 < m.valueLen) (hvmax : m.valueLen ≤ MAX_VALUE_SIZE)
    (hh : HoldsExtent img sector (encodeExtent v sector m value) (extentBlocks v m.key.length m.valueLen)) :
    IsHead img v sector m (extentBlocks v m.key.length m.valueLen) := by
  obtain ⟨S, hS, hE, hElen, hnpos, hSlegacy, hSv3⟩ := encodeExtent_shape v sector m value hw
  generalize hn : extentBlocks v m.key.length m.valueLen = n at *
  generalize hpad : zeros (n * BSZ - (le 2 SECTOR_MARKER ++ [0, 0] ++ serializeHead v m ++ value).length) = pad at *
  generalize hEdef : encodeExtent v sector m value = E at *
  have hB : BSZ = 4096 := rfl
  have hA : (le 2 SECTOR_MARKER).length = 2 := by simp
  have hlay := parse_layout v m value S ((value ++ pad).take (BSZ - headerSize v m.key.length)) hw hS
  have hhdr : (le 2 SECTOR_MARKER ++ S ++ serializeHead v m).length = headerSize v m.key.length := hlay.2.2
  -- the head block
  have hhead0 : blockAt img sector = E.take BSZ := by
    have := hh 0 hnpos
    simpa using this
  have hElen' : BSZ ≤ E.length := by rw [hElen]; exact Nat.le_mul_of_pos_left _ hnpos
  have hheadlen : (blockAt img sector).length = BSZ := by
    rw [hhead0, List.length_take]; omega
  have hE' : E = (le 2 SECTOR_MARKER ++ S ++ serializeHead v m) ++ (value ++ pad) := by
    rw [hE]; simp [List.append_assoc]
  have hhead : blockAt img sector = le 2 SECTOR_MARKER ++ S ++ serializeHead v m ++ (value ++ pad).take (BSZ - headerSize v m.key.length) := by
    rw [hhead0, hE', List.take_append, hhdr]
    have : List.take BSZ (le 2 SECTOR_MARKER ++ S ++ serializeHead v m) = le 2 SECTOR_MARKER ++ S ++ serializeHead v m := by
      apply List.take_of_length_le; rw [hhdr]; exact hw.kfit
    rw [this]
  have hmark : le 2 SECTOR_MARKER = [205, 171] := by decide
  -- first bytes
  have hfirst : ∃ rest, blockAt img sector = 205 :: 171 :: rest := by
    rw [hhead, hmark]; exact ⟨S ++ (serializeHead v m ++ List.take (BSZ - headerSize v m.key.length) (value ++ pad)), by simp [List.append_assoc]⟩
  obtain ⟨rest0, hrest0⟩ := hfirst
  have hk2 : slice (blockAt img sector) SECTOR_HEADER_SIZE 2 = le 2 (m.key.length % 65536) := by
    have h4 : SECTOR_HEADER_SIZE = 4 := rfl
    rw [hhead, h4]
    have : le 2 SECTOR_MARKER ++ S ++ serializeHead v m ++ (value ++ pad).take (BSZ - headerSize v m.key.length)
        = (le 2 SECTOR_MARKER ++ S) ++ (le 2 (m.key.length % 65536) ++ (m.key ++ le 8 m.valueLen ++ le 8 m.ts ++
          (if hasTtl v then le 8 m.expiry else []) ++ (value ++ pad).take (BSZ - headerSize v m.key.length))) := by
      simp [serializeHead, List.append_assoc]
    rw [this]
    exact slice_mid' (by simp [hS]) (by simp)
  have hklt := key_lt_of_fit hw.kfit
  have hkrd : rd (slice (blockAt img sector) SECTOR_HEADER_SIZE 2) = m.key.length := by
    rw [hk2, Nat.mod_eq_of_lt hklt]; exact le2 _ hklt
  have hseq : slice (blockAt img sector) 2 2 = S := by
    rw [hhead]
    have : le 2 SECTOR_MARKER ++ S ++ serializeHead v m ++ (value ++ pad).take (BSZ - headerSize v m.key.length)
        = le 2 SECTOR_MARKER ++ (S ++ (serializeHead v m ++ (value ++ pad).take (BSZ - headerSize v m.key.length))) := by
      simp [List.append_assoc]
    rw [this]
    exact slice_mid' (by simp) hS.symm
  have hok : headerOk v (blockAt img sector) = true := by
    unfold headerOk
    have c1 : ¬ (blockAt img sector).length < SECTOR_HEADER_SIZE + 2 := by rw [hheadlen]; decide
    have c2 : (m.key.length == 0) = false := by
      have := hw.kpos
      cases hkl : m.key.length with
      | zero => omega
      | succ k => rfl
    have c3 : ¬ (headerSize v m.key.length > BSZ) := Nat.not_lt.mpr hw.kfit
    rw [if_neg c1]
    simp only [hkrd, c2, hheadlen, Bool.false_eq_true, ↓reduceIte, c3, decide_false, Bool.or_self, Bool.not_false]
  have hokP : headerOk v (le 2 SECTOR_MARKER ++ ([0, 0] ++ (serializeHead v m ++ (value ++ pad)))) = true := by
    apply headerOk_layout v m value [0, 0] (value ++ pad) hw rfl
    have : (le 2 SECTOR_MARKER ++ ([0, 0] ++ (serializeHead v m ++ (value ++ pad)))).length = E.length := by
      rw [hE]; simp [hS]; omega
    rw [this]; exact hElen'
  unfold IsHead
  simp only []
  refine ⟨hheadlen, ?_, ?_, hok, ?_, ?_, ?_, hn, ?_⟩
  · rw [hrest0]; simp [slice, DELETION_MARKER]
  · rw [hrest0]; simp [slice, rd, SECTOR_MARKER]
  · -- the seq field: zero on legacy formats, the (non-zero) token on v3
    rw [hseq]
    by_cases hv : v ≥ SEQ_TOKEN_MIN_VERSION
    · have hS3 := hSv3 hv hokP
      rw [hS3]
      have hne := (token_nonzero sector (le 2 SECTOR_MARKER ++ ([0, 0] ++ (serializeHead v m ++ (value ++ pad))))).2
      generalize recordSeqToken sector (le 2 SECTOR_MARKER ++ ([0, 0] ++ (serializeHead v m ++ (value ++ pad)))) = tk at *
      have hrd : rd (tokenBytes tk) = tk.toNat := by
        unfold tokenBytes; exact le2 _ (UInt16.toNat_lt _)
      rw [hrd]
      have hnz : (tk.toNat == 0) = false := by
        cases hz : (tk.toNat == 0) with
        | false => rfl
        | true =>
          exfalso; apply hne
          have : tk.toNat = 0 := by simpa using hz
          exact UInt16.toNat_inj.mp (by simpa using this)
      have hnv : decide (v < SEQ_TOKEN_MIN_VERSION) = false := by simp; omega
      rw [hnv, hnz]; simp
    · have := hSlegacy (by omega)
      subst this
      simp [hv, rd]
  · rw [hhead]; exact hlay.1
  · have h1 : ¬ (m.key.length > MAX_KEY_SIZE) := by omega
    have h2 : (m.valueLen == 0) = false := by simp; omega
    have h3 : ¬ (m.valueLen > MAX_VALUE_SIZE) := by omega
    simp [h1, h2, h3]
  · -- v3: the token in the seq field is the token of the extent's blocks as they are on the image
    by_cases hv : v ≥ SEQ_TOKEN_MIN_VERSION
    · have hS3 := hSv3 hv hokP
      rw [hseq]
      generalize hP : le 2 SECTOR_MARKER ++ ([0, 0] ++ (serializeHead v m ++ (value ++ pad))) = P at *
      have hPlen : P.length ≥ SECTOR_HEADER_SIZE := by
        rw [← hP]; simp [SECTOR_HEADER_SIZE]; omega
      have hPtake : P.take 2 = le 2 SECTOR_MARKER := by rw [← hP]; exact List.take_left' hA
      have hPdrop : P.drop SECTOR_HEADER_SIZE = serializeHead v m ++ (value ++ pad) := by
        rw [← hP]
        rw [← List.append_assoc]
        exact List.drop_left' (by simp [SECTOR_HEADER_SIZE])
      have hEdrop : E.drop SECTOR_HEADER_SIZE = serializeHead v m ++ (value ++ pad) := by
        rw [hE]
        rw [← List.append_assoc]
        exact List.drop_left' (by simp [SECTOR_HEADER_SIZE, hS])
      have htok : recordSeqToken sector P = nonzeroToken (crc32c (crc32c (crc32c (crc32c 0 (le 8 sector)) (le 2 SECTOR_MARKER)) [0, 0]) (E.drop SECTOR_HEADER_SIZE)) := by
        unfold recordSeqToken
        simp only [hPlen, ↓reduceIte, hPtake, hPdrop, hEdrop]
      have hheadtake : (blockAt img sector).take 2 = le 2 SECTOR_MARKER := by
        rw [hhead, List.append_assoc, List.append_assoc]; exact List.take_left' hA
      -- the tails
      have htails : (List.range (n - 1)).map (fun i => blockAt img (sector + 1 + i)) =
          (List.range (n - 1)).map (fun i => ((E.drop BSZ).drop (i * BSZ)).take BSZ) := by
        apply List.map_congr_left
        intro i hi
        have hi' : i + 1 < n := by have := List.mem_range.mp hi; omega
        have := hh (i + 1) hi'
        have e1 : sector + (i + 1) = sector + 1 + i := by omega
        rw [e1] at this
        rw [this, List.drop_drop]
        congr 2
        rw [Nat.succ_mul]; omega
      have hflat : ((List.range (n - 1)).map (fun i => ((E.drop BSZ).drop (i * BSZ)).take BSZ)).flatten = E.drop BSZ := by
        rw [← List.flatMap_def]
        apply chunks_flatten BSZ (by decide) (n - 1) (E.drop BSZ)
        rw [List.length_drop, hElen, Nat.sub_mul]; simp
      have hext : extentToken img sector n = recordSeqToken sector P := by
        rw [htok]
        unfold extentToken
        simp only []
        rw [← List.foldl_map (f := fun i => blockAt img (sector + 1 + i)) (g := crc32c), htails, hheadtake, token_covers_tails, hflat, hhead0,
          take_drop_split E BSZ SECTOR_HEADER_SIZE (by decide)]
      rw [hext, hS3]
      have hrd : rd (tokenBytes (recordSeqToken sector P)) = (recordSeqToken sector P).toNat := by
        unfold tokenBytes; exact le2 _ (UInt16.toNat_lt _)
      rw [hrd]
      simp
    · simp [hv]


/-- a block written by retirement is a marker the scan accepts, claiming `remaining` blocks -/
theorem marker_is_mark (v sector remaining : Nat) (h : remaining < 2 ^ 64) (hr : 0 < remaining) :
    IsMark v sector (markerBlock sector remaining RETIREMENT_COMPLETE) remaining := by
  have hc := (marker_roundtrip sector remaining h).1
  unfold isCompleteMarker at hc
  simp only [Bool.and_eq_true, decide_eq_true_eq, beq_iff_eq] at hc
  obtain ⟨⟨⟨⟨_, htag⟩, hrem⟩, _⟩, htok⟩ := hc
  have hlen : (markerBlock sector remaining RETIREMENT_COMPLETE).length = BSZ := by
    unfold markerBlock
    rw [List.length_append, marker_length, zeros_length]
    decide
  refine ⟨hlen, htag, ?_, htok.symm, hrem⟩
  -- not an all-zero legacy tombstone: the remaining count is non-zero
  cases hv : decide (v < SEQ_TOKEN_MIN_VERSION) with
  | false => rfl
  | true =>
    simp only [Bool.true_and]
    cases hz : allZero ((markerBlock sector remaining RETIREMENT_COMPLETE).drop 8) with
    | false => rfl
    | true =>
      exfalso
      have hall : ∀ x ∈ (markerBlock sector remaining RETIREMENT_COMPLETE).drop 8, x = 0 := by
        intro x hx
        unfold allZero at hz
        rw [List.all_eq_true] at hz
        simpa using hz x hx
      have hs : slice (markerBlock sector remaining RETIREMENT_COMPLETE) 8 8 = zeros ((slice (markerBlock sector remaining RETIREMENT_COMPLETE) 8 8).length) := by
        apply List.eq_replicate_iff.mpr
        refine ⟨rfl, fun x hx => hall x (List.mem_of_mem_take hx)⟩
      have hz0 : ∀ k, rd (zeros k) = 0 := by
        intro k
        induction k with
        | zero => rfl
        | succ k ih => simp only [zeros, List.replicate_succ, rd] at ih ⊢; rw [ih]; rfl
      rw [hs, hz0] at hrem
      omega

/-- an all-zero block is stepped over by one -/
theorem zero_block_looks_free : LooksFree (zeros BSZ) := by
  have hn := zero_is_neither BSZ
  refine ⟨by simp, ?_, hn.2⟩
  have h1 := hn.1
  unfold isMarkerTag at h1
  intro heq
  rw [heq] at h1
  simp [BSZ, FEOX_BLOCK_SIZE] at h1

end Feox.Fmt
