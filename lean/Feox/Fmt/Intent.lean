import Feox.Fmt.JournalArea
/-!
# Fmt.Intent — what a transaction journals is made of whole tiles

The crashed-open theorems ask that every journalled extent be aligned to the tiling of the disk the intent
was written over.  That is a consequence of what the store journals: a region allocated from free space
(`TiledBy.aligned_of_fls`) or the extent of a live record (`tiled_aligned_of_rec`: the records of a tiling
are pairwise beside one another).
-/
namespace Feox.Fmt
open Feox.Gen Feox.Proto

theorem pairwise_mem_cases {α : Type} {R : α → α → Prop} : ∀ {l : List α}, l.Pairwise R → ∀ a ∈ l, ∀ b ∈ l, a = b ∨ R a b ∨ R b a := by
  intro l h
  induction h with
  | nil => intro a ha; cases ha
  | @cons x xs hx _ ih =>
    intro a ha b hb
    rcases List.mem_cons.mp ha with rfl | ha'
    · rcases List.mem_cons.mp hb with rfl | hb'
      · exact Or.inl rfl
      · exact Or.inr (Or.inl (hx b hb'))
    · rcases List.mem_cons.mp hb with rfl | hb'
      · exact Or.inr (Or.inr (hx a ha'))
      · exact ih a ha' b hb'

/-- the extent of a record of the tiling is made of whole tiles: every other record lies beside it -/
theorem tiled_aligned_of_rec {d : Disk} {hi : Nat} {L : List Rec} {p : Nat} (h : TiledBy d hi L p) (r : Rec) (hr : r ∈ L) :
    Aligned L r.1 (r.1 + r.2.2) := by
  intro r' hr'
  rcases pairwise_mem_cases h.recs.2 r hr r' hr' with rfl | h1 | h1
  · exact Or.inl ⟨Nat.le_refl _, Nat.le_refl _⟩
  · exact Or.inr (Or.inr h1)
  · exact Or.inr (Or.inl h1)

/-- **What a transaction journals is made of whole tiles.**  Every extent of an intent is either a region
that was free when it was allocated (a write transaction) or the extent of a record of the tiling (a
retirement): each is aligned to the tiling — the hypothesis `hes` of the crashed-open theorems. -/
theorem journalled_extents_aligned {d : Disk} {hi : Nat} {L : List Rec} {p : Nat} (h : TiledBy d hi L p) (exts : List (Nat × Nat))
    (hx : ∀ e ∈ exts, 0 < e.2 ∧ ((∀ q, e.1 ≤ q → q < e.1 + e.2 → FLs d q) ∨ ∃ r ∈ L, r.1 = e.1 ∧ r.2.2 = e.2)) :
    ∀ e ∈ exts, Aligned L e.1 (e.1 + e.2) := by
  intro e he
  obtain ⟨hpos, hfree | ⟨r, hr, h1, h2⟩⟩ := hx e he
  · exact (h.aligned_of_fls e.1 (e.1 + e.2) (by omega) hfree).1
  · rw [← h1, ← h2]
    exact tiled_aligned_of_rec h r hr

end Feox.Fmt
