import Feox.Fmt.Commit
/-!
# Fmt.Batch — a write batch (several records in one transaction) on the bytes

`commit_record` iterated: the records of a batch go into pairwise disjoint regions that were all
free-looking, with no marker spanning into any of them, when the batch was allocated.  After all of
them are written the image represents the disk with every region filled, that disk is tiled by the old
records plus the batch, and the recovery scan accepts exactly those.
-/
namespace Feox.Fmt
open Feox.Gen Feox.Proto Feox.C10

/-- one record write of a batch: where, which generation, the value bytes -/
structure BW where
  s : Nat
  g : Gen
  value : Bytes

def BW.n (v : Nat) (info : Gen → RecMeta) (w : BW) : Nat := extentBlocks v (info w.g).key.length (info w.g).valueLen

def applyWrites (v : Nat) (info : Gen → RecMeta) (img : Image) : List BW → Image
  | [] => img
  | w :: ws => applyWrites v info (writeBlocks img w.s (toBlocks (encodeExtent v w.s (info w.g) w.value))) ws

def fillAll (v : Nat) (info : Gen → RecMeta) (d : Disk) : List BW → Disk
  | [] => d
  | w :: ws => fillAll v info (fillLabel d w.s (w.n v info) w.g) ws

/-- what the batch needs from the disk it is allocated on -/
structure BWOk (v lo total : Nat) (info : Gen → RecMeta) (d : Disk) (w : BW) : Prop where
  wf : WfRec v (info w.g) w.value
  key : (info w.g).key.length ≤ MAX_KEY_SIZE
  v0 : 0 < (info w.g).valueLen
  vmax : (info w.g).valueLen ≤ MAX_VALUE_SIZE
  lo : lo ≤ w.s
  hi : w.s + w.n v info ≤ total
  free : ∀ q, w.s ≤ q → q < w.s + w.n v info → FLs d q
  nospan : ∀ p r, p < w.s → d p = .mark r → p + r ≤ w.s

def Disjoint2 (v : Nat) (info : Gen → RecMeta) (a b : BW) : Prop :=
  a.s + a.n v info ≤ b.s ∨ b.s + b.n v info ≤ a.s

theorem BWOk.after_fill {v lo total : Nat} {info : Gen → RecMeta} {d : Disk} {a w : BW}
    (hw : BWOk v lo total info d w) (hd : Disjoint2 v info a w) :
    BWOk v lo total info (fillLabel d a.s (a.n v info) a.g) w := by
  refine ⟨hw.wf, hw.key, hw.v0, hw.vmax, hw.lo, hw.hi, ?_, ?_⟩
  · intro q h1 h2
    have hout : ¬ (a.s ≤ q ∧ q < a.s + a.n v info) := by
      rcases hd with h | h <;> omega
    have := hw.free q h1 h2
    unfold FLs fillLabel at *
    simp only [hout, ↓reduceIte]
    exact this
  · intro p r hp hm
    unfold fillLabel at hm
    by_cases hin : a.s ≤ p ∧ p < a.s + a.n v info
    · simp only [hin, and_self, ↓reduceIte] at hm
      cases hm
    · simp only [hin, ↓reduceIte] at hm
      exact hw.nospan p r hp hm

/-- **Committing a write batch, on the bytes.** -/
theorem commit_batch {v lo total : Nat} {info : Gen → RecMeta} :
    ∀ (ws : List BW) (img : Image) (d : Disk) (L : List Rec),
      Rep img v lo total info d → TiledBy d total L lo → total ≤ img.size →
      (∀ w ∈ ws, BWOk v lo total info d w) → ws.Pairwise (Disjoint2 v info) →
      Rep (applyWrites v info img ws) v lo total info (fillAll v info d ws) ∧
      ∃ L', TiledBy (fillAll v info d ws) total L' lo ∧
        (∀ r, r ∈ L' ↔ r ∈ L ∨ r ∈ ws.map (fun w => (w.s, w.g, w.n v info))) ∧
        ∀ (o : Opts) (journal : List (Nat × Nat)) (st : ScanSt), o.readOnly = false →
          GoodOutcome info L' st (scan (applyWrites v info img ws) v total o journal lo st) := by
  intro ws
  induction ws with
  | nil =>
    intro img d L hrep ht _ _ _
    refine ⟨hrep, L, ht, fun r => by simp, fun o journal st hro => ?_⟩
    exact scan_rep_tiled hro hrep (total - lo) lo L st (Nat.le_refl _) (Nat.le_refl _) ht
  | cons w ws ih =>
    intro img d L hrep ht htot hok hdisj
    have hw := hok w List.mem_cons_self
    obtain ⟨hrep1, L1, ht1, hmem1, _⟩ := commit_record hrep ht htot w.s w.g w.value hw.wf hw.key hw.v0 hw.vmax hw.lo hw.hi hw.free hw.nospan
    rw [List.pairwise_cons] at hdisj
    have hok1 : ∀ x ∈ ws, BWOk v lo total info (fillLabel d w.s (w.n v info) w.g) x :=
      fun x hx => (hok x (List.mem_cons_of_mem _ hx)).after_fill (hdisj.1 x hx)
    obtain ⟨hrep2, L2, ht2, hmem2, hscan2⟩ := ih _ _ L1 hrep1 ht1 (by rw [writeBlocks_size]; exact htot) hok1 hdisj.2
    refine ⟨hrep2, L2, ht2, ?_, hscan2⟩
    intro r
    rw [hmem2 r, hmem1 r]
    simp only [List.map_cons, List.mem_cons, BW.n]
    constructor
    · rintro ((h | h) | h)
      · exact Or.inl h
      · exact Or.inr (Or.inl h)
      · exact Or.inr (Or.inr h)
    · rintro (h | h | h)
      · exact Or.inl (Or.inl h)
      · exact Or.inl (Or.inr h)
      · exact Or.inr h

end Feox.Fmt
